"""C02 The outcome of a simulation does not depend on the context factory (raw, boost, thread) nor on the number of worker
threads (contexts/nthreads) and their synchronisation mode (contexts/synchro), for programs whose actors share no
unsynchronised memory.

Every scenario (generated S4U program, harness/progvm.cpp: the actors share nothing but SimGrid objects) is run under
  raw/1 (reference), boost/1, thread/1                      -> complete logs must be byte-identical (one actor runs at a time,
                                                               the factories only differ in how they switch stacks)
  {raw,boost} x nthreads {2,4,16} x synchro {futex,posix,busy_wait}, thread x nthreads {2,4,16}
                                                            -> the sequence of events of every actor (dates, values) and
                                                               maestro's sequence of creations/terminations must be identical
Why per actor only in parallel runs: the statement promises the same observable *results*; within a parallel sub-round the
actors really run at the same time, so the interleaving of the lines that different actors print at one date is not defined,
while everything an actor sees (and the kernel's own sequential decisions, logged by maestro) must not change. Equality of
all per-actor sequences implies equality of the date-sorted multiset of events.

Thorough tier only: the nthreads>1 configurations are also run on the ThreadSanitizer flavour; data races whose stacks touch
libsimgrid are reported, de-duplicated by the top frames of the two accesses.

Test-only switch (oracle self-test): VERIF_SELFTEST=swap|date|drop|value damages the log of every non-reference run.
"""
import os
import random
import re

from verif import build, core, proc
from verif import progvm_common as pc
from verif.gen import prog

META = {
    "id": "C02", "engine": "E1 S4U program VM", "engine_path": "harness/progvm.cpp",
    "engine_kind": "generated S4U programs interpreted on the real kernel under every context factory / worker-thread configuration",
    "level": "exploration",
    "technique": "configuration differential: complete logs across factories at nthreads=1, per-actor event sequences (+ maestro's) across "
                 "nthreads/synchro modes, against the raw/1 run of the same scenario; ThreadSanitizer on the parallel runs (thorough)",
    "level_text": "The property quantifies over programs x configurations, so each generated program is executed under the configurations "
                  "and everything observable is compared with the reference run. Programs come from the generator of C01: many events "
                  "at exactly the same date (actors woken in one round, several actors dying at once with joiners and pending "
                  "communications, ready sets of wait_any, timeouts tying with completions), each followed by a contended "
                  "mutex/semaphore/mailbox, so that whatever a parallel sub-round does in a timing-dependent order becomes a different date "
                  "or value in some actor's sequence. The harness itself adds no shared mutable state (read-only tables, per-actor "
                  "interpreter state, one locked stdio call per line), so a difference or a race is SimGrid's.",
    "level_note": "Parallel runs are timing dependent: a run that agrees does not prove that another schedule would; parallel configurations "
                  "are repeated (thorough tier) and the directed cases are repeated in every tier. busy_wait is only run with 2 and 4 workers "
                  "(16 spinning workers on a shared 16-core machine take minutes per scenario). TSan sees the raw/boost stack switches "
                  "only through SimGrid's fibre annotations. Operations that other properties already report as crashing/undefined are not "
                  "generated (see C01).",
    "rule": "case = one scenario x one configuration compared with the reference run of that scenario; non-trivial = distinct scenarios with "
            ">=1 tie (>=3 actors returning at one date) compared under >=1 parallel configuration and the two other factories",
    "assumptions": ["the reference run (raw contexts, 1 thread) is taken as is: C01 checks that it is reproducible"],
    "ready": True,
}

STACK = ["--cfg=contexts/stack-size:256"]
REF = ("raw", 1, None)
SEQ = [("boost", 1, None), ("thread", 1, None)]
PAR = [(f, n, s) for f in ("raw", "boost") for n in (2, 4, 16) for s in ("futex", "posix", "busy_wait") if not (s == "busy_wait" and n == 16)]
PAR += [("thread", n, None) for n in (2, 4, 16)]
# directed cases whose (known) misbehaviour depends on the timing of the worker threads, and where it shows most often
HOT = {"d:same-date-killtime-joiners", "d:same-round-returns-with-comms-in-flight"}
HOT_CFGS = [("thread", 4, None), ("boost", 16, "futex")]


def flags_of(cfg):
    f, n, s = cfg
    fl = list(STACK) + ["--cfg=contexts/factory:%s" % f]
    if n != 1:
        fl.append("--cfg=contexts/nthreads:%d" % n)
    if s:
        fl.append("--cfg=contexts/synchro:%s" % s)
    return fl


def name_of(cfg):
    f, n, s = cfg
    return "%s/%d%s" % (f, n, "/" + s if s else "")


def cfg_class(cfg):
    return "sequential" if cfg[1] == 1 else "parallel"


def run_cfg(flavour, cfg, part, budget, env=None):
    binp = build.harness("progvm.cpp", flavour)
    cases = [(tag, 0, flags_of(cfg), sc["text"]) for tag, sc in part]
    return pc.run_batch(binp, cases, per_case_budget=budget, env=env)


def compare(ctx, cfg, tag, sc, ref, r, selftest=None):
    """One scenario under one configuration against its reference run. Returns True when compared and equal."""
    nm = name_of(cfg)
    if ref["watchdog"] or r["watchdog"]:
        ctx.inconclusive("watchdog:%s" % nm)
        return False
    par = cfg[1] != 1
    witness = {"scenario": sc["text"], "motifs": sc["motifs"], "config": list(cfg)}
    ctx.count("runs.%s" % cfg_class(cfg))
    ctx.count("runs.factory.%s" % cfg[0])
    if par:
        ctx.count("runs.nthreads.%d" % cfg[1])
        if cfg[2]:
            ctx.count("runs.synchro.%s" % cfg[2])
    log = r["log"]
    if selftest:
        log = pc.corrupt(log, selftest, random.Random(len(tag) + cfg[1]))
    # parallel runs: name the situation of the scenario in which dying actors make the kernel work concurrently (see death_hazards)
    hz = (":hazard=" + (pc.death_hazards(ref["log"], sc["text"]) or "none")) if par else ""
    if (r["rc"], r["sig"]) != (ref["rc"], ref["sig"]):
        ctx.violation("C02:diverge:%s:exit-status:rc=%s/sig=%s-vs-rc=%s/sig=%s%s" %
                      (cfg_class(cfg), ref["rc"], ref["sig"], r["rc"], r["sig"], hz),
                      "scenario %s %s: %s ends with rc=%s sig=%s, %s with rc=%s sig=%s\n%s" %
                      (tag, sc["motifs"], name_of(REF), ref["rc"], ref["sig"], nm, r["rc"], r["sig"], pc.scrub(r["err"])[-1200:]), witness)
        return False
    d = pc.divergence_key("C02", ref["log"], log, per_actor_mode=par)
    ctx.count("log_pairs_compared")
    ctx.count("log_lines_compared", len(log))
    if d is None:
        return True
    key, text, det = d
    key = key.replace("C02:diverge:", "C02:diverge:%s:" % cfg_class(cfg), 1) + hz
    ctx.count("divergences.%s" % cfg_class(cfg))
    ctx.violation(key, "scenario %s %s: %s and %s differ (%s)\n%s" % (tag, sc["motifs"], name_of(REF), nm,
                                                                     "per-actor sequences" if par else "complete logs", text), witness)
    return False


# ---- ThreadSanitizer leg ----------------------------------------------------------------------------------------
def _short(fn):
    fn = re.sub(r"\(.*", "", fn).strip()
    return fn.replace("simgrid::kernel::", "").replace("simgrid::", "")


def tsan_reports(err):
    """Data race reports of a TSan stderr: list of (stable tag, involves libsimgrid, text). The tag names, for each of the two
    accesses, the first two simgrid frames of its stack (boost/std internals, lambdas and line numbers are skipped), sorted."""
    reps = []
    cur = None
    for line in (err or "").splitlines():
        if "WARNING: ThreadSanitizer:" in line:
            cur = {"head": line.split("ThreadSanitizer:", 1)[1].split("(pid")[0].strip(), "stacks": [], "text": [line], "on": False}
            reps.append(cur)
            continue
        if cur is None:
            continue
        cur["text"].append(line)
        s = line.strip()
        if re.match(r"^(Read|Write|Previous|Atomic)", s, re.I) and " by " in s:
            cur["stacks"].append([])
            cur["on"] = True
        elif s.startswith("#") and cur["on"] and cur["stacks"]:
            fn = re.sub(r"^#\d+ ", "", s)
            if fn.startswith("simgrid::") and len(cur["stacks"][-1]) < 2:
                cur["stacks"][-1].append(_short(fn.split(" ../")[0].split(" /")[0]))
        elif not s:
            cur["on"] = False
        if line.startswith("SUMMARY: ThreadSanitizer"):
            cur = None
    out = []
    for r in reps:
        if r["head"] != "data race":
            continue                      # thread leaks come from the harness never destroying its Engine
        text = "\n".join(r["text"])
        tag = " || ".join(sorted(set("<".join(st) for st in r["stacks"][:2] if st))) or "no-simgrid-frame"
        out.append((tag, "simgrid::" in text or "libsimgrid" in text, text))
    return out


def tsan_leg(ctx, scs, budget):
    build.harness("progvm.cpp", "tsan")
    cfgs = [c for c in PAR if c[2] != "busy_wait" and c[1] in (2, 4)]
    jobs = []
    for k in range(0, len(scs), 4):
        part = scs[k:k + 4]
        jobs.append((cfgs[(k // 4) % len(cfgs)], part))
        jobs.append((cfgs[(k // 4 + 5) % len(cfgs)], part))
    env = {"TSAN_OPTIONS": "halt_on_error=0:exitcode=0:second_deadlock_stack=1:history_size=4:report_signal_unsafe=0"}

    def work(job):
        cfg, part = job
        return cfg, part, run_cfg("tsan", cfg, part, budget, env)

    for cfg, part, res in ctx.pmap(work, jobs):
        for tag, sc in part:
            r = res[tag]
            ctx.evaluation()
            if r["watchdog"]:
                ctx.inconclusive("watchdog:tsan:%s" % name_of(cfg))
                continue
            ctx.count("tsan.runs")
            for tag_, ours, text in tsan_reports(r["err"]):
                ctx.count("tsan.data_race_reports")
                if not ours:
                    ctx.count("tsan.reports_outside_simgrid(ignored)")
                    continue
                ctx.violation(pc.scrub("C02:tsan:data-race:" + tag_)[:300],
                              "ThreadSanitizer under %s, scenario %s %s:\n%s" % (name_of(cfg), tag, sc["motifs"], pc.scrub(text)[:3500]),
                              {"scenario": sc["text"], "motifs": sc["motifs"], "config": list(cfg), "tsan": True})


def run(ctx):
    n = ctx.size(quick=20, thorough=500)
    budget = 200
    selftest = os.environ.get("VERIF_SELFTEST")
    build.harness("progvm.cpp", "hooks")
    directed = [("d:" + d["name"], d) for d in prog.directed()]
    scs = list(directed)
    for i in range(n):
        scs.append(("g%d" % i, prog.generate(ctx.sub_rng("sc", i))))
    npar = 6 if ctx.tier == "quick" else len(PAR)
    reps = 1 if ctx.tier == "quick" else 2
    # which scenario runs under which configuration, how many times
    todo = {}                                   # cfg -> [(tag, sc)] (a scenario may appear several times)
    for i, (tag, sc) in enumerate(scs):
        todo.setdefault(REF, []).append((tag, sc))
        for c in SEQ:
            todo.setdefault(c, []).append((tag, sc))
        if tag.startswith("d:"):
            mine = list(PAR)                    # the directed cases see every configuration ...
            if tag in HOT:                      # ... and the timing-dependent known findings get enough chances to show
                mine += [c for c in HOT_CFGS for _ in range(4)]
        else:
            mine = list(dict.fromkeys(PAR[(i * 5 + j * 7) % len(PAR)] for j in range(npar)))
        for c in mine:
            todo.setdefault(c, []).extend([(tag, sc)] * (reps if c[1] != 1 else 1))
    jobs = []
    chunk = 6
    for c, lst in todo.items():
        for k in range(0, len(lst), chunk):
            part = lst[k:k + chunk]
            # a scenario repeated inside one chunk needs distinct tags for the batch protocol
            jobs.append((c, k, [("%s#%d" % (tag, k + x), sc) for x, (tag, sc) in enumerate(part)]))

    def work(job):
        c, k, part = job
        return c, part, run_cfg("hooks", c, part, budget)

    outs = ctx.pmap(work, jobs)
    ref = {}
    for c, part, res in outs:
        if c == REF:
            for xtag, _sc in part:
                ref[xtag.split("#")[0]] = res[xtag]
    compared = {}
    for c, part, res in outs:
        if c == REF:
            continue
        for xtag, sc in part:
            tag = xtag.split("#")[0]
            ctx.evaluation()
            compare(ctx, c, tag, sc, ref[tag], res[xtag], selftest)
            d = compared.setdefault(tag, {"seq": 0, "par": 0})
            if not (ref[tag]["watchdog"] or res[xtag]["watchdog"]):
                d["seq" if c[1] == 1 else "par"] += 1
    for tag, sc in scs:
        r = ref[tag]
        ctx.evaluation()
        if r["watchdog"]:
            continue
        nt, mx, nev = pc.tie_stats(r["log"])
        ctx.count("events_logged(reference)", nev)
        ctx.count("tie_dates(>=3 actors)", nt)
        ctx.maximum("largest_tie", mx)
        for m in sc["motifs"]:
            ctx.count("motif." + m.split(":")[0])
        d = compared.get(tag, {"seq": 0, "par": 0})
        if nt >= 1 and d["seq"] >= 2 and d["par"] >= 1 and r["rc"] == 0:
            ctx.nontrivial(core.stable_hash(sc["text"]))
        ctx.sample({"scenario": tag, "motifs": sc["motifs"], "actors": sc["nactors"], "log_lines": len(r["log"]), "tie_dates": nt,
                    "configurations_compared": d})
    if ctx.tier == "thorough" and not selftest:
        ntsan = max(8, n // 5)
        tsan_leg(ctx, directed + scs[len(directed):len(directed) + ntsan], 400)


def replay(ctx, w):
    sc = {"text": w["scenario"], "motifs": w.get("motifs", []), "nactors": 0}
    cfg = tuple(w["config"])
    if w.get("tsan"):
        tsan_leg(ctx, [("replay", sc)], 400)
        return
    ref = run_cfg("hooks", REF, [("replay", sc)], 300)["replay"]
    for rep in range(6 if cfg[1] != 1 else 1):          # parallel runs are timing dependent: try a few times
        r = run_cfg("hooks", cfg, [("replay", sc)], 300)["replay"]
        ctx.evaluation()
        compare(ctx, cfg, "replay", sc, ref, r)
