"""C03 Simulated time is monotone and events happen exactly at their date."""
import os
import threading

from verif import build, core, proc
from verif.gen import clockprog
from verif.oracles import clock as oracle

META = {
    "id": "C03", "engine": "E1 s4u harness (generated timed programs) + kernel-quiescent hook", "engine_path": "harness/clock.cpp",
    "engine_kind": "S4U program executing generated per-actor scripts on the real kernel; online clock monitor on the SIMGRID_VERIF "
                   "quiescent hook and on every signal; python checker over the totally ordered event stream",
    "level": "exploration",
    "technique": "online monotonicity monitor at every kernel-quiescent hook call, time-advance signal, activity signal and actor call "
                 "boundary + offline checker of the recorded stream against the dates the program asked for",
    "level_text": "Generated programs (1-6 actors on 1-3 hosts, child actors, maestro driving the run with run_until) mix sleep_for / "
                  "sleep_until with durations 0, negative, below / at / one ulp around precision/timing, decimal fractions whose sums are "
                  "not representable (0.1+0.2 vs 0.3), thirds, 1e9 and 1e15 (absorption), kernel timers set by actors, by maestro and by "
                  "timer callbacks (at the current date, at dates reached in two ways), kill times given at creation or set later, execs / "
                  "mailbox comms / disk I/Os started, tested and waited (0-sized included), host speed profiles, under cpu/optim "
                  "Lazy/Full/TI, network/optim Lazy/Full, three values of precision/timing and ptask_L07. Every record carries Engine::get_clock() and the records of "
                  "a run form one total order. Demanded: the clock never decreases from one observation to the next (hook calls "
                  "included, checked online), it changes only through on_time_advance(delta) with delta >= 0 and clock == previous + "
                  "delta; no timer is overdue at a quiescent point; a timer fires once, never before its date and at most a few ulps "
                  "after; a sleep returns at call + max(d, precision/timing) (never later; earlier by less than the precision only; "
                  "exact to the ulp when alone on the time line); creation <= start <= finish for every activity, no date in the "
                  "observer's future, wait() returns exactly at the finish date (or at once when already finished), test() agrees "
                  "with the finish date; an actor alive at its kill time terminates at that date; run_until never overshoots; the "
                  "kernel makes progress (no endless run of empty 0 s advances).",
    "level_note": "Tolerances: 4 ulp of the dates (one more per time advance crossed under cpu/optim:Full, where remaining durations are "
                  "decremented step by step); an event may happen up to precision/timing early because the kernel merges events closer than "
                  "that (documented meaning of precision/timing) - the check therefore also runs solo programs where nothing can be merged and "
                  "exactness to the ulp is demanded. The clamp of sub-precision sleeps to precision/timing (documented by the warning of "
                  "sleep_for) is taken as the reference for the Cas01 CPU model, ptask_L07 does not clamp. Not judged (statement silent): "
                  "run_until(t) returning up to 1e-5 s before t when nothing is left to run at that moment (counted), set_kill_time with a "
                  "date that is not in the future (ignored by SimGrid, not generated), durations of execs/comms/I/Os (C20), timed waits "
                  "(C12). set_kill_time is never issued twice on one actor (C11's stale-timer finding). No failures, no suspend. "
                  "Sequential actor execution (contexts/nthreads:1); the asan leg runs the directed programs and a fifteenth of the generated ones, on thread contexts (ASan loses track of the raw-context stacks when exceptions unwind them).",
    "rule": "case = one generated program under one configuration; non-trivial = distinct programs whose stream was fully checked and "
            "contains at least one checked positive sleep and at least one of: two sources with an event at the same positive date, a "
            "fired timer, a kill time reached",
    "assumptions": ["the order of the lines written by the single simulation process is the order in which the kernel and the actors executed "
                    "(contexts/nthreads:1)"],
    "ready": True,
}

HARNESS = "clock.cpp"
FLAVOUR_ARGS = {"hooks": [], "asan": ["--cfg=contexts/factory:thread"]}
CHUNK = 12


def exe(fl):
    return build.harness(HARNESS, fl, internal=True)


def with_flavour(sc, fl):
    if not FLAVOUR_ARGS[fl]:
        return sc
    s2 = dict(sc)
    s2["cfg"] = dict(sc["cfg"], extra=list(sc["cfg"].get("extra", [])) + FLAVOUR_ARGS[fl])
    return s2


def run_chunk(fl, items, tamper=None):
    """items: [(sid, scenario)] -> {sid: parsed run or None}"""
    text = "".join(clockprog.to_text(with_flavour(sc, fl), sid) for sid, sc in items)
    res = proc.run([exe(fl)], stdin=text, timeout=180 + 20 * len(items))
    out = res.out
    if tamper is not None:
        out = tamper(out)
    got = oracle.parse(out)
    return {sid: (got.get(sid) if got.get(sid) is not None and got[sid]["status"] is not None else None) for sid, _ in items}


def judge(ctx, fl, sc, run, origin):
    """Decide one program. Returns True when non-trivial."""
    ctx.evaluation()
    w = {"flavour": fl, "scenario": sc, "origin": origin}
    if run is None:
        ctx.inconclusive("clock harness watchdog")
        return False
    if run["status"] == 1014:
        ctx.inconclusive("per-scenario wall-clock guard of the harness (SIGALRM)")
        return False
    if run["status"] not in (0, 3):
        key, what = oracle.crash_key(run)
        ctx.violation(key, what + "\n  program: " + clockprog.to_text(sc, "w").replace("\n", " / "), w)
        return False
    vio, st = oracle.check(sc, run)
    for key, text in vio:
        ctx.violation(key, text, w)
    for k, v in st.items():
        if not k.startswith("_"):
            ctx.count(k, v)
    ctx.count("records", len(run["recs"]))
    if any("Deadlock detected" in l for l in run["noise"]):
        ctx.count("programs_ending_in_a_deadlock_report")
    nsleep = sum(v for k, v in st.items() if k.startswith("sleep.checked.") and not k.endswith(".zero"))
    return (not vio) and st.get("_ended") == 1 and nsleep >= 1 and (st.get("_ties", 0) >= 1 or st.get("timer.fired", 0) >= 1 or st.get("kill.checked", 0) >= 1)


# ------------------------------------------------------------------------------------------------ directed programs (always run)
def _sc(actors, mops=("run",), hosts=None, cfg=None, solo=False, programs=(), links=(), routes=(), disks=None):
    hosts = hosts or [{"name": "h0", "speed": 1e9, "profile": []}]
    c = {"cpu_optim": "Lazy", "net_optim": "Lazy", "prec": 1e-9, "host_model": "default"}
    c.update(cfg or {})
    return {"cfg": c, "hosts": hosts, "links": [list(l) for l in links], "routes": [list(r) for r in routes],
            "disks": disks if disks is not None else [[h["name"], 1e8, 5e7] for h in hosts],
            "actors": [{"host": h, "kill": k, "ops": list(ops)} for h, k, ops in actors], "programs": [list(p) for p in programs],
            "mops": list(mops), "solo": solo}


def directed():
    out = []
    two = [{"name": "h0", "speed": 1e9, "profile": []}, {"name": "h1", "speed": 1e9, "profile": []}]
    net = dict(hosts=two, links=[("l0", 1e8, 1e-4)], routes=[("h0", "h1", "l0")])
    for cfg in ({}, {"cpu_optim": "Full"}, {"prec": 1e-6}, {"host_model": "ptask_L07"}):
        # a lone actor: every sleep is alone on the time line, exactness to the ulp is demanded
        out.append(_sc([("h0", None, ["s:0.1", "s:0.2", "s:0", "s:-1.0", "s:1e-12", "s:5e-10", "s:1e-09", "s:2e-09", "u:0.5", "u:0.25", "x:1e8", "s:0.3",
                                      "ir:1000000.0", "s:0.3333333333333333", "s:1e9", "s:0.1", "s:1e-09", "s:1e-07", "u:1000000002.5", "s:1e15", "s:1.0"])],
                       cfg=cfg, solo=True))
        # ties built in two ways, timers at the current date / at a sleeper's wake-up date / one ulp around it, timers set by maestro
        out.append(_sc([("h0", None, ["s:0.1", "s:0.2", "tr:0.0:a", "t:0.6:b", "s:0.3", "t:0.6000000000000001:c", "s:1.0"]),
                        ("h0", None, ["s:0.3", "t:0.30000000000000004:d", "s:0.30000000000000004", "s:1.0"]),
                        ("h0", 0.6, ["s:0.6", "s:5.0"]),
                        ("h0", None, ["kr:3:0.2", "xa:600000000.0:0", "s:0.1", "ts:0", "w:0", "s:2.0"])],
                       mops=["tm:0.3:m0", "ru:0.3", "tm:0.3:m1", "ru:0.30000000000000004", "tm:1.6:m2", "run"], cfg=cfg))
    # comms and I/Os started, tested and waited; a kill time hitting an actor blocked in a receive; a child with a kill time
    out.append(_sc([("h0", None, ["pa:m0:1000000.0:0", "s:0.001", "ts:0", "w:0", "p:m1:0.0", "ia:r:10000000.0:1", "s:0.05", "w:1", "sp:0:h1:0.25", "s:1.0"]),
                    ("h1", None, ["ga:m0:0", "w:0", "g:m1", "s:0.1", "g:m2", "s:1.0"]),
                    ("h1", 0.75, ["s:0.5", "g:m3", "s:1.0"])],
                   programs=[["s:0.1", "x:1e8", "s:5.0"]], **net))
    # host speed profile: events on a used and on an idle host, one of them at a sleeper's wake-up date
    prof = [{"name": "h0", "speed": 1e9, "profile": [[0.0, 1.0], [0.3, 0.5], [0.7, 1.0]]}, {"name": "h1", "speed": 1e9, "profile": [[0.45, 0.5]]}]
    for cfg in ({}, {"cpu_optim": "Full"}):
        out.append(_sc([("h0", None, ["s:0.1", "x:4e8", "s:0.3", "s:1.0"]), ("h0", None, ["s:0.3", "s:0.4", "tr:0.1:p", "s:1.0"])], hosts=prof, cfg=cfg))
    # minimal witness of the open finding C03:clock-decreased:after-profile-event-callback: speed event at 0.45 on a host that is
    # computing since 0.1 (0.1 + (0.45 - 0.1) rounds below 0.45)
    out.append(_sc([("h0", None, ["s:0.1", "x:1e9"])], hosts=[{"name": "h0", "speed": 1e9, "profile": [[0.45, 0.5]]}]))
    # minimal witness of the open finding C03:crash:kill-time-armed-on-actor-ending-in-the-same-round
    # (a1 wakes first and issues the call while a0 is still alive; a0 then wakes and ends in the same scheduling round)
    # (hooks flavour only: on the thread contexts of the asan leg the same defect makes the simulator hang instead of aborting)
    out.append(dict(_sc([("h0", None, ["s:1.0"]), ("h0", None, ["s:1.0", "k:0:3.0", "s:5.0"])]), only="hooks"))
    # chained timers: the callback of a timer sets another one for the same date / 1e-12 later
    out.append(_sc([("h0", None, ["tr:0.1:c0:0.0", "t:0.2:c1:1e-12", "s:0.1", "tr:0.0:c2:0.0", "s:1.0"]), ("h0", 0.2, ["s:0.2", "s:1.0"])],
                   cfg={"cpu_optim": "TI"}))
    return out


# ------------------------------------------------------------------------------------------------ run
def run_leg(ctx, fl, items, workers=None, tamper=None):
    chunks = [items[i:i + CHUNK] for i in range(0, len(items), CHUNK)]

    def one(ch):
        runs = run_chunk(fl, [(sid, sc) for sid, sc, _ in ch], tamper)
        for sid, sc, origin in ch:
            if judge(ctx, fl, sc, runs.get(sid), origin):
                ctx.nontrivial(sc)
    ctx.pmap(one, chunks, workers)


def run(ctx):
    n = ctx.size(600, 24000)
    for fl in ("hooks", "asan"):
        exe(fl)
    dirs = [("d%d" % i, sc, "directed %d" % i) for i, sc in enumerate(directed())]
    gens = [("g%d" % i, clockprog.gen(ctx.sub_rng(i)), "generated %d" % i) for i in range(n)]
    ctx.sample({"program": clockprog.to_text(dirs[1][1], "d1")})
    ctx.sample({"program": clockprog.to_text(gens[0][1], "g0")})
    jobs = int(os.environ.get("VERIF_JOBS", core.NCPU))
    err = []
    asan_items = [d for d in dirs if d[1].get("only", "asan") == "asan"] + gens[:max(6, n // 15)]

    def asan_leg():
        try:
            run_leg(ctx, "asan", asan_items, workers=max(1, jobs // 3))
        except Exception as e:      # re-raised in the main thread (harness failure, not a verdict)
            err.append(e)
    th = threading.Thread(target=asan_leg)
    th.start()
    run_leg(ctx, "hooks", dirs + gens, workers=max(1, jobs - jobs // 3))
    th.join()
    if err:
        raise err[0]


def replay(ctx, w):
    fl, sc = w["flavour"], w["scenario"]
    runs = run_chunk(fl, [("r", sc)])
    r = runs.get("r")
    if r is not None:
        for k, c, f in r["recs"]:
            if k != "H":
                print("  ", k, repr(c), " ".join(f))
        for l in r["noise"][:20]:
            print("   !", l)
    judge(ctx, fl, sc, r, w.get("origin", "replay"))
