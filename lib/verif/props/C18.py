"""C18 Concurrency limits are enforced without starvation."""
from verif import build, proc
from verif.gen import lmm

META = {
    "id": "C18", "engine": "E2 lmm_fuzz", "engine_path": "harness/lmm_fuzz.cpp",
    "engine_kind": "direct driver of kernel::lmm::System with monitors after every solve/modification",
    "level": "exploration",
    "technique": "invariant monitor after every public modification: enabled-counting elements <= limit, == the constraint's counter, and every held-back variable touches a full constraint",
    "level_text": "Histories with concurrency limits 1..3 on 75% of the constraints; after every variable creation/expansion, free, penalty "
                  "change (enable, disable, re-weight) and solve, the harness recounts from its own bookkeeping the enabled variables whose "
                  "element weight counts (>=1) on each constraint, compares with the limit and with the constraint's counter, and requires "
                  "each variable that asked for a positive penalty but is disabled (staged) to use at least one constraint with no free slot. "
                  "Checked where the state is observable (after the call returns), not mid-update.",
    "level_note": "Reads Constraint::concurrency_current_ through -fno-access-control (the counter the statement mentions); WIFI constraints not generated.",
    "rule": "case = one history (seed,index); non-trivial = history in which >=1 staged (held-back) variable was observed",
    "ready": True,
}


def judge(ctx, out, seed, nhist, limit, fl):
    seen = set()
    for e in out["events"]:
        if e["kind"] == "CONC" and e["h"] not in seen:
            seen.add(e["h"])   # later anomalies of the same history are consequences of the first one
            ctx.violation("C18:%s:after-%s" % (e["sub"], e["after"]), "history %d step %d (seed %d, limits<=%d): %s %s" % (e["h"], e["step"], seed, limit, e["sub"], e["rest"]),
                          lmm.witness(seed, nhist, limit, "maxmin", fl, e))


def run(ctx):
    nhist = ctx.size(1500, 20000)
    jobs = [("hooks", ctx.sub_seed("h", i) % 1000003, nhist, 1 + i % 3) for i in range(ctx.size(3, 12))] + [("asan", ctx.sub_seed("a") % 1000003, max(20, nhist // 5), 2)]
    for fl in ("hooks", "asan"):
        build.harness("lmm_fuzz.cpp", fl, internal=True)

    def one(j):
        fl, seed, n, limit = j
        res = lmm.run_fuzz(ctx, fl, seed, n, limit, "maxmin")
        if res.timed_out:
            ctx.inconclusive("lmm_fuzz watchdog")
            return
        out = lmm.parse(res)
        if not out["complete"]:
            ctx.violation("C18:crash:maxmin", "lmm_fuzz died rc=%s (seed %d limit %d): %s" % (res.rc, seed, limit, proc.sanitizer_reports(res.err)[:1] or res.err[-400:]),
                          {"seed": seed, "nhist": n, "limit": limit, "flavour": fl})
            return
        judge(ctx, out, seed, n, limit, fl)
        for h, (solves, multi, staged) in out["hist"].items():
            ctx.evaluation()
            if staged > 0:
                ctx.nontrivial("%d|%d" % (seed, h))
        ctx.count("state_checks", int(out["sum"]["concchecks"]))
        ctx.count("staged_variable_observations", int(out["sum"]["staged_seen"]))
        ctx.count("runs." + fl)
    ctx.pmap(one, jobs)
    ctx.sample({"seed": jobs[0][1], "histories": jobs[0][2], "max_limit": jobs[0][3], "how_to_print": "TRACE_H=<h> lmm_fuzz <seed> <histories> <limit> maxmin"})


def replay(ctx, w):
    res = lmm.run_fuzz(ctx, w["flavour"], w["seed"], w["nhist"], w["limit"], "maxmin", trace_h=w["hist"])
    out = lmm.parse(res)
    print("\n".join(out["trace"]))
    judge(ctx, out, w["seed"], w["nhist"], w["limit"], w["flavour"])
    ctx.evaluation()
