"""C28 MPI point-to-point matching and non-overtaking."""
import json
import os
import random
import shutil
import tempfile

from verif import build, proc
from verif.gen import mpi, p2p as G
from verif.oracles import p2p as O

META = {
    "id": "C28", "engine": "E5 smpi programs", "engine_path": "harness/mpi/p2p.c",
    "engine_kind": "generated MPI programs interpreted by one harness binary under the real smpirun/SMPI",
    "level": "exploration",
    "technique": "matching-validity checker over the recorded receive/probe history of generated deadlock-free programs "
                 "(global matching generated first; every message carries its identity and a CRC)",
    "level_text": "Generated programs of 2-6 ranks on MPI_COMM_WORLD, a dup and a split communicator (permuted ranks) mixing "
                  "Send/Ssend/Bsend/Isend/Issend/Ibsend/Recv/Irecv/Sendrecv/Probe/Iprobe and all Wait*/Test* calls, wildcards under a class "
                  "discipline that keeps every legal matching complete, message and buffer sizes at +-1 of smpi/async-small-thresh and "
                  "smpi/send-is-detached-thresh under several settings of both. Every completed receive and every probe answer is "
                  "recorded and judged: compatibility (communicator, source, tag), exact status and bytes (CRC, untouched guard bytes), "
                  "truncation reporting, non-overtaking over every pair of messages of one sender, exactly-once delivery, normal end.",
    "level_note": "Hooks flavour only (SMPI's dlopen privatisation under ASan reports in the sanitizer's own sigaltstack "
                  "interceptor). The order between messages of different senders is not judged (MPI leaves it open). 4 of 9 threshold "
                  "settings keep the default smpi/async-small-thresh=0 (one of them all defaults): every rule applies there and nothing "
                  "about ordering is a known finding. With smpi/async-small-thresh > 0 programs come in two families: 'seg' (each phase "
                  "keeps messages and buffers on one side of the threshold; must be clean) and 'mixed' (both sides; the two-mailbox "
                  "design of SMPI breaks ordering there in four precisely keyed ways, see known_findings.d/C28.json; a deadlock hides "
                  "the rest of that program, every other key is still a violation). Truncation must be reported through the return "
                  "code as MPI-3.1 says (error class MPI_ERR_TRUNCATE for Recv/Wait/Waitany/Test/Testany/Sendrecv, MPI_ERR_IN_STATUS "
                  "plus status.MPI_ERROR for Waitall/Testall/Waitsome/Testsome).",
    "rule": "case = one generated program x one threshold setting; non-trivial = a program whose run completed with >=1 wildcard "
            "receive or >=2 ordered message pairs observed, distinct by program content",
    "assumptions": ["smpi/simulate-computation:no: measured CPU bursts are not injected, so that a run is a function of the program "
                    "and the two thresholds only (deterministic known-finding lines, verdicts independent of the machine load)",
                    "MPI-3.1 semantics for the return code of completion calls and for MPI_Testall (no request modified unless all "
                    "are complete)"],
    "ready": True,
}

# (async-small-thresh, send-is-detached-thresh, mode)
CONFIGS = [(0, 65536, "plain"), (0, 1000, "plain"), (0, 0, "plain"), (0, 300, "plain"),
           (500, 2000, "seg"), (1000, 1000, "seg"), (64, 65536, "seg"),
           (500, 2000, "mixed"), (4096, 65536, "mixed")]


def directed():
    """Minimal witnesses of the open known findings (re-found on every run), their clean counterparts with the default
    smpi/async-small-thresh=0, and the truncation/status cases of every completion call."""
    out = []
    a, d = 500, 2000
    w = [{"kind": "world"}]
    # F-A: large (rendezvous mailbox) then small (eager mailbox), other tag; receiver comes later with ANY_TAG
    out.append({"np": 2, "comms": w, "a": a, "d": d, "mode": "mixed", "phases": ["directed/anytag"], "ops": [
        [[1, 3, 0, 1, 1, 600, 2001, 0], [1, 3, 0, 1, 2, 10, 2002, 1], [5, 2, 2, 0, 1], [7]],
        [[6, 20000], [2, 0, 0, 0, -1, 700, -1], [2, 0, 0, 0, -1, 700, -1], [7]]]})
    # F-C: small receive posted first, large-buffer receive second, two small messages
    out.append({"np": 2, "comms": w, "a": a, "d": d, "mode": "mixed", "phases": ["directed/recvorder"], "ops": [
        [[6, 20000], [1, 0, 0, 1, 1, 8, 2011, -1], [1, 0, 0, 1, 1, 8, 2012, -1], [7]],
        [[2, 1, 0, 0, 1, 8, 0], [2, 1, 0, 0, 1, 700, 1], [5, 2, 2, 0, 1], [7]]]})
    # F-B: small receive posted first, oversized (>= threshold) message: must be MPI_ERR_TRUNCATE, is a deadlock
    out.append({"np": 2, "comms": w, "a": a, "d": d, "mode": "mixed", "phases": ["directed/truncate"], "ops": [
        [[6, 20000], [1, 0, 0, 1, 1, 600, 2021, -1], [7]],
        [[2, 0, 0, 0, 1, 100, -1], [7]]]})
    # F-B': a valid program without any truncation: Irecv(cap 100), Irecv(cap 700) <- Send(8 B), Send(600 B): deadlock
    out.append({"np": 2, "comms": w, "a": a, "d": d, "mode": "mixed", "phases": ["directed/deadlock"], "ops": [
        [[6, 20000], [1, 0, 0, 1, 1, 8, 2061, -1], [1, 0, 0, 1, 1, 600, 2062, -1], [7]],
        [[2, 1, 0, 0, 1, 100, 0], [2, 1, 0, 0, 1, 700, 1], [5, 2, 2, 0, 1], [7]]]})
    # two-mailbox defect seen by a probe with MPI_ANY_TAG (Probe, then an Iprobe loop)
    for pk in (0, 1):
        out.append({"np": 2, "comms": w, "a": a, "d": d, "mode": "mixed", "phases": ["directed/probe"], "ops": [
            [[1, 3, 0, 1, 1, 600, 2031 + 2 * pk, 0], [1, 3, 0, 1, 2, 10, 2032 + 2 * pk, 1], [5, 2, 2, 0, 1], [7]],
            [[6, 20000], [4, pk, 0, 0, -1], [2, 0, 0, -2, -2, -2, -1], [2, 0, 0, 0, -1, 700, -1], [7]]]})
    # the same with async-small-thresh = 0 (the default) must be clean, whatever the detached threshold
    for c in list(out):
        for dd in (2000, 65536):
            c2 = json.loads(json.dumps(c))
            c2["a"], c2["d"], c2["mode"] = 0, dd, "plain"
            out.append(c2)
    # same-tag pairs across the threshold are kept in order by the per-(src,dst,tag) message ids: must be clean with async > 0
    out.append({"np": 2, "comms": w, "a": a, "d": d, "mode": "seg", "phases": ["directed/sametag"], "ops": [
        [[1, 3, 0, 1, 1, 600, 2071, 0], [1, 3, 0, 1, 1, 10, 2072, 1], [1, 3, 0, 1, 1, 499, 2073, 2], [1, 3, 0, 1, 1, 500, 2074, 3],
         [5, 2, 4, 0, 1, 2, 3], [7]],
        [[6, 20000], [2, 0, 0, 0, 1, 700, -1], [4, 0, 0, 0, 1], [2, 0, 0, -2, -2, -2, -1], [2, 0, 0, 0, 1, 700, -1],
         [2, 0, 0, 0, 1, 700, -1], [7]]]})
    # truncation (8 bytes into a 4-byte buffer) completed by every completion call, Recv and Sendrecv: Recv/Wait/Waitall report
    # it through the return code, the others only in status.MPI_ERROR (open finding, one key per call)
    for api in (1, 2, 3, 4, 5, 6, 7, 8):
        out.append({"np": 2, "comms": w, "a": 0, "d": 65536, "mode": "plain", "phases": ["directed/trunc-rc"], "ops": [
            [[1, 0, 0, 1, 1, 8, 2040 + api, -1], [7]],
            [[2, 1, 0, 0, 1, 4, 0], [5, api, 1, 0], [7]]]})
    out.append({"np": 2, "comms": w, "a": 0, "d": 65536, "mode": "plain", "phases": ["directed/trunc-rc"], "ops": [
        [[1, 0, 0, 1, 1, 8, 2049, -1], [7]],
        [[2, 0, 0, 0, 1, 4, -1], [7]]]})
    out.append({"np": 2, "comms": w, "a": 0, "d": 65536, "mode": "plain", "phases": ["directed/trunc-rc"], "ops": [
        [[3, 0, 1, 1, 8, 2050, 1, 2, 8], [7]],
        [[3, 0, 0, 2, 3, 2059, 0, 1, 4], [7]]]})
    # two truncated and one fitting receive in one multiple-completion call: MPI_ERR_IN_STATUS + per-request status
    for api in (2, 5, 7, 8):
        out.append({"np": 2, "comms": w, "a": 0, "d": 65536, "mode": "plain", "phases": ["directed/trunc-multi"], "ops": [
            [[1, 0, 0, 1, 1, 8, 2081, -1], [1, 0, 0, 1, 2, 8, 2082, -1], [1, 0, 0, 1, 3, 300, 2083, -1], [7]],
            [[2, 1, 0, 0, 1, 4, 0], [2, 1, 0, 0, 2, 8, 1], [2, 1, 0, 0, 3, 0, 2], [6, 20000], [5, api, 3, 0, 1, 2], [7]]]})
    # MPI_Testall polled until completion loses the status of the request that finished during an earlier call
    out.append({"np": 2, "comms": w, "a": 0, "d": 65536, "mode": "plain", "phases": ["directed/testall"], "ops": [
        [[1, 0, 0, 1, 1, 8, 2051, -1], [6, 20000], [1, 0, 0, 1, 2, 8, 2052, -1], [7]],
        [[2, 1, 0, 0, 1, 8, 0], [2, 1, 0, 0, 2, 8, 1], [5, 5, 2, 0, 1], [7]]]})
    # the same through the other polling calls keeps every status
    for api in (4, 6, 8, 3, 7):
        out.append({"np": 2, "comms": w, "a": 0, "d": 65536, "mode": "plain", "phases": ["directed/poll"], "ops": [
            [[1, 0, 0, 1, 1, 8, 2091, -1], [6, 20000], [1, 0, 0, 1, 2, 8, 2092, -1], [7]],
            [[2, 1, 0, -1, -1, 8, 0], [2, 1, 0, -1, -1, 8, 1], [5, api, 2, 1, 0], [7]]]})
    return out


def run_case(ctx, exe, tmp, case, name):
    path = os.path.join(tmp, name + ".case")
    G.write_case(case, path)
    # simulate-computation:no = the CPU bursts measured between two MPI calls (they grow on a loaded machine) are not injected in
    # the simulated time: the schedule, hence the matching, only depends on the program (its delays are explicit usleep ops)
    cfg = ["--cfg=smpi/async-small-thresh:%d" % case["a"], "--cfg=smpi/send-is-detached-thresh:%d" % case["d"],
           "--cfg=smpi/simulate-computation:no"]
    res = mpi.smpirun(exe, case["np"], [path], timeout=150, cfg=cfg)
    os.unlink(path)
    return res


def judge(ctx, case, res, witness):
    ctx.evaluation()
    if res.timed_out:
        ctx.inconclusive("smpirun watchdog")
        return None
    cfg = "async=0" if case["a"] == 0 else "async>0:" + case["mode"]
    vio, stats = O.check(case, res.out)
    for key, what in vio:
        ctx.violation(key, what + "  [thresholds async=%d detached=%d, phases %s]" % (case["a"], case["d"], ",".join(case["phases"])),
                      witness)
    if not stats["complete"]:
        if "Deadlock detected" in res.err or "Deadlock detected" in res.out or "STUCK " in res.out:
            ctx.violation("C28:deadlock:" + cfg, "SMPI reports a deadlock on a deadlock-free program (np=%d, thresholds async=%d detached=%d, "
                          "phases %s)" % (case["np"], case["a"], case["d"], ",".join(case["phases"])), witness)
        elif not any(k.startswith("C28:crash") for k, _ in vio):
            ctx.violation("C28:abort:" + cfg, "smpirun rc=%s before the end of the program: %s" % (res.rc, (res.err or res.out)[-400:]), witness)
    for k in ("recv_completions", "probe_answers", "wildcard_recvs", "truncations", "order_pairs", "msgs", "probed_recvs"):
        ctx.count(k, stats[k])
    ctx.count("order_pairs_matching_both", stats.get("order_pairs_matching", 0))
    ctx.count("runs." + cfg)
    if (case["a"], case["d"]) == (0, 65536):
        ctx.count("runs.default-thresholds")
    return stats


def run(ctx):
    n = ctx.size(120, 6000)
    exe = build.smpicc("mpi/p2p.c", "hooks")
    tmp = tempfile.mkdtemp(prefix="verif-C28-")
    try:
        def one(i):
            if i < 0:
                case = DIRECTED[-i - 1]
                w = {"directed": -i - 1}
            else:
                a, d, mode = CONFIGS[i % len(CONFIGS)]
                sd = ctx.sub_seed(i)
                case = G.generate(random.Random(sd), a, d, mode, maxmsg=6 if mode == "mixed" else 12,
                                  nphases=(1 if mode == "mixed" else None))
                w = {"sub_seed": sd, "a": a, "d": d, "mode": mode}
            res = run_case(ctx, exe, tmp, case, "c%d" % i)
            st = judge(ctx, case, res, w)
            if st and st["complete"] and (st["wildcard_recvs"] >= 1 or st["order_pairs"] >= 2):
                ctx.nontrivial(case["ops"])
                ctx.sample({"np": case["np"], "a": case["a"], "d": case["d"], "mode": case["mode"], "phases": case["phases"],
                            "msgs": st["msgs"], "wildcard_recvs": st["wildcard_recvs"], "order_pairs": st["order_pairs"]})
        DIRECTED = directed()
        ctx.pmap(one, [-k - 1 for k in range(len(DIRECTED))] + list(range(n)))
    finally:
        mpi.cleanup()
        shutil.rmtree(tmp, ignore_errors=True)


def replay(ctx, w):
    exe = build.smpicc("mpi/p2p.c", "hooks")
    tmp = tempfile.mkdtemp(prefix="verif-C28-")
    try:
        if "directed" in w:
            case = directed()[w["directed"]]
        else:
            case = G.generate(random.Random(w["sub_seed"]), w["a"], w["d"], w["mode"], maxmsg=6 if w["mode"] == "mixed" else 12,
                              nphases=(1 if w["mode"] == "mixed" else None))
        res = run_case(ctx, exe, tmp, case, "replay")
        judge(ctx, case, res, w)
    finally:
        mpi.cleanup()
        shutil.rmtree(tmp, ignore_errors=True)
