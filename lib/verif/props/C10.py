"""C10 Resource failures are reported to every live participant (S4U, real kernel, systematic fault enumeration)."""
import os
import re

from verif import build, core, proc
from verif.gen import faults as gen
from verif.oracles import faults as oracle
from verif.oracles import faults_selftest as selftest

META = {
    "id": "C10", "engine": "E1 s4u harness (scripted actors + fault injector)", "engine_path": "harness/faults.cpp",
    "engine_kind": "S4U program executing generated per-actor scripts on the real kernel, one forked child (one Engine) per fault schedule; "
                   "boundary log (call / return / exception of every API call with dates, on_exit callbacks, on_onoff / on_completion / "
                   "on_termination / on_deadlock signals) replayed offline through a sequential python model",
    "level": "fault_enumeration",
    "technique": "fault-free timeline, then every resource x every fault point (each event date, just before, just after, mid-interval) "
                 "through four injection paths; boundary-recorded history judged event by event against a model of who uses what",
    "level_text": "Generated scenarios (2-6 actors on 2-5 hosts, 1-4 shared links, routes of 1-3 links, disks, mutexes) run execs (local, "
                  "remote, asynchronous), comms (put/get, put_async/get_async + wait/test/wait_any, detached sends), sleeps, disk I/O (local and "
                  "remote), critical sections and joins. The fault-free run gives the distinct event dates D. Then for every host and every link, "
                  "and every date of D, D-1e-6, D+1e-6 and the middle of every interval, the resource is turned off (one run in four turns it on "
                  "again later) by an injector actor on an unaffected host, by a kernel timer, by maestro between two Engine::run_until() calls, or "
                  "by a state profile attached to the resource; pairs of faults are drawn on top. Each run's log is replayed in kernel order: "
                  "actors of a failed host must stop at once and run their on_exit callbacks once, at the fault date, with failed=true; every "
                  "surviving actor blocked on an activity that uses the failed resource (comm whose source/destination host or route link failed, "
                  "exec on the failed host, I/O on a disk of the failed host) must return at the fault date with Network/Host/StorageFailure"
                  "Exception; waiting later for such an activity must raise at once; no call may report success on it (completion exactly at the "
                  "fault date is accepted as a tie), test() must not present it as finished without error; no survivor may be killed or remain "
                  "blocked on it until the end of the run; exceptions on activities whose resources never failed are spurious.",
    "level_note": "Sequential kernel (default context factory on the plain flavour, thread factory under ASan; the sanitized flavour runs every "
                  "explicit directed schedule and a tenth of the enumerations). Which put meets which get is modelled (FIFO per mailbox, log order = "
                  "kernel order) and cross-checked against the payload of every successful get and against Comm::get_sender/get_receiver after "
                  "every asynchronous post; a disagreement makes the run inconclusive. Dates are compared with SimGrid's timing precision (1e-9; "
                  "the fault points are 1e-6 apart) because the clock of a state-profile event and of the events that follow may differ by an ulp. "
                  "Asynchronous execs/IOs nobody waits for have no observable completion date: they are judged only when the fault precedes "
                  "start + amount/speed. The on_exit callback of a killed actor is demanded only when its registration had returned. An unmatched "
                  "put/get whose only possible peer died is not an activity involving a resource: the deadlock that follows is not judged. Left-over "
                  "detached sends of dead actors that a later get matches are not judged (but must not crash). Routes are symmetric and links SHARED, "
                  "so that 'the comm uses the link' does not depend on cross-traffic. join() on an actor killed with its host is only required to "
                  "return. Completion dates of unaffected activities are not compared with the fault-free run (sharing changes them). Quick tier: "
                  "the enumeration of a generated scenario is thinned evenly to ~200 schedules with the injection path rotating; thorough: every "
                  "resource x fault point x path. An oracle self-test (10 kinds of corruption of healthy logs of the directed probe scenario) "
                  "runs inside every run and fails the harness when a corruption is missed.",
    "rule": "case = (scenario, fault schedule); non-trivial = distinct cases in which the fault was applied and at least one demand of the "
            "statement was checked on the history (a killed actor's on_exit, an exception due at the fault date, a wait on a failed activity)",
    "assumptions": [
        "log order is kernel order: calls announced in one scheduling round are handled in that order; calls announced after the injector's "
        "turn_off in the same round are handled after it",
        "a completion at exactly the fault date may be reported either way (tie)",
        "a comm uses: the hosts of its two actors and the links of the (symmetric) route between them; same-host comms use no link",
    ],
    "ready": True,
}

ENGINE_ARGS = ["--log=root.thres:critical"]


def exe_args(fl):
    # ForcefulKillException unwinding on a swapped (raw/boost) stack makes ASan complain inside its own interceptors: the sanitized
    # runs use the thread factory, whose stacks ASan knows about (same choice as C11).
    return ENGINE_ARGS + (["--cfg=contexts/factory:thread"] if fl == "asan" else [])


def split_runs(out):
    """harness stdout -> {run id: (text, status)}"""
    res = {}
    cur, buf = None, []
    for line in out.splitlines():
        if line.startswith("BEGIN "):
            cur, buf = line.split()[1], []
        elif line.startswith("DONE ") and cur is not None:
            res[cur] = ("\n".join(buf), " ".join(line.split()[2:]))
            cur = None
        elif cur is not None:
            buf.append(line)
    if cur is not None:
        res[cur] = ("\n".join(buf), "truncated")
    return res


def split_err(err):
    """harness stderr -> {run id: text}"""
    res, cur = {}, None
    for line in err.splitlines():
        if line.startswith("BEGIN "):
            cur = line.split()[1]
            res[cur] = []
        elif cur is not None:
            res[cur].append(line)
    return dict((k, "\n".join(v)) for k, v in res.items())


def run_batch(fl, sc, runs, timeout):
    exe = build.harness("faults.cpp", fl)
    return proc.run([exe] + exe_args(fl), stdin=gen.to_text(sc, runs), timeout=timeout, env={"FAULTS_CHILD_TIMEOUT": "150"})


def base_dates(sc, text):
    """Dates of the fault-free run, or None if it is not clean (deadlock, exception, actor not finished)."""
    evs = oracle.parse(text)
    if any(e.kind == "DL" for e in evs) or not any(e.kind == "END" for e in evs):
        return None
    if any(e.kind == "R" and e.f[3] == "exc" for e in evs):
        return None
    if len([e for e in evs if e.kind == "Z"]) != len(sc["actors"]):
        return None
    return sorted(set(e.clk for e in evs if e.kind in ("Q", "R")))


def crash_key(status, err, text=""):
    """Stable class of a crashed run: sanitizer error kind + first SimGrid frame, the failed assertion, or the exit status + the
    last call announced in the log."""
    lines = err.splitlines()
    for i, l in enumerate(lines):
        if "ERROR: AddressSanitizer" in l or "runtime error:" in l:
            kind = l.split("AddressSanitizer:")[1].split()[0] if "AddressSanitizer:" in l else "ubsan"
            frame = "?"
            for m in lines[i + 1:i + 40]:
                if " in simgrid::" in m:
                    frame = m.split(" in ")[1].split("(")[0].replace("simgrid::", "").replace("kernel::", "").replace("activity::", "").strip()
                    break
            return "C10:sanitizer:%s:%s" % (kind, frame), "\n".join(lines[i:i + 14])
    st = status.split()[0].replace("=", "")
    for l in lines:
        if "Assertion" in l and "failed" in l:
            # xbt_assert: "... Assertion <cond> failed" -> the condition is the stable part
            cond = l.split("Assertion", 1)[1].split("failed")[0].strip()
            m = re.search(r"(\w+\.[ch]pp):\d+", l)
            return "C10:abort:%s:%s" % (m.group(1) if m else "?", cond.replace(" ", "")), l.strip()[-400:]
    tail = [l for l in lines if l.strip()][-3:]
    lastq = [l.split() for l in text.splitlines() if l.startswith("Q ")]
    return "C10:crash:%s:after-%s" % (st, lastq[-1][4] if lastq else "start"), " | ".join(tail)[-600:]


def fault_class(sc, run):
    return "+".join("%s%s" % (f["kind"], "-on" if f["t_on"] >= 0 else "") for f in run["faults"])


def judge_run(ctx, fl, sc, run, text, status, err):
    """Judges one fault run; returns True when it was non-trivial."""
    w = {"flavour": fl, "scenario": sc, "run": run}
    ctx.evaluation()
    if status == "timeout" or status == "truncated":
        ctx.inconclusive("fault run watchdog")
        return False
    if not status.startswith("rc=0"):
        key, rep = crash_key(status, err, text)
        ctx.violation(key, "the fault run died (%s): %s\nlog tail: %r\nflavour %s, scenario + run:\n%s" % (status, rep, text.splitlines()[-8:], fl, gen.to_text(sc, [run])), w)
        return False
    bad = []

    def report(key, what):
        bad.append(key)
        ctx.violation(key, "%s\nflavour %s, injection path %s, faults %r\nscenario + run:\n%s" % (what, fl, run["path"], run["faults"], gen.to_text(sc, [run])), w)

    n = oracle.check(sc, run, text, report, ctx.count)
    if bad:
        return False
    if n is None:
        ctx.inconclusive("pairing model drift")
        return False
    ctx.count("runs_fully_checked")
    ctx.count("runs_fully_checked.path_%s" % run["path"])
    if n > 0:
        ctx.count("demands_checked", n)
        return True
    return False


def plan_scenario(ctx, i, sc, directed_runs=None, flavours=("hooks", "asan")):
    """Fault-free run + enumeration of the fault points: returns the list of (flavour, name, scenario, chunk of runs)."""
    base = {"id": "base", "path": "N", "faults": []}
    res = run_batch("hooks", sc, [base], timeout=600)
    if res.timed_out:
        ctx.inconclusive("base run watchdog")
        return []
    runs = split_runs(res.out)
    if "base" not in runs or not runs["base"][1].startswith("rc=0"):
        st = runs.get("base", ("", "missing"))[1]
        key, rep = crash_key(st, res.err)
        ctx.violation(key + ":fault-free", "the fault-free run died (%s): %s\n%s" % (st, rep, gen.to_text(sc, [base])), {"flavour": "hooks", "scenario": sc, "run": base})
        return []
    dates = base_dates(sc, runs["base"][0])
    if dates is None:
        ctx.count("scenarios_discarded_base_run_not_clean")
        return []
    # the fault-free run goes through the same checker (nothing may fail)
    judge_run(ctx, "hooks", sc, base, runs["base"][0], "rc=0", res.err)
    rng = ctx.sub_rng("faults", i)
    thorough = ctx.tier == "thorough"
    npoints = len(gen.fault_points(dates)) * len(gen.resources(sc))
    if directed_runs is not None:
        todo = directed_runs
    else:
        # thorough: every resource x every fault point x every injection path; quick: the path rotates over the enumeration and the
        # enumeration is thinned evenly to ~200 schedules per scenario
        todo = gen.single_faults(sc, dates, rng, all_paths=thorough, limit=None if thorough else ctx.size(200, 200))
        ctx.count("enumeration.fault_points(resource x date)", npoints)
        ctx.count("enumeration.single_fault_schedules_run", len(todo))
        if len(todo) >= npoints:
            ctx.count("enumeration.scenarios_with_every_fault_point_run")
        todo += gen.pair_faults(sc, dates, rng, ctx.size(10, 60))
    ctx.count("scenarios_enumerated")
    ctx.count("fault_schedules_enumerated", len(todo))
    ctx.maximum("event_dates_in_a_scenario", len(dates))
    chunks = []
    only = os.environ.get("VERIF_C10_FLAVOURS")     # development aid (e.g. "hooks" when the sanitized tree of a scratch worktree is not built)
    for fl in flavours:
        if only and fl not in only.split(","):
            continue
        # the sanitized flavour costs ~10x more per run: it gets every explicit directed run and a tenth of the enumerations
        sub = todo if (fl == "hooks" or directed_runs is not None) else todo[::10]
        for c in range(0, len(sub), 40):
            chunks.append((fl, i, sc, sub[c:c + 40]))
    return chunks


def run_chunk(ctx, fl, name, sc, chunk, selftest_budget):
    r = run_batch(fl, sc, chunk, timeout=1800)
    got = split_runs(r.out)
    errs = split_err(r.err)
    if r.timed_out:
        ctx.inconclusive("batch watchdog")
    for run in chunk:
        if run["id"] not in got:
            if not r.timed_out:
                ctx.inconclusive("run missing from the batch output")
            continue
        text, status = got[run["id"]]
        if judge_run(ctx, fl, sc, run, text, status, errs.get(run["id"], "")):
            ctx.nontrivial({"scenario": sc, "faults": run["faults"], "path": run["path"]})
            if name == "probe" and fl == "hooks" and selftest_budget and selftest_budget[0] > 0:
                # oracle self-test on healthy, non-trivial logs of the directed scenario: every corruption must be caught
                selftest_budget[0] -= 1
                a, d, missed = selftest.selftest(sc, run, text)
                ctx.count("selftest.corruptions_applied", a)
                ctx.count("selftest.corruptions_detected", d)
                if missed:
                    raise core.HarnessFailure("oracle self-test: corruption not detected: %s" % missed[0])


def run(ctx):
    n = ctx.size(8, 40)
    for fl in (os.environ.get("VERIF_C10_FLAVOURS") or "hooks,asan").split(","):
        build.harness("faults.cpp", fl)
    scs = [gen.gen(ctx.sub_rng("scenario", i), small=(i % 2 == 0)) for i in range(n)]
    ctx.sample({"generated[0]": gen.to_text(scs[0], [])})
    ctx.sample({"directed[%s]" % gen.DIRECTED[2][0]: gen.to_text(gen.DIRECTED[2][1], gen.DIRECTED[2][2])})
    jobs = [(name, sc, runs, fls) for name, sc, runs, fls in gen.DIRECTED]
    jobs += [(i, sc, None, ("hooks", "asan")) for i, sc in enumerate(scs)]
    if os.environ.get("VERIF_C10_DIRECTED_ONLY"):   # development aid: the explicit directed schedules + the self-test scenario only
        jobs = [j for j in jobs if j[2] is not None or j[0] == "probe"]
    plans = ctx.pmap(lambda j: plan_scenario(ctx, *j), jobs)
    chunks = [c for p in plans for c in p]
    # expensive chunks first
    chunks.sort(key=lambda c: (c[0] != "asan", -len(c[3])))
    budget = [24]
    ctx.pmap(lambda c: run_chunk(ctx, c[0], c[1], c[2], c[3], budget), chunks)
    if ctx.counters.get("selftest.corruptions_applied", 0) == 0:
        raise core.HarnessFailure("the oracle self-test did not run (no healthy non-trivial run of the directed probe scenario)")


def replay(ctx, w):
    res = run_batch(w["flavour"], w["scenario"], [w["run"]], timeout=300)
    got = split_runs(res.out)
    text, status = got.get(w["run"]["id"], ("", "truncated"))
    print(text)
    print(res.err[-2000:])
    judge_run(ctx, w["flavour"], w["scenario"], w["run"], text, status, split_err(res.err).get(w["run"]["id"], res.err))
