"""C37 Trace replay reproduces the online simulated time."""
import os
import random
import shutil
import tempfile

from verif import build
from verif.gen import tigen
from verif.oracles import tireplay

META = {
    "id": "C37", "engine": "E5 smpi programs", "engine_path": "harness/mpi/ti_prog.c",
    "engine_kind": "script-interpreted MPI program run under the real smpirun (online, TI tracing) then its trace replayed by smpirun -replay",
    "level": "exploration",
    "technique": "differential on every traced call: online date after each MPI call vs date logged by the replay tool for the same action",
    "level_text": "Generated deadlock-free MPI programs (2-12 ranks, every call kind the replay tool registers: send/isend/recv/irecv/"
                  "wait/waitall/test/sendRecv/barrier/bcast/reduce/allreduce/alltoall(v)/gather(v)/scatter(v)/allgather(v)/"
                  "reducescatter/scan/exscan/sleep) on generated platforms (Full zones, clusters, small_platform; several ranks per host) "
                  "and SMPI configurations (collective selectors, eager/detached thresholds, os/or/ois factors, network models) are run "
                  "online with --cfg=smpi/simulate-computation:no and TI tracing; the produced trace is replayed with the same platform, "
                  "hostfile and options. The date at which each rank leaves each call must be the same in both executions (1e-9 s "
                  "= precision/timing), and so must the per-rank completion date and the final simulated time. A program that "
                  "diverges is truncated (bisection on its event list) to name the call kind after which the timelines part.",
    "level_note": "Programs use the calls as the replay tool interprets them: MPI_COMM_WORLD only, predefined datatypes, no wildcard "
                  "receive, waitall over all pending requests, pending requests of a rank distinct by (src,dst,tag). Sleep durations "
                  "have <=6 significant digits (the TI writer prints doubles with the default stream precision). Explicit "
                  "smpi_execute_flops is not part of the deciding set (the statement is about runs where computation is not simulated). "
                  "A 7-digit sleep is run as a non-deciding probe (counter probe.sleep-7-digits.*). While a known finding is open its "
                  "trigger (field `avoid` of known_findings.d/C37.json: collective selectors, zero-count gather/scatter, reuse of a "
                  "tested (src,dst,tag), scan with os/or overheads, reduce_scatter_block) is kept out of the random programs and "
                  "re-found by a directed case; it comes back in the random programs when the entry is marked fixed. Non-default "
                  "selectors run without zero counts and without alltoallv on non-power-of-two worlds (online crashes that belong to C29). "
                  "Hooks flavour only (SMPI under ASan reports in the sanitizer's own sigaltstack interceptor).",
    "rule": "case = (platform, hostfile, smpi options, program); non-trivial = the replay logged >= 3 actions that all carry a date "
            "compared with the online run; distinct by program text + platform",
    "assumptions": ["the online run is the reference: it is only required to terminate", "trusted: smpirun script, log layout %r"],
    "ready": True,
}

SMALL = None


def _small():
    global SMALL
    if SMALL is None:
        SMALL = tigen.platform(random.Random(0), "small")[0]
    return SMALL


def mk(np_, lines, cfg=(), hosts=None):
    """A directed case on small_platform.xml; lines = list of events (str = one-line event, list = multi-line event)."""
    names = ["Tremblay", "Jupiter", "Fafard", "Ginette", "Bourassa"]
    return {"np": np_, "hosts": hosts or [names[i % 5] for i in range(np_)], "platform": _small(), "cfg": list(cfg),
            "events": [[l] if isinstance(l, str) else list(l) for l in lines]}


def directed():
    """(name, case) pairs: one or more per supported action kind, boundaries included."""
    D = []
    B = "* barrier"
    for c in (0, 1, 8191, 8192, 8193, 50000):          # 65536 bytes = 8192 doubles: eager / rendez-vous boundary
        D.append(("send-recv-%d" % c, mk(2, [["0 send 1 3 %d 0" % c, "1 recv 0 3 %d 0" % c], ["1 send 0 4 %d 0" % c, "0 recv 1 4 %d 0" % c]])))
    D.append(("isend-irecv-wait", mk(3, [["0 isend 1 7 1000 1 0", "1 irecv 0 7 1000 1 0"], ["0 isend 2 7 70000 6 1", "2 irecv 0 7 70000 6 0"],
                                         "0 wait 1", "0 wait 0", "1 wait 0", "2 wait 0"])))
    D.append(("isend-recv-late", mk(2, [["0 isend 1 1 100000 6 0", "1 sleep 2500"], "1 recv 0 1 100000 6", "0 wait 0"])))
    D.append(("waitall", mk(3, [["0 isend 1 1 10 0 0", "1 irecv 0 1 10 0 0"], ["0 isend 2 2 20000 0 1", "2 irecv 0 2 20000 0 0"],
                                ["2 isend 0 5 3 1 1", "0 irecv 2 5 3 1 2"], "* waitall"])))
    D.append(("waitall-none", mk(2, ["* waitall", B])))
    D.append(("test-fail-then-wait", mk(2, [["0 sleep 10000", "1 irecv 0 9 100 0 0"], "1 test 0", "1 test 0", ["0 send 1 9 100 0"], "1 wait 0"])))
    D.append(("test-success-then-wait", mk(2, [["0 send 1 9 100 0", "1 irecv 0 9 100 0 0"], "1 sleep 100000", "1 test 0", "1 wait 0", B])))
    D.append(("test-isend", mk(2, [["0 isend 1 9 100 0 0", "1 recv 0 9 100 0"], "0 test 0", "0 wait 0"])))
    D.append(("sendrecv-ring", mk(4, [["%d sendrecv 100 %d 0 100 %d 0 0 0" % (r, (r + 1) % 4, (r - 1) % 4) for r in range(4)]])))
    D.append(("sendrecv-tags", mk(3, [["%d sendrecv 9000 %d 5 9000 %d 5 1 1" % (r, (r + 2) % 3, (r - 2) % 3) for r in range(3)]])))
    D.append(("sendrecv-pair-uneven", mk(3, [["0 sendrecv 10 2 0 70000 2 0 6 6", "2 sendrecv 70000 0 0 10 0 0 6 6"], B])))
    D.append(("barrier", mk(5, [B, "3 sleep 1000", B])))
    for root in (0, 2):
        D.append(("bcast-root%d" % root, mk(4, ["* bcast 5000 %d 1" % root, "* bcast 1 %d 0" % root, "* bcast 20000 %d 14" % root])))
        D.append(("reduce-root%d" % root, mk(4, ["* reduce 3000 %d 0" % root, "* reduce 1 %d 1" % root, "* reduce 70000 %d 6" % root])))
        D.append(("gather-root%d" % root, mk(4, ["* gather 50 %d 0" % root, "* gather 9000 %d 6" % root])))
        D.append(("scatter-root%d" % root, mk(4, ["* scatter 50 %d 0" % root, "* scatter 9000 %d 6" % root])))
        D.append(("gatherv-root%d" % root, mk(4, ["* gatherv %d 1 5 0 700 20000" % root])))
        D.append(("scatterv-root%d" % root, mk(4, ["* scatterv %d 1 5 0 700 20000" % root])))
        D.append(("gatherz-root%d" % root, mk(4, ["* gatherz 50 %d 0" % root])))
        D.append(("scatterz-root%d" % root, mk(4, ["* scatterz 50 %d 0" % root])))
    D.append(("allreduce", mk(5, ["* allreduce 100 5", "* allreduce 1 0", "* allreduce 30000 4"])))
    D.append(("alltoall", mk(4, ["* alltoall 20 1", "* alltoall 3000 0"])))
    D.append(("alltoallv", mk(3, [["0 alltoallv 1 1 0 300 1 7 9000", "1 alltoallv 1 7 2 2 0 2 0", "2 alltoallv 1 9000 0 4 300 2 4"]])))
    D.append(("allgather", mk(4, ["* allgather 10 4", "* allgather 5000 6"])))
    D.append(("allgatherv", mk(4, ["* allgatherv 0 5 0 700 3000"])))
    D.append(("reducescatter", mk(4, ["* reducescatter 0 5 0 700 3000", "* reducescatter 1 1 1 1 1"])))
    D.append(("reducescatterblock", mk(3, ["* reducescatterblock 10 0"])))
    D.append(("reducescatterblock-few", mk(4, ["* reducescatterblock 2 1"])))
    D.append(("scan", mk(4, ["* scan 10 1", "* scan 20000 0"])))
    D.append(("exscan", mk(4, ["* exscan 10 1", "* exscan 20000 0"])))
    D.append(("sleep", mk(2, ["0 sleep 2500", "1 sleep 123456", B, "0 sleep 1", "1 sleep 3000000", B])))
    # zero counts: legal MPI, one case per collective
    for nm, ln in [("bcast", "* bcast 0 1 0"), ("reduce", "* reduce 0 1 0"), ("allreduce", "* allreduce 0 0"), ("alltoall", "* alltoall 0 1"),
                   ("gather", "* gather 0 1 0"), ("scatter", "* scatter 0 1 0"), ("allgather", "* allgather 0 1"), ("scan", "* scan 0 1"),
                   ("exscan", "* exscan 0 1"), ("gatherv", "* gatherv 1 0 0 0 0"), ("scatterv", "* scatterv 1 0 0 0 0"),
                   ("allgatherv", "* allgatherv 0 0 0 0"), ("reducescatter", "* reducescatter 0 0 0 0")]:
        D.append(("zero-" + nm, mk(3, [B, ln, ["0 send 1 1 100 0", "1 recv 0 1 100 0"], B])))
    D.append(("zero-alltoallv", mk(3, [["%d alltoallv 1 0 0 0 0 0 0" % r for r in range(3)], B])))
    D.append(("zero-p2p", mk(2, [["0 isend 1 1 0 0 0", "1 irecv 0 1 0 0 0"], "* waitall", ["1 send 0 2 0 6", "0 recv 1 2 0 6"]])))
    # a request completed by MPI_Test needs no MPI_Wait; its (src,dst,tag) may be used again
    D.append(("test-then-reuse-key", mk(2, [["0 send 1 9 100 0", "1 irecv 0 9 100 0 0"], "1 sleep 100000", "1 test 0",
                                            ["0 sleep 50000", "0 send 1 9 100 0", "1 irecv 0 9 100 0 1"], "1 wait 1", B])))
    # same (src,dst,tag) for two pending requests, waited in posting order (the order the replay tool assumes)
    D.append(("same-key-fifo", mk(2, [["0 isend 1 4 100 0 0", "1 irecv 0 4 100 0 0"], ["0 isend 1 4 70000 6 1", "1 irecv 0 4 70000 6 1"],
                                      "0 wait 0", "0 wait 1", "1 wait 0", "1 wait 1"])))
    D.append(("several-ranks-per-host", mk(6, ["* allreduce 1000 0", ["0 send 3 1 70000 6", "3 recv 0 1 70000 6"], "* alltoall 100 0", B],
                                           hosts=["Tremblay", "Tremblay", "Jupiter", "Jupiter", "Jupiter", "Fafard"])))
    for sel in ("mpich", "ompi", "mvapich2", "impi"):
        D.append(("selector-" + sel, mk(5, ["* bcast 20000 1 0", "* reduce 20000 2 0", "* allreduce 20000 0", "* alltoall 2000 0", "* gather 2000 3 0",
                                            "* scatter 2000 3 0", "* allgather 2000 0", "* reducescatter 0 100 0 2000 50 7", "* scan 100 0", B],
                                        cfg=["--cfg=smpi/coll-selector:" + sel])))
    # reductions alone under each selector (the replay gives them MPI_OP_NULL)
    for sel in ("mpich", "ompi", "mvapich2", "impi"):
        for nm, ln in [("reduce", "* reduce 20000 2 0"), ("allreduce", "* allreduce 20000 0"), ("reducescatter", "* reducescatter 0 100 30 2000 50 7"),
                       ("scan", "* scan 100 0")]:
            D.append(("selector-%s-%s" % (sel, nm), mk(5, [ln, B], cfg=["--cfg=smpi/coll-selector:" + sel])))
    # ompi selector, 8 ranks on 5 hosts: the large bcast goes through an algorithm that calls Comm::init_smp()
    D.append(("selector-ompi-large-bcast", mk(8, ["* bcast 27742 1 0", B], cfg=["--cfg=smpi/coll-selector:ompi"],
                                              hosts=["Bourassa", "Bourassa", "Fafard", "Ginette", "Tremblay", "Bourassa", "Jupiter", "Tremblay"])))
    # per-message overheads (smpi/os, smpi/or, smpi/ois as on calibrated platforms): the order in which a collective
    # completes its internal requests becomes visible in the dates
    OV = ["--cfg=smpi/os:0:8.93e-6:7.65e-10;1420:1.1e-5:1.2e-10;65536:0:0", "--cfg=smpi/or:0:8.14e-6:8.9e-10;1420:1.3e-5:1.9e-10;65536:0:0",
          "--cfg=smpi/ois:0:7.7e-6:3.6e-10;1420:2.4e-6:1e-10;65536:0:0"]
    one = ["Tremblay"] * 8
    D.append(("overheads-scan", mk(8, ["* scan 5 1"], cfg=OV, hosts=one)))
    D.append(("overheads-exscan", mk(8, ["* exscan 5 1"], cfg=OV, hosts=one)))
    D.append(("overheads-p2p", mk(3, [["0 isend 1 7 1000 1 0", "1 irecv 0 7 1000 1 0"], ["0 isend 2 7 70000 6 1", "2 irecv 0 7 70000 6 0"],
                                      ["2 isend 0 1 10 0 1", "0 irecv 2 1 10 0 2"], "* waitall", ["1 send 0 2 3000 0", "0 recv 1 2 3000 0"]], cfg=OV)))
    D.append(("overheads-colls", mk(6, ["* bcast 3000 1 0", "* reduce 3000 2 0", "* allreduce 500 0", "* alltoall 200 0", "* gather 300 3 0",
                                        "* scatter 300 3 0", "* allgather 300 0", "* reducescatter 0 100 0 2000 50 7 1", "* gatherv 1 1 5 0 700 3 9 2",
                                        "* scatterv 1 1 5 0 700 3 9 2", "* allgatherv 0 5 0 700 3 1 1", B], cfg=OV, hosts=["Tremblay", "Tremblay", "Jupiter", "Jupiter", "Fafard", "Fafard"])))
    return D


def kind_of(event):
    """Call kinds of an event (its script lines without ranks/arguments), e.g. 'isend+irecv'."""
    ks = []
    for l in event:
        k = l.split()[1]
        if k not in ks:
            ks.append(k)
    return "+".join(ks)


def features(case, events, info):
    """Discriminating features of the culprit event beyond its kind (kept small and stable): zero counts, a wait that
    designates a (src,dst,tag) already used by a request that MPI_Test saw earlier, the signature of an abort."""
    ev = events[-1]
    k = ev[0].split()
    f = []
    if k[1] in ("bcast", "reduce", "gather", "scatter", "gatherz", "scatterz", "allreduce", "alltoall", "allgather", "scan", "exscan", "reducescatterblock"):
        if int(k[2]) == 0:
            f.append("count=0")
    if k[1] in ("gatherv", "scatterv") and all(int(x) == 0 for x in k[4:]):
        f.append("count=0")
    if k[1] in ("allgatherv", "reducescatter", "alltoallv") and all(int(x) == 0 for x in k[3:]):
        f.append("count=0")
    if k[1] in ("wait", "waitall"):
        r = k[0]
        slot, tested, keys = {}, set(), []
        for e in events[:-1]:
            for l in e:
                w = l.split()
                if w[0] != r:
                    continue
                if w[1] == "isend":
                    slot[w[6]] = (int(r), int(w[2]), int(w[3]))
                elif w[1] == "irecv":
                    slot[w[6]] = (int(w[2]), int(r), int(w[3]))
                elif w[1] == "test" and w[2] in slot:
                    tested.add(slot[w[2]])
        if k[1] == "wait" and slot.get(k[2]) in tested:
            f.append("key-tested-before")
    return f


def signature(info):
    """Class of the message of an aborted replay."""
    msg = info.get("msg", "")
    if "double free" in msg or "free(): invalid" in msg or "munmap_chunk" in msg or "corrupted size" in msg:
        return "invalid-free"
    if "MPI_ERR_TRUNCATE" in msg:
        return "err-truncate"
    if "Segmentation" in msg or "SIGSEGV" in msg:
        return "segv"
    if "CHECK_ACTION_PARAMS" in msg or "mandatory" in msg or "Not enough" in msg:
        return "action-params"
    return None


def minimise(ctx, base, case, status, tmo):
    """Smallest prefix of the event list (closed by a waitall on every rank) that still fails the same way.
    Returns (events of that prefix, status, info) or None when the failure does not reproduce on the full closed program."""
    evs = case["events"]

    def bad(n):
        d = tempfile.mkdtemp(prefix="b%d-" % n, dir=base)
        try:
            st, info = tireplay.evaluate(d, case, evs[:n], close=True, timeout=tmo)
        finally:
            shutil.rmtree(d, ignore_errors=True)
        ctx.count("bisect_runs")
        return st, info
    st, info = bad(len(evs))
    if st in ("ok", "watchdog", "online-fail"):
        return None
    lo, hi, best = 1, len(evs), (len(evs), st, info)
    while lo < hi:
        mid = (lo + hi) // 2
        s2, i2 = bad(mid)
        if s2 in ("watchdog", "online-fail"):
            return evs[:best[0]], best[1], best[2]
        if s2 != "ok":
            hi, best = mid, (mid, s2, i2)
        else:
            lo = mid + 1
    if best[0] != lo:
        s2, i2 = bad(lo)
        if s2 not in ("ok", "watchdog", "online-fail"):
            best = (lo, s2, i2)
    return evs[:best[0]], best[1], best[2]


def judge(ctx, base, name, case, tmo=300, bisect=True):
    d = tempfile.mkdtemp(prefix="c-", dir=base)
    try:
        st, info = tireplay.evaluate(d, case, timeout=tmo)
    finally:
        shutil.rmtree(d, ignore_errors=True)
    ctx.evaluation()
    if name.startswith("probe-"):
        # non-deciding observation (see META level_note): recorded in the evidence, never a verdict
        ctx.count("probe.%s.%s" % (name[6:], st))
        if st == "diverge":
            ctx.maximum("probe.%s.abs_date_difference" % name[6:], abs(info["online"] - info["replay"]))
        return st
    if st == "watchdog":
        ctx.inconclusive("smpirun watchdog (%s)" % info["stage"])
        return st
    if st == "online-fail":
        # the online run is the reference of this property; a program that does not run online decides nothing here
        lines = (info["err"] or info["out"]).strip().splitlines()
        crit = next((l.split("] ", 2)[-1] for l in lines if "CRITICAL" in l or "exception" in l), (lines[-1:] or [""])[0])
        ctx.inconclusive("online run failed: rc=%s %s" % (info["rc"], crit[:160]))
        ctx.count("online_failures")
        return st
    if st == "ok":
        s = info["stats"]
        ctx.count("actions_compared", s["dates"])
        ctx.count("dates_bit_identical", s["identical"])
        ctx.count("ranks_completion_dates_compared", case["np"])
        ctx.maximum("worst_abs_date_difference_accepted", s["worst"])
        for ev in case["events"]:
            for l in ev:
                ctx.count("kind." + l.split()[1])
        if info["nact"] >= 3:
            ctx.nontrivial({"p": case["platform"], "h": case["hosts"], "e": case["events"], "c": case["cfg"]})
        ctx.sample({"case": name, "np": case["np"], "hosts": case["hosts"], "cfg": case["cfg"], "actions": info["nact"],
                    "program": [l for e in case["events"] for l in e][:12]})
        return st
    # the replay does not reproduce the online run: find the call kind after which the timelines part
    ctx.count("cases_not_reproduced")
    evs, st2, info2 = case["events"], st, info
    if bisect:
        m = minimise(ctx, base, case, st, tmo)
        if m is not None:
            evs, st2, info2 = m
    culprit = kind_of(evs[-1])
    key = "C37:%s:%s" % (st2, culprit)
    ft = features(case, evs, info2)
    if ft:
        key += ":" + ":".join(ft)
    if evs[-1][0].split()[1] in tigen.COLLS + ["reducescatterblock", "gatherz", "scatterz"]:
        if selector(case["cfg"]):
            key += ":selector=" + selector(case["cfg"])
        if overheads(case["cfg"]):
            key += ":overheads"
    if signature(info2):
        key += ":" + signature(info2)
    det = {k: v for k, v in info2.items() if k != "stats"}
    what = "%s np=%d: replay of the TI trace %s after '%s' (%d-event prefix of a %d-event program): %s" % (
        name, case["np"], st2, " | ".join(evs[-1][:3]), len(evs), len(case["events"]), det)
    w = dict(case)
    w["events"] = evs
    w["closed"] = evs is not case["events"]
    w["name"] = name
    ctx.violation(key, what, w)
    return st2


def run(ctx):
    build.smpicc("mpi/ti_prog.c", "hooks")
    base = tempfile.mkdtemp(prefix="verif-C37-")
    n = ctx.size(36, 900)
    only = os.environ.get("VERIF_C37_ONLY", "")          # development knob: "dir" or "rnd"
    jobs = [(nm, c) for nm, c in directed()] if only != "rnd" else []
    if only != "rnd":
        # usleep(1234567): the TI writer prints `sleep 1.23457` (default stream precision, 6 significant digits)
        jobs.append(("probe-sleep-7-digits", mk(2, ["0 sleep 1234567", "* barrier"])))
    for i in range(n if only != "dir" else 0):
        rng = ctx.sub_rng(i)
        np_ = rng.choice([2, 2, 3, 3, 4, 4, 5, 6, 7, 8, 8, 9, 12])
        xml, hosts = tigen.platform(rng)
        nev = rng.choice([6, 12, 20, 35]) if np_ <= 8 else rng.choice([6, 12])
        # the call kinds listed in known_findings.d/C37.json are kept out of the random programs (their divergence
        # would hide any other one); the directed cases re-find them on every run
        cfg = tigen.config(rng, avoid=AVOID)
        p = tigen.program(rng, np_, nev, exclude=excluded(cfg, np_), avoid=AVOID + (("zero-coll",) if selector(cfg) else ()))
        jobs.append(("rnd%d" % i, {"np": np_, "hosts": tigen.hostfile(rng, hosts, np_), "platform": xml, "cfg": cfg, "events": p.events}))
    try:
        ctx.pmap(lambda j: judge(ctx, base, j[0], j[1]), jobs)
    finally:
        shutil.rmtree(base, ignore_errors=True)


def selector(cfg):
    return next((c.split(":", 1)[1] for c in cfg if "coll-selector" in c), None)


def overheads(cfg):
    return any(c.startswith("--cfg=smpi/os:") or c.startswith("--cfg=smpi/or:") for c in cfg)


def excluded(cfg, np_):
    """Call kinds kept out of a random program under a given configuration."""
    ex = set()
    if selector(cfg) and np_ & (np_ - 1):
        ex.add("alltoallv")          # the ompi selector picks alltoallv/pair, which refuses (online) a non power of two: C29's business
    if "scan-overheads" in AVOID and overheads(cfg):
        ex.update(("scan", "exscan"))
    return ex


# Triggers of the open known findings (known_findings.d/C37.json), kept out of the random programs: see tigen.program/config.
def _avoid():
    """Triggers kept out of the random programs = `avoid` fields of the open entries of known_findings.d/C37.json (so that
    a trigger comes back by itself once its finding is marked fixed). VERIF_C37_AVOID=a,b (or empty) overrides, e.g. to
    explore a tree where the proposed fixes are applied."""
    import json
    if "VERIF_C37_AVOID" in os.environ:
        return tuple(x for x in os.environ["VERIF_C37_AVOID"].split(",") if x)
    try:
        with open(os.path.join(os.path.dirname(__file__), "..", "..", "..", "known_findings.d", "C37.json")) as f:
            return tuple(sorted({e["avoid"] for e in json.load(f)["findings"] if e.get("status") == "open" and e.get("avoid")}))
    except OSError:
        return ()


AVOID = _avoid()


def replay(ctx, w):
    build.smpicc("mpi/ti_prog.c", "hooks")
    base = tempfile.mkdtemp(prefix="verif-C37-")
    try:
        case = {k: w[k] for k in ("np", "hosts", "platform", "cfg", "events")}
        if w.get("closed"):
            case["events"] = case["events"] + [["* waitall"]]
        judge(ctx, base, w.get("name", "replay"), case, bisect=w.get("closed", False))
    finally:
        shutil.rmtree(base, ignore_errors=True)
