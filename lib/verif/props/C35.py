"""C35 Private parts of partially shared buffers are transferred exactly."""
import os
import shutil
import tempfile

from verif import build, proc
from verif.gen import mpi
from verif.gen import pshared as G
from verif.oracles import pshared as O

META = {
    "id": "C35", "engine": "E5 smpi programs", "engine_path": "harness/mpi/pshared.c",
    "engine_kind": "MPI C program run under the real smpirun/SMPI; it dumps a byte classification of both buffers, Python decides",
    "level": "exploration",
    "technique": "interval reference model (private(S) shifted onto private(R) within the message) against a run-length dump of every "
                 "byte of the receive and send buffers after each generated transfer",
    "level_text": "Generated SMPI_PARTIAL_SHARED_MALLOC layouts (sizes that are not page/block multiples, 1-6 shared regions on page and "
                  "block boundaries +-1, one-byte regions and one-byte private gaps, region at offset 0 / up to the end, plain malloc on "
                  "one side), different layouts on the two sides, messages at arbitrary (offset, length) of both buffers (starting or "
                  "ending inside a shared or a private region, on a boundary, across several private regions, longer receive count), "
                  "8 send modes x 6 receive modes, both posting orders, self messages, message sizes around "
                  "smpi/send-is-detached-thresh and smpi/async-small-thresh (7 threshold pairs), smpi/shared-malloc-blocksize "
                  "4 KiB-1 MiB. After each transfer EVERY private byte of the receive buffer is classified (sent byte / untouched / "
                  "other) and compared with the reference: bytes private on both sides must hold the sent byte, private bytes outside "
                  "the message must be untouched, private bytes of the send buffer must be unchanged, nothing may crash.",
    "level_note": "Shared bytes are never judged. Contiguous MPI_BYTE messages only (derived datatypes go through a private "
                  "serialisation buffer in SMPI, a different code path the statement does not name); collectives are not judged: the "
                  "statement speaks of messages sent from / received into such a buffer, and SMPI collectives stage data through "
                  "internal temporaries. Hooks flavour only (SMPI under ASan reports inside the sanitizer's sigaltstack interceptor). "
                  "smpi/shared-malloc:global (default) and 'local'; under 'local' buffers are not freed (SMPI_SHARED_FREE of a "
                  "partial allocation under 'local' is outside this statement).",
    "rule": "case = (send layout, receive layout, message offsets/lengths, send mode, receive mode, posting order) under one "
            "(thresholds, blocksize) configuration; non-trivial = at least one side partially shared and at least one byte private on "
            "both sides inside the message; distinct by the full case description",
    "assumptions": ["SMPI_PARTIAL_SHARED_MALLOC is called within its asserted contract: >=1 shared region, start<stop<=size, "
                    "stop<next start (adjacent regions are rejected by an xbt_assert, so they are not generated)"],
    "ready": True,
}

# Directed cases: always run.  D1-D3 are minimal witnesses of the block-begins-before-the-message defect.
P = 4096
DIRECTED = [
    # doc example layout (500 bytes, shared 27-42 and 100-200), whole buffer at offset 0: the only shape upstream tests
    dict(ssize=500, sshared=[(27, 42), (100, 200)], rsize=500, rshared=[(27, 42), (100, 200)], soff=0, roff=0, slen=500, rlen=500,
         smode="send", rmode="recv", order=0),
    # D1: same layout both sides, message starts 10 bytes inside the first private block [0,27): receiver side drops it
    dict(ssize=500, sshared=[(27, 42), (100, 200)], rsize=500, rshared=[(27, 42), (100, 200)], soff=10, roff=10, slen=400, rlen=400,
         smode="send", rmode="recv", order=0),
    # D2: plain malloc sender, receive into the middle of a private block
    dict(ssize=300, sshared=None, rsize=3 * P, rshared=[(P, 2 * P)], soff=0, roff=100, slen=200, rlen=200,
         smode="isend", rmode="irecv", order=1),
    # D3: non-detached (synchronous) send from the middle of a private block into a plain malloc buffer
    dict(ssize=3 * P, sshared=[(P, 2 * P)], rsize=300, rshared=None, soff=100, roff=0, slen=200, rlen=200,
         smode="ssend", rmode="recv", order=0),
    # D4: 500-byte buffers whose last shared region runs to the end of the buffer (whole message at offset 0)
    dict(ssize=500, sshared=[(27, 42), (100, 500)], rsize=500, rshared=[(27, 42), (100, 500)], soff=0, roff=0, slen=500, rlen=500,
         smode="send", rmode="recv", order=0),
    # message begins inside a shared region on both sides (what upstream's "shifted" test does): private blocks all begin after it
    dict(ssize=4 * P, sshared=[(0, P), (2 * P, 3 * P)], rsize=4 * P, rshared=[(0, P), (2 * P, 3 * P)], soff=100, roff=100,
         slen=3 * P, rlen=3 * P, smode="ssend", rmode="recv", order=0),
    # message starting exactly on a private block's first byte, ending exactly on its last
    dict(ssize=4 * P, sshared=[(0, P), (2 * P, 3 * P)], rsize=5 * P, rshared=[(0, 2 * P), (3 * P, 4 * P)], soff=P, roff=2 * P,
         slen=P, rlen=P, smode="issend", rmode="recv_init", order=2),
    # different layouts, detached (small) send, receive count larger than the message
    dict(ssize=2 * P + 7, sshared=[(1, 2), (P - 1, P + 1)], rsize=3 * P - 1, rshared=[(0, 3), (P, 2 * P + 5)], soff=0, roff=0,
         slen=2 * P + 7, rlen=3 * P - 1, smode="send", rmode="probe_recv", order=2),
]


MAX_RUNS = 4000    # LINE_MAX_RUNS of harness/mpi/pshared.c


def config_of(rng, i):
    thr = G.THRESHOLDS[i % len(G.THRESHOLDS)] if i % 3 else rng.choice(G.THRESHOLDS)
    B = rng.choice([4096, 4096, 8192, 8192, 65536, 1 << 20])
    mode = "local" if rng.random() < 0.1 else "global"
    return {"thr": list(thr), "B": B, "shm": mode, "np": rng.choice([2, 2, 3, 4])}


def cfg_args(conf):
    return ["--cfg=smpi/send-is-detached-thresh:%d" % conf["thr"][0], "--cfg=smpi/async-small-thresh:%d" % conf["thr"][1],
            "--cfg=smpi/shared-malloc-blocksize:%d" % conf["B"], "--cfg=smpi/shared-malloc:%s" % conf["shm"]]


def norm_case(c):
    c = dict(c)
    for k in ("sshared", "rshared"):
        if c[k] is not None:
            c[k] = [tuple(x) for x in c[k]]
    return c


def execute(ctx, exe, tmpd, tag, conf, cases, timeout=600):
    """Run one smpirun over `cases`; judge every case.  -> number of cases fully observed."""
    cases = [norm_case(c) for c in cases]
    path = os.path.join(tmpd, "scn-%s.txt" % tag)
    with open(path, "w") as f:
        f.write(G.scenario_text(cases))
    exe_args = [path]
    if conf["shm"] == "local":
        exe_args.append("nofree")
    res = mpi.smpirun(exe, conf["np"], exe_args, timeout=timeout, cfg=cfg_args(conf))
    os.unlink(path)
    if res.timed_out:
        ctx.inconclusive("smpirun watchdog", {"conf": conf})
        return 0
    rl, sl, crash = {}, {}, None
    for l in res.out.splitlines():
        if l.startswith("R "):
            cid, cls, nr = O.parse_rle(l)
            rl[cid] = (cls, nr)
        elif l.startswith("S "):
            cid, cls, nr = O.parse_rle(l)
            sl[cid] = (cls, nr)
        elif l.startswith("CRASH"):
            crash = l
        elif l.startswith("HARNESS"):
            raise RuntimeError("pshared harness: " + l)
    seen = 0
    for c in cases:
        w = {"conf": conf, "case": c}
        if c["id"] not in rl or c["id"] not in sl:
            if crash and "case=%d " % c["id"] in crash:
                op = crash.split("op=")[1].split()[0]
                sig = crash.split("sig=")[1].split()[0]
                ctx.violation("C35:crash:%s:sig%s" % (op, sig), "%s | %s | %s" % (crash, G.describe(c), res.err.strip()[-300:]), w)
            elif not crash:
                ctx.violation("C35:abort", "smpirun rc=%s, no dump for case %d (%s): %s" % (res.rc, c["id"], G.describe(c),
                                                                                        res.err.strip()[-300:]), w)
            break
        ctx.evaluation()
        seen += 1
        (rcls, rn), (scls, sn) = rl[c["id"]], sl[c["id"]]
        st = os.environ.get("VERIF_C35_SELFTEST")
        if st and c["id"] == 1000 and tag == "dir0":
            # oracle self-test (FRAMEWORK.md): corrupt the observation of the clean directed case
            rcls = {k: list(v) for k, v in rcls.items()}
            a, b = rcls["S"][0]
            if st == "drop":        # one byte of the message not delivered (still the receiver's old content)
                rcls["S"][0] = (a + 1, b)
                rcls["G"] = O.norm(rcls.get("G", []) + [(a, a + 1)])
            elif st == "garble":    # one delivered byte has a wrong value
                rcls["S"][0] = (a, b - 1)
                rcls["X"] = [(b - 1, b)]
            elif st == "src":       # the sender's private byte 0 was modified
                scls = {k: list(v) for k, v in scls.items()}
                a, b = scls["O"][0]
                scls["O"][0] = (a + 1, b)
        rcover = O.covered(rcls) if rn > MAX_RUNS else None     # dump truncated by the harness: judge the described prefix only
        scover = O.covered(scls) if sn > MAX_RUNS else None
        verdicts, ncopy, nkeep = O.judge(c, rcls, scls, rcover, scover)
        if (rcover is not None or scover is not None) and not verdicts:
            ctx.inconclusive("dump truncated without a violation in the described prefix", w)
        ctx.count("bytes.must_be_copied", ncopy)
        ctx.count("bytes.must_be_kept", nkeep)
        ctx.count("bytes.seen_copied", O.total(O.inter(O.required(c)[0], rcls.get("S", []))))
        ctx.count("mode.%s/%s" % (c["smode"], c["rmode"]))
        if c["slen"] < conf["thr"][0] and c["smode"] not in ("ssend", "issend"):
            ctx.count("sends.detached")
        else:
            ctx.count("sends.direct")
        partial = c["sshared"] is not None or c["rshared"] is not None
        if partial and ncopy > 0:
            ctx.nontrivial(G.describe(c))
            if c["soff"] or c["roff"]:
                ctx.count("cases.nonzero_offset")
        for rule, feat, text in verdicts:
            ctx.violation("C35:%s:%s" % (rule, feat), "%s | %s | thresholds=%s blocksize=%d shared-malloc=%s" %
                          (text, G.describe(c), conf["thr"], conf["B"], conf["shm"]), w)
        if not verdicts and partial and ncopy > 0:
            ctx.sample({"case": G.describe(c), "copied": ncopy, "kept": nkeep})
    return seen


def run(ctx):
    exe = build.smpicc("mpi/pshared.c", "hooks")
    nruns = ctx.size(40, 6000)
    per = 14
    tmpd = tempfile.mkdtemp(prefix="verif-C35-")
    try:
        # directed cases under the default configuration and under a never-detached one
        for k, thr in enumerate([(65536, 0), (0, 0)]):
            conf = {"thr": list(thr), "B": 4096, "shm": "global", "np": 2}
            cases = [dict(c, id=1000 + i, src=0, dst=1) for i, c in enumerate(DIRECTED)]
            execute(ctx, exe, tmpd, "dir%d" % k, conf, cases)

        def one(i):
            rng = ctx.sub_rng(i)
            conf = config_of(rng, i)
            big = rng.random() < (0.5 if conf["B"] < (1 << 20) else 1.0)
            cases = [G.gen_case(rng, i * 100 + j, conf["np"], conf["B"], conf["thr"], allow_big=big) for j in range(per)]
            execute(ctx, exe, tmpd, str(i), conf, cases)
        ctx.pmap(one, range(nruns))
    finally:
        mpi.cleanup()
        shutil.rmtree(tmpd, ignore_errors=True)


def replay(ctx, w):
    exe = build.smpicc("mpi/pshared.c", "hooks")
    tmpd = tempfile.mkdtemp(prefix="verif-C35-")
    try:
        c = dict(w["case"])
        execute(ctx, exe, tmpd, "replay", w["conf"], [c])
    finally:
        mpi.cleanup()
        shutil.rmtree(tmpd, ignore_errors=True)
