"""C09 Message queues are exactly-once and FIFO (S4U leg)."""
from verif import mbq_common as M
from verif.gen import mbq as G

META = {
    "id": "C09", "engine": "E1 s4u harness (mailbox / message-queue scripts)", "engine_path": "harness/mbq.cpp",
    "engine_kind": "S4U program executing batches of generated per-actor communication scripts on the real kernel; python queue model "
                   "replayed over the recorded call/return history",
    "level": "exploration",
    "technique": "boundary-recorded history of every MessageQueue put/get/wait/test/cancel with unique message ids, replayed in request "
                 "order through a FIFO x FIFO matching model; payload registry and scribble check of consumed result slots",
    "level_text": "2-6 actors run generated scripts on 1-3 message queues: put, put_async, put_init+detach, get, get_async (slot or "
                  "get_payload()), get with timeout, wait / wait_for / wait_for+cancel / test / ActivitySet::wait_any_for / cancel on the "
                  "handles, sleeps of 0/1/10/.. us and yields so that requests collide at the same date and in the same scheduling round, "
                  "several gets pending on one queue and several puts pending on one queue. Every payload carries a unique id (sender, "
                  "counter) and a checksum; every payload pointer received is looked up in the registry of the payloads sent. Calls are logged "
                  "before the call and after the return; the kernel is sequential, so the order of the call lines is the order in which it "
                  "handled the requests. The model (per queue: pending puts and pending gets, both FIFO; a cancelled get or a get whose "
                  "timeout was reported to the caller is over) is replayed over the log and every reception that returns is compared with "
                  "it: payload of a put that was issued on that queue, never delivered before, and exactly the put the model matched "
                  "(puts in issue order to gets in issue order); nothing may be written again into the result slot of a reception after the "
                  "receiver consumed it (slots are scribbled and re-read at the end of the run); a run that ends with a get still blocked although a put was pending for it is a lost message. "
                  "Both the plain and the ASan+UBSan builds are driven.",
    "level_note": "S4U API, one schedule per program. While the known finding C09:payload-rewritten-after-delivery is open, scenarios in "
                  "which senders keep put handles use the body of MessageQueue::get<T>() with the result slot on the heap instead of "
                  "get<T>() itself (whose slot is a local variable: the defect would write into dead stack frames and make everything "
                  "after it meaningless); get<T>() itself is driven in the scenarios whose puts are all detached. get<T>(timeout) is driven "
                  "through the real API in batches of its own (while its known findings are open, everything that follows a timeout in "
                  "such a run is keyed ':after-timeout'). MessageQueue::put(payload, timeout) is not generated (the statement does not say whether a "
                  "timed-out put stays deliverable). A put arriving in the scheduling round in which a get(timeout) expires stops the replay "
                  "without verdict. Trusted base: the harness (payload registry, log order) and the python model.",
    "rule": "case = one scenario (per-actor scripts on 1-3 queues) on the platform of its batch; non-trivial = distinct scenarios whose "
            "history was replayed to the end with >=1 checked delivery and >=1 match that had to choose among >=2 pending opposite requests",
    "assumptions": ["the order of the logged call lines is the order in which maestro handled the simcalls (sequential kernel, "
                    "contexts/nthreads:1)"],
    "ready": True,
}

PLAT = {"nh": 3, "links": [[1e7, 1e-4]]}


def _d(name, scripts, nq=1):
    return {"family": "directed:" + name, "plat": PLAT, "mb": "", "nq": nq, "scripts": scripts}


# minimal witnesses of the open known findings, one process each
FINDINGS = [
    # payload written again by the sender's late wait() (MessImpl::finish() copies at every call)
    _d("rewritten-by-sender-wait", [["qputa:0", "sleep:1000", "wait:0"], ["qgets:0", "sleep:5000"]]),
    # MessageQueue::get(timeout): the timed-out get stays in the queue and swallows the next put, whose payload is written through a
    # pointer to a local variable of a call that returned long ago (real API: what happens next is whatever a write into a dead
    # stack frame gives; on this tree the process dies)
    _d("timed-out-get-swallows:lost", [["sleep:1500", "qputd:0"], ["qgett:0:1000", "sleep:2000", "qget:0"]]),
    _d("timed-out-get-swallows:same-sender", [["sleep:1500", "qputd:0", "sleep:2000", "qputd:0"], ["qgett:0:1000", "sleep:2000", "qget:0"]]),
    # MessImpl::wait_for registers the simcall twice: after a timeout the leftover wakes the actor up in an unrelated later simcall
    _d("spurious-wakeup-after-wait_for-timeout", [["sleep:2000", "qputd:0"], ["qgeta:0", "waitk:0:1000", "qgets:1", "sleep:10"]], nq=2),
    # Mess::wait_for() on a get that was not started does not wait
    _d("wait-on-unstarted-get", [["sleep:1000", "qputa:0"], ["qgetw:0", "sleep:5000"]]),
]
SANITY = [
    _d("fifo-detached", [["qputd:0", "qputd:0", "qputd:0", "sleep:10", "qputd:0"], ["sleep:1", "qget:0", "qgeta:0", "qgetp:0", "wany", "wany"],
                         ["qgeta:0", "wait:0"]]),
    _d("gets-first", [["sleep:100", "qputd:0", "qputd:0", "qputd:0"], ["qgeta:0", "qgetp:0", "wait:1", "wait:0"], ["sleep:1", "qget:0"]]),
    _d("cancelled-get-is-over", [["sleep:100", "qputd:0"], ["qgeta:0", "cancel:0", "sleep:1000"], ["sleep:10", "qget:0"]]),
    _d("two-queues", [["qputd:1", "qputd:0", "qputd:1"], ["qget:0", "qget:1", "qget:1"]], nq=2),
]


def _on_result(ctx):
    def f(sc, r, fl):
        fam = sc.get("family", "?").split(":")[0]
        ctx.count("scenarios.%s.%s" % (fl, fam))
        for k, v in r.counters.items():
            ctx.count(k, v)
        if r.stopped and not r.violations:
            ctx.count("replays_stopped_without_verdict")
            ctx.count("replays_stopped: " + r.stopped[:60])
        elif not r.stopped and r.deliveries >= 1 and r.choice >= 1:
            ctx.nontrivial(sc)
    return f


def run(ctx):
    n = ctx.size(quick=700, thorough=40000)
    bs = 25
    for fl in ("hooks", "asan"):
        M.exe(fl)
    jobs = []
    for d in FINDINGS:
        jobs.append(("hooks", PLAT, [d]))
        jobs.append(("asan", PLAT, [d]))
    jobs.append(("hooks", PLAT, SANITY))
    jobs.append(("asan", PLAT, SANITY))
    nb = (n + bs - 1) // bs
    for b in range(nb):
        plat = G.platform(ctx.sub_rng("plat", b))
        scs = [G.gen_c09(ctx.sub_rng("sc", b, i), plat) for i in range(bs)]
        if b == 0:
            ctx.sample({"plat": plat, "scenario": scs[0]})
            ctx.sample({"plat": plat, "scenario": scs[1]})
        jobs.append(("hooks", plat, scs))
        if b % 3 == 0:
            jobs.append(("asan", plat, scs))
    # the timeout family apart, in small batches (a crash costs the re-run of the rest of the batch)
    for b in range(max(1, nb // 3)):
        plat = G.platform(ctx.sub_rng("tplat", b))
        scs = [G.gen_c09(ctx.sub_rng("tsc", b, i), plat, timeouts=True) for i in range(5)]
        jobs.append(("hooks", plat, scs))
        if b % 3 == 0:
            jobs.append(("asan", plat, scs))
    ctx.sample({"plat": PLAT, "scenario": FINDINGS[0]})
    cb = _on_result(ctx)

    def one(j):
        fl, plat, scs = j
        M.check_batch(ctx, "C09", fl, plat, scs, cb)
    ctx.pmap(one, jobs)


def replay(ctx, w):
    M.replay_witness(ctx, "C09", w)
