"""C04 Mutex semantics: exclusion, FIFO hand-off, ownership, recursion (S4U leg)."""
from verif import build, proc

META = {
    "id": "C04", "engine": "E1 s4u harness (mutex scripts)", "engine_path": "harness/mutex.cpp",
    "engine_kind": "S4U program executing generated per-actor scripts on the real kernel, python sequential model over the recorded history",
    "level": "exploration",
    "technique": "boundary-recorded call/return history of lock/try_lock/unlock checked against a sequential mutex model (owner, depth, FIFO queue) replayed in request order",
    "level_text": "2-6 actors run generated scripts (lock, try_lock, unlock, sleeps of 0/1/2 ms so that requests collide in the same "
                  "scheduling round and at the same date, yields) on one plain or recursive mutex. Calls are logged before the call and "
                  "after the return. SimGrid's kernel is sequential, so the log order of the requests is the order in which the kernel "
                  "handled them; the model replays them: a lock on a free mutex (or re-lock by the owner of a recursive one) is granted, "
                  "otherwise queued FIFO; unlock by the owner decrements the depth and at 0 hands over to the queue head; try_lock must "
                  "answer exactly 'free, or recursive and mine'. Every return line is checked: a lock may return only to the model's owner "
                  "(exclusion + FIFO hand-off), try_lock's answer must equal the model's, depth n needs n unlocks. Runs that end with an actor "
                  "still blocked although the model granted it the mutex are violations (lost hand-off).",
    "level_note": "S4U API only: the model-checker (all interleavings) and pthread/sthread legs of the design are not built. Unlock by a "
                  "non-owner is outside the API contract (asserts) and is not generated. One mutex per scenario.",
    "rule": "case = one scenario (recursive flag + per-actor scripts); non-trivial = distinct scenarios in which >=1 lock request had to wait "
            "(contention) or a recursive depth >=2 was reached, and whose history was fully checked",
    "ready": True,
}

PLATFORM = "/repo/examples/platforms/small_platform.xml"


def gen(rng):
    rec = rng.random() < 0.5
    na = rng.randint(2, 6)
    scripts = []
    for a in range(na):
        ops = []
        for _ in range(rng.randint(3, 14)):
            r = rng.random()
            if r < 0.30:
                ops.append("L")
            elif r < 0.50:
                ops.append("T")
            elif r < 0.75:
                ops.append("U")
            elif r < 0.93:
                ops.append("S%d" % rng.choice([0, 1, 1, 2]))
            else:
                ops.append("Y")
        scripts.append(ops)
    return {"recursive": int(rec), "scripts": scripts}


def check(ctx, sc, out, w):
    rec = sc["recursive"]
    owner, depth, queue = None, 0, []      # queue of [actor, pending_depth]
    waiting = {}                           # actor -> True while a lock() has not returned
    contention = deep = False
    done = set()
    lines = out.splitlines()
    ended = any(l.startswith("END") for l in lines)
    expect_try = {}
    for ln, l in enumerate(lines):
        t = l.split()
        if not t or t[0] not in "QAD":
            continue
        a = int(t[1])
        if t[0] == "D":
            done.add(a)
        elif t[0] == "Q":
            op = t[2]
            if op == "L":
                waiting[a] = True
                if owner is None:
                    owner, depth = a, 1
                elif owner == a and rec:
                    depth += 1
                    deep = deep or depth >= 2
                else:
                    contention = True
                    queue.append(a)
            elif op == "T":
                if owner is None:
                    owner, depth = a, 1
                    expect_try[a] = 1
                elif owner == a and rec:
                    depth += 1
                    deep = deep or depth >= 2
                    expect_try[a] = 1
                else:
                    expect_try[a] = 0
            elif op == "U":
                if owner != a:
                    # the actor only unlocks what the API told it it holds: the API and the model disagree on ownership
                    ctx.violation("C04:ownership:%s" % ("recursive" if rec else "plain"), "line %d: actor %d unlocks (the API let it believe it holds the mutex) "
                                  "but the sequential model says the owner is %r; history so far: %r" % (ln, a, owner, lines[max(0, ln - 12):ln + 1]), w)
                    return False
                depth -= 1
                if depth == 0:
                    if queue:
                        owner, depth = queue.pop(0), 1
                    else:
                        owner = None
        else:
            op, resv = t[2], int(t[3])
            if op == "L":
                waiting.pop(a, None)
                if owner != a:
                    kind = "exclusion" if owner is not None and a not in queue else "fifo"
                    ctx.violation("C04:%s:%s" % (kind, "recursive" if rec else "plain"), "line %d: lock() returned to actor %d while the model's owner is %r "
                                  "(queue %r); history so far: %r" % (ln, a, owner, queue, lines[max(0, ln - 12):ln + 1]), w)
                    return False
            elif op == "T":
                if resv != expect_try.get(a):
                    ctx.violation("C04:try_lock:%s" % ("recursive" if rec else "plain"), "line %d: try_lock of actor %d answered %d, model says %r (owner %r depth %d)"
                                  % (ln, a, resv, expect_try.get(a), owner, depth), w)
                    return False
                ctx.count("try_lock.%s" % ("success" if resv else "refused"))
    na = len(sc["scripts"])
    if len(done) != na or not ended:
        blocked = sorted(set(range(na)) - done)
        granted = [a for a in blocked if owner == a]
        if granted:
            ctx.violation("C04:lost-handoff:%s" % ("recursive" if rec else "plain"), "actors %r never finished although the model granted the mutex to %r" % (blocked, granted), w)
            return False
        ctx.violation("C04:stuck:%s" % ("recursive" if rec else "plain"), "actors %r never finished (model owner %r, queue %r); tail: %r" % (blocked, owner, queue, lines[-8:]), w)
        return False
    if owner is not None:
        ctx.violation("C04:held-at-end", "every actor released what the API granted, yet the model still has owner %r depth %d" % (owner, depth), w)
        return False
    if contention:
        ctx.count("scenarios_with_contention")
    if deep:
        ctx.count("scenarios_with_recursion_depth>=2")
    return contention or deep


def run_one(fl, sc):
    exe = build.harness("mutex.cpp", fl)
    inp = "%d\n" % sc["recursive"] + "\n".join(" ".join(s) for s in sc["scripts"]) + "\n"
    return proc.run([exe, PLATFORM, "--log=root.thres:critical"], stdin=inp, timeout=60)


DIRECTED = [
    {"recursive": 1, "scripts": [["T", "L", "U", "S1", "U"], ["S0", "T", "U"]]},
    {"recursive": 1, "scripts": [["L", "L", "T", "U", "S1", "U", "U"], ["L", "U"], ["T", "S2", "L", "U"]]},
    {"recursive": 0, "scripts": [["L", "S1", "U"], ["L", "U"], ["L", "U"], ["T", "S1", "T"]]},
]


def run(ctx):
    n = ctx.size(150, 10000)
    scs = DIRECTED + [gen(ctx.sub_rng(i)) for i in range(n)]
    ctx.sample(DIRECTED[0])
    ctx.sample(scs[len(DIRECTED)])
    for fl in ("hooks", "asan"):
        build.harness("mutex.cpp", fl)
    jobs = [("hooks", s) for s in scs] + [("asan", s) for s in scs[: max(10, n // 10)]]

    def one(j):
        fl, sc = j
        res = run_one(fl, sc)
        ctx.evaluation()
        w = {"flavour": fl, "scenario": sc}
        if res.timed_out:
            ctx.inconclusive("mutex harness watchdog")
            return
        reps = proc.sanitizer_reports(res.err)
        if res.rc != 0 and "you're not the owner" in res.err:
            # the actor only unlocks what the API told it it holds, yet the kernel says it is not the owner
            ctx.violation("C04:ownership:%s" % ("recursive" if sc["recursive"] else "plain"), "the kernel aborted an unlock() by an actor that holds the mutex according to "
                          "the answers it got (history tail %r): %s" % (res.out.splitlines()[-8:], res.err.splitlines()[0][:200]), w)
            return
        if res.rc not in (0,) and (reps or res.rc < 0 or res.rc in (86, 87, 134, 139)):
            ctx.violation("C04:crash:%s" % ("recursive" if sc["recursive"] else "plain"), "mutex harness died rc=%s: %s" % (res.rc, reps[:1] or res.err[-300:]), w)
            return
        if check(ctx, sc, res.out, w):
            ctx.nontrivial(sc)
    ctx.pmap(one, jobs)


def replay(ctx, w):
    res = run_one(w["flavour"], w["scenario"])
    ctx.evaluation()
    print(res.out)
    check(ctx, w["scenario"], res.out, w)
