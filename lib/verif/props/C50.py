"""C50 Legacy xbt containers behave like their models.

Monitor: generated operation scripts are executed on the real xbt_dynar / xbt_dict (plain and ASan+UBSan builds); every
returned value, length, full dump and the number of element destructions is compared with Python list / dict models.
"""
from verif import build, proc

META = {
    "id": "C50", "engine": "E4 unit harness", "engine_path": "harness/xcont.cpp",
    "engine_kind": "C++ drivers linked to the real libsimgrid, python reference models",
    "level": "exploration",
    "technique": "model-based differential (Python list/dict) on generated operation scripts, under ASan+UBSan",
    "level_text": "Random scripts mixing push/pop/shift/unshift/insert_at/remove_at/get/set(with zero-filled growth)/member/sort/reset/"
                  "foreach on a dynar and set(insert+overwrite)/get/remove/length/cursor iteration/free on a dict with few colliding and "
                  "many distinct keys (forcing several table resizes); each result must equal the model's, dict iteration must yield "
                  "each live key exactly once and every replaced/removed/freed value must be destroyed exactly once. ASan watches the "
                  "resize/memmove paths for out-of-bounds and use-after-free.",
    "level_note": "Preconditions of the C API (index in range, key present for remove, non-empty for pop/shift) are respected by the generator; "
                  "behaviour outside them is not judged.",
    "rule": "case = one script (container, ~60-400 ops); non-trivial = distinct scripts that contain >=1 structural change after a growth "
            "(dynar: insert/remove in the middle; dict: overwrite or remove) and were fully compared",
    "ready": True,
}


def gen_dynar(rng, nops):
    ops, model, exp = ["dn"], [], ["ok"]
    mid = False
    for _ in range(nops):
        r = rng.random()
        n = len(model)
        if r < 0.22 or n == 0:
            v = rng.randint(-5, 50)
            ops.append("dp %d" % v); model.append(v); exp.append("ok")
        elif r < 0.30:
            ops.append("dP"); exp.append(str(model.pop()))
        elif r < 0.36:
            v = rng.randint(-5, 50)
            ops.append("du %d" % v); model.insert(0, v); exp.append("ok")
        elif r < 0.42:
            ops.append("ds"); exp.append(str(model.pop(0)))
        elif r < 0.54:
            i, v = rng.randint(0, n), rng.randint(-5, 50)
            ops.append("di %d %d" % (i, v)); model.insert(i, v); exp.append("ok"); mid = mid or 0 < i < n
        elif r < 0.64:
            i = rng.randrange(n)
            ops.append("dr %d" % i); exp.append(str(model.pop(i))); mid = mid or 0 < i < n - 1
        elif r < 0.72:
            i = rng.randrange(n)
            ops.append("dg %d" % i); exp.append(str(model[i]))
        elif r < 0.78:
            i = rng.randint(0, n + 5) if rng.random() < 0.3 else rng.randrange(n)
            v = rng.randint(-5, 50)
            ops.append("dS %d %d" % (i, v))
            while len(model) <= i:
                model.append(0)
            model[i] = v
            exp.append("ok")
        elif r < 0.83:
            v = rng.randint(-5, 50)
            ops.append("dm %d" % v); exp.append("1" if v in model else "0")
        elif r < 0.87:
            ops.append("do"); model.sort(); exp.append("ok")
        elif r < 0.89:
            ops.append("dR"); model.clear(); exp.append("ok")
        elif r < 0.95:
            ops.append("dl"); exp.append("%d %d" % (len(model), 1 if not model else 0))
        else:
            ops.append("dd"); exp.append("[" + "".join(" %d" % v for v in model) + " ]")
    ops.append("dd"); exp.append("[" + "".join(" %d" % v for v in model) + " ]")
    return ops, exp, mid


def gen_dict(rng, nops):
    ops, model, exp = ["Dn"], {}, ["ok"]
    freed = 0
    keyspace = ["k%d" % i for i in range(rng.choice([4, 30, 600]))] + ["a", "b", "ab", "ba", "aa", "x" * 40, "Z"]
    change = False
    for _ in range(nops):
        r = rng.random()
        if r < 0.45 or not model:
            k, v = rng.choice(keyspace), rng.randint(0, 10**6)
            if k in model:
                freed += 1
                change = True
            model[k] = v
            ops.append("Ds %s %d" % (k, v)); exp.append("ok")
        elif r < 0.65:
            k = rng.choice(keyspace)
            ops.append("Dg %s" % k); exp.append(str(model[k]) if k in model else "null")
        elif r < 0.82:
            k = rng.choice(sorted(model))
            del model[k]
            freed += 1
            change = True
            ops.append("Dr %s" % k); exp.append("ok")
        elif r < 0.92:
            ops.append("Dl"); exp.append("%d %d %d" % (len(model), 1 if not model else 0, freed))
        else:
            ops.append("Dd"); exp.append(("set", dict(model)))
    ops.append("Dd"); exp.append(("set", dict(model)))
    freed += len(model)
    ops.append("Df"); exp.append(str(freed))
    return ops, exp, change


def compare(ctx, fl, s, lines):
    kind, ops, exp, nt, sid = s
    for i, (l, e) in enumerate(zip(lines, exp)):
        ok = True
        if isinstance(e, tuple):
            toks = l.strip("{} ").split()
            got = {}
            for t in toks:
                k, v = t.split("=")
                if k in got:
                    ok = False
                got[k] = int(v)
            ok = ok and got == e[1]
        else:
            ok = l.strip() == e
        if not ok:
            ctx.violation("C50:mismatch:%s:%s" % (kind, ops[i].split()[0]), "%s op #%d %r returned %r, model says %r" % (kind, i, ops[i], l, e),
                          {"flavour": fl, "kind": kind, "ops": ops[:i + 1]})
            return
    ctx.count("ops.%s" % kind, len(ops))
    if nt:
        ctx.nontrivial(sid)


def run_batch(ctx, fl, scripts, chunk=12):
    """Scripts are executed `chunk` per process (sanitizer start-up dominates otherwise); a chunk that dies is re-run script
    by script so that the failing one is identified. 'Df' resets the destruction counter base, handled by rebasing in-model."""
    exe = build.harness("xcont.cpp", fl)

    def single(s):
        kind, ops, exp, nt, sid = s
        res = proc.run([exe], stdin="\n".join(ops) + "\n", timeout=120)
        if res.timed_out:
            ctx.inconclusive("xcont watchdog")
            return
        lines = res.out.splitlines()
        if res.rc != 0 or len(lines) != len(exp):
            idx = min(len(lines), len(ops) - 1)
            ctx.violation("C50:crash:%s:%s" % (kind, ops[idx].split()[0]), "%s script died rc=%s at op #%d %r: %s"
                          % (kind, res.rc, idx, ops[idx], proc.sanitizer_reports(res.err)[:1] or res.err[-300:]), {"flavour": fl, "kind": kind, "ops": ops[:idx + 1]})
            return
        compare(ctx, fl, s, lines)

    def one(group):
        for s in group:
            ctx.evaluation()
        # the destruction counter is cumulative inside one process: run dict scripts of a group in separate processes from
        # each other only when the group run fails; inside a group it is rebased with the expected totals.
        inp, base = [], 0
        exps = []
        for kind, ops, exp, nt, sid in group:
            inp += ops
            if kind == "dict":
                e2 = []
                for op, e in zip(ops, exp):
                    if op == "Dl":
                        a, b, c = e.split()
                        e = "%s %s %d" % (a, b, int(c) + base)
                    elif op == "Df":
                        e = str(int(e) + base)
                        nb = int(e)
                    e2.append(e)
                base = nb
                exps.append(e2)
            else:
                exps.append(exp)
        res = proc.run([exe], stdin="\n".join(inp) + "\n", timeout=300)
        lines = res.out.splitlines()
        if res.timed_out or res.rc != 0 or len(lines) != sum(len(e) for e in exps):
            ctx.count("group_reruns")
            for s in group:
                single(s)
            return
        pos = 0
        for s, e in zip(group, exps):
            compare(ctx, fl, (s[0], s[1], e, s[3], s[4]), lines[pos:pos + len(e)])
            pos += len(e)
    groups = [scripts[i:i + chunk] for i in range(0, len(scripts), chunk)]
    ctx.pmap(one, groups)


def run(ctx):
    n = ctx.size(400, 8000)
    scripts = []
    for i in range(n):
        rng = ctx.sub_rng(i)
        if i % 2 == 0:
            ops, exp, nt = gen_dynar(rng, rng.choice([60, 150, 400]))
            scripts.append(("dynar", ops, exp, nt, "dynar%d" % i))
        else:
            ops, exp, nt = gen_dict(rng, rng.choice([60, 300, 1500]))
            scripts.append(("dict", ops, exp, nt, "dict%d" % i))
    ctx.sample({"kind": "dynar", "ops": scripts[0][1][:25]})
    ctx.sample({"kind": "dict", "ops": scripts[1][1][:25]})
    for fl in ("hooks", "asan"):
        run_batch(ctx, fl, scripts)
        ctx.count("flavour." + fl)


def replay(ctx, w):
    raise NotImplementedError("replay: feed witness['ops'] to the xcont harness by hand")
