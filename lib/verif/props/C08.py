"""C08 Mailbox communications are exactly-once, FIFO and intact (S4U leg)."""
from verif import build
from verif import mbq_common as M
from verif.gen import mbq as G

META = {
    "id": "C08", "engine": "E1 s4u harness (mailbox / message-queue scripts)", "engine_path": "harness/mbq.cpp",
    "engine_kind": "S4U program executing batches of generated per-actor communication scripts on the real kernel; python queue model "
                   "replayed over the recorded call/return history",
    "level": "exploration",
    "technique": "boundary-recorded history of every put/get/wait/test/cancel with unique message ids, replayed in request order through a "
                 "two-sided FIFO matching model; payload registry, byte comparison with guard zones, scribble check of consumed buffers",
    "level_text": "2-6 actors run generated scripts on 1-3 mailboxes of a generated platform: put, put with timeout, put_init+wait, "
                  "put_async(+rate), put_init+detach, Comm::send with match data and match functions, get, get with timeout, "
                  "get_init+wait, get_async (slot or get_payload()), Comm::recv with match functions, buffer communications "
                  "(set_src_data/set_dst_data with a copy callback, sizes 0..70000, truncating receptions), wait / wait_for+cancel / test / "
                  "ActivitySet::wait_any_for / cancel on the handles, set_receiver on and off, sleeps of 0/1/10/.. us and yields so that "
                  "requests collide at the same date and in the same scheduling round. Every message carries a unique id (sender, counter) "
                  "and a checksum. Calls are logged before the call and after the return; SimGrid's kernel is sequential, so the order of the "
                  "call lines is the order in which the kernel handled the requests. The model (one queue of pending sends and one of pending "
                  "receives per mailbox, a request is matched with the oldest opposite request such that both filters accept) is replayed over "
                  "the log and every successful reception is compared with it: payload of a put that was issued, never delivered before, the "
                  "oldest acceptable one (hence per-sender order), received on the mailbox it was sent to, payload pointer/size/checksum or "
                  "bytes intact (received size = min(sent, capacity), nothing written beyond it nor in the guard zones, copy callback at most "
                  "once per message), nothing written again into a consumed slot/buffer until the end of the run; a run that ends with a "
                  "reception still blocked although an acceptable send was pending for it is a lost message. Both the plain and the "
                  "ASan+UBSan builds are driven.",
    "level_note": "S4U API, one schedule per program (the model-checker leg of the quantifier is not built). Cancelled or timed-out "
                  "requests are withdrawn from the model and what their peer gets is not judged (the statement is silent); a replay stops "
                  "without verdict at an exception nobody provoked (none seen). Cancel/timeouts are not mixed with permanent receivers "
                  "(a cancelled eager send stays in the done queue: outside the statement). A put/get(timeout) that expires while the model has "
                  "it matched (transfer in flight, or peer arriving in the scheduling round of the expiry) stops the replay without verdict. "
                  "A crash of the process after a blocking call ended with an exception is keyed ':after-failed-blocking-comm' (open known "
                  "finding). No actor is killed, no resource fails (C10). ASan runs use the thread context factory (the raw one triggers a "
                  "false positive of ASan's own sigaltstack interceptor when SimGrid unwinds blocked actors at the end). "
                  "Trusted base: the harness (payload registry, log order) and the python model.",
    "rule": "case = one scenario (mailbox kinds + per-actor scripts) on the platform of its batch; non-trivial = distinct scenarios whose "
            "history was replayed to the end with >=1 checked delivery and >=1 match that had to choose (>=2 acceptable candidates, or a "
            "filter skipped an older request)",
    "assumptions": ["the order of the logged call lines is the order in which maestro handled the simcalls (sequential kernel, "
                    "contexts/nthreads:1)"],
    "ready": True,
}

PLAT = {"nh": 3, "links": [[1e7, 1e-4]]}


def _d(name, scripts, mb="P"):
    return {"family": "directed:" + name, "plat": PLAT, "mb": mb, "nq": 0, "scripts": scripts}


# minimal witnesses of the open known findings (permanent receiver switched while sends are pending) + plain sanity cases
DIRECTED = [
    # F-C08-a: a send queued before set_receiver() is overtaken by the sends that follow it
    _d("queued-before-set_receiver:same-sender", [["puta:0:1000", "sleep:2000", "puta:0:1000"],
                                                  ["sleep:1000", "setr:0:1", "sleep:5000", "get:0", "get:0"]]),
    _d("queued-before-set_receiver:two-senders", [["puta:0:1000"], ["sleep:1000", "setr:0:1", "sleep:5000", "get:0", "get:0"],
                                                  ["sleep:2000", "puta:0:1000"]]),
    _d("queued-before-set_receiver:filter", [["putf:0:1000:1:0:0"], ["sleep:1000", "setr:0:1", "sleep:5000", "getf:0:0:1:1"],
                                             ["sleep:2000", "putd:0:1000"]]),
    # F-C08-b: an eager send still in the done queue when set_receiver(nullptr) is called can never be received
    _d("stranded-after-unset:lost", [["sleep:1000", "puta:0:1000"], ["setr:0:1", "sleep:2000", "setr:0:0", "sleep:1000", "get:0"]]),
    _d("stranded-after-unset:two-senders", [["sleep:1000", "puta:0:1000"], ["setr:0:1", "sleep:2000", "setr:0:0", "sleep:1000", "get:0"],
                                            ["sleep:4000", "puta:0:1000"]]),
    _d("stranded-after-unset:same-sender", [["sleep:1000", "puta:0:1000", "sleep:3000", "puta:0:1000"],
                                            ["setr:0:1", "sleep:2000", "setr:0:0", "sleep:1000", "get:0"]]),
    _d("stranded-after-unset:younger-get-served", [["sleep:1000", "puta:0:1000"],
                                                   ["setr:0:1", "sleep:2000", "setr:0:0", "geta:0", "setr:0:1", "sleep:2000"],
                                                   ["sleep:4000", "get:0"]]),
    # sanity: what the same programs give without the switch
    _d("plain-fifo", [["puta:0:1000", "puta:0:0", "putd:0:8", "put:0:1"], ["sleep:10", "get:0", "geta:0", "getp:0", "getw:0"],
                      ["puta:0:8", "sleep:0", "putd:0:1000"], ["geta:0", "geta:0", "wany", "wany"]]),
    _d("permanent-from-the-start", [["sleep:10", "puta:0:1000", "putd:0:0", "put:0:8"], ["setr:0:1", "sleep:1000", "get:0", "geta:0", "getp:0"]]),
    _d("filters", [["putf:0:8:1:0:0", "putf:0:8:2:0:0"], ["sleep:10", "getf:0:0:1:2", "getf:0:0:1:1"], ["sleep:1", "putd:0:1000"],
                   ["sleep:100", "get:0"]]),
    _d("buffers", [["bputa:0:64:1000", "bput:0:0:0", "bputd:0:70000:8"], ["bget:0:12", "bgeta:0:0", "bgets:0:100000"]], mb="B"),
]


# F-C08-c: the peer cancels a communication whose other end is blocked in a one-simcall put/get (put_init()->wait(), Comm::send):
# the exception leaves ActorImpl::simcall_.observer_ dangling and the victim's next test()/wait_any() dereferences it. Own process.
CRASHING = [
    _d("observer-dangling-after-failed-blocking-comm", [["geta:1", "putw:0:1000000", "wany"], ["geta:0", "sleep:1000", "cancel:0", "sleep:1000"]],
       mb="PP"),
]


def _on_result(ctx):
    def f(sc, r, fl):
        fam = sc.get("family", "?").split(":")[0]
        ctx.count("scenarios.%s.%s" % (fl, fam))
        for k, v in r.counters.items():
            ctx.count(k, v)
        if r.stopped and not r.violations:
            ctx.count("replays_stopped_without_verdict")
            ctx.count("replays_stopped: " + r.stopped[:60])
        elif not r.stopped and r.deliveries >= 1 and r.choice >= 1:
            ctx.nontrivial(sc)
    return f


def run(ctx):
    n = ctx.size(quick=700, thorough=40000)
    bs = 25
    for fl in ("hooks", "asan"):
        M.exe(fl)
    jobs = []
    jobs.append(("hooks", PLAT, DIRECTED))
    jobs.append(("asan", PLAT, DIRECTED))
    for d in CRASHING:
        jobs.append(("hooks", PLAT, [d]))
        jobs.append(("asan", PLAT, [d]))
    nb = (n + bs - 1) // bs
    for b in range(nb):
        plat = G.platform(ctx.sub_rng("plat", b))
        scs = [G.gen_c08(ctx.sub_rng("sc", b, i), plat) for i in range(bs)]
        if b == 0:
            ctx.sample({"plat": plat, "scenario": scs[0]})
            ctx.sample({"plat": plat, "scenario": scs[1]})
        jobs.append(("hooks", plat, scs))
        if b % 3 == 0:
            jobs.append(("asan", plat, scs))
    ctx.sample({"plat": PLAT, "scenario": DIRECTED[0]})
    cb = _on_result(ctx)

    def one(j):
        fl, plat, scs = j
        M.check_batch(ctx, "C08", fl, plat, scs, cb)
    ctx.pmap(one, jobs)


def replay(ctx, w):
    M.replay_witness(ctx, "C08", w)
