"""C41 - Reported counter-examples are real and replayable.

Every counter-example simgrid-mc prints (deadlock, MC_assert failure, crash) is taken apart: its `model-check/replay` path
string, the lines of its "Counter-example execution trace", the application's list of blocked actors.  Three independent
judges look at it:
  (1) the Python reference semantics (oracles/cex_ref.py) follows the path step by step - the actor must exist and be
      enabled, times_considered must be in range, and the transition printed for the step must be the one the reference
      executes, field by field (object ids, owner after the call, semaphore capacity, granted/timeout flags, comm peers,
      random value, join target, created child) - and the path must end in the reported kind of failure with the
      reported set of blocked actors;  a failure kind that the exhaustive reference exploration says is unreachable must
      never be reported (nor signalled through the exit status);
  (2) the application itself (hook log of the terminal states it went through, with the transitions it really executed)
      must have seen that failure after exactly that sequence;
  (3) the native binary run with --cfg=model-check/replay:<path>, twice: same verdict as reported, same fingerprint as the
      reference (blocked actors + positions + observations, or failing actor + position), every replayed chunk is the
      transition of the reference, and the two runs print the same text.
"""
import hashlib
import os
import shutil
import tempfile
import threading

from verif import build
from verif.gen import mcprog_cex
from verif.oracles import cex_ref, mc_cex

META = {
    "id": "C41",
    "engine": "E6 mc_diff (generated synchronisation programs under simgrid-mc + native replay)",
    "engine_path": "harness/mc_vm_cex.cpp",
    "level": "exploration",
    "technique": "every reported counter-example followed step by step in an independent reference semantics, "
                 "cross-checked with the application-side transition log, then replayed twice natively",
    "level_text": "Generated programs (<=4 actors x <=8 ops over mutexes, semaphores, condition variables, barriers, "
                  "mailboxes, create/join, MC_random, MC_assert) with reachable deadlocks/assertion failures, plus clean "
                  "ones, explored by simgrid-mc under every reduction (none, dpor, sdpor, odpor; udpor in thorough) with the "
                  "DFS and BeFS explorers, with max-errors 0 and >0.  The property is a universally quantified statement "
                  "over reports, each report is decided exactly; exploration over programs is the right level since the "
                  "program space is unbounded.",
    "level_note": "Trusted base: the 700-line Python reference semantics (validated on every run: each reported transition "
                  "is compared field by field with what the reference executes, and each native replay fingerprint with "
                  "the reference state).  hooks flavour for simgrid-mc (the asan flavour is used for 10 % of the replays). "
                  "Reports of the parallel explorer and of strategies other than the default are not covered. "
                  "A failure that simgrid-mc misses is not this property's business (C38) and is only counted.",
    "rule": "a case = (program, reduction, explorer, max-errors); non-trivial when simgrid-mc printed at least one "
            "counter-example, which was followed in the reference and replayed natively; distinct by program text + "
            "setting + path",
    "assumptions": [
        "the textual trace printed by simgrid-mc is produced by Transition::to_string() of the transitions of the path",
        "the VM only makes valid S4U calls (guards on unlock / cond wait / binary-semaphore release / join / create)",
    ],
    "ready": True,
}

REDUCTIONS = ["dpor", "sdpor", "odpor"]


def _key_tail(setting):
    return "%s:%s" % (setting["explorer"], "maxerr0" if not setting["max_errors"] else "maxerrN")


def _short(text, n=4000):
    return text if len(text) <= n else text[:n // 2] + "\n...[cut]...\n" + text[-n // 2:]


class Case:
    def __init__(self, name, prog, refres, setting, origin):
        self.name, self.prog, self.refres, self.setting, self.origin = name, prog, refres, setting, origin


def settings_for(refres, tier, rng, directed=False):
    """Settings run on one program.  Quick tier: the four reductions with the DFS explorer and the default max-errors:0,
    plus three settings drawn among {BeFS, max-errors>0}; thorough tier: the full matrix."""
    out = []
    small = refres["paths"] is not None and refres["paths"] <= (400 if tier == "quick" else 3000)
    # with max-errors>0 the exploration goes on after an error: only on programs whose full exploration is affordable
    multi = refres["paths"] is not None and refres["paths"] <= 20000
    reds = list(REDUCTIONS) + (["none"] if small else [])
    for r in reds:
        out.append({"reduction": r, "explorer": "DFS", "max_errors": 0})
    if tier != "quick":
        for r in reds:
            out.append({"reduction": r, "explorer": "BeFS", "max_errors": 0})
            out.append({"reduction": r, "explorer": "DFS", "max_errors": 3 if multi else 0})
        out.append({"reduction": "odpor", "explorer": "BeFS", "max_errors": 3 if multi else 0})
        if small:
            out.append({"reduction": "udpor", "explorer": "DFS", "max_errors": 0})
    else:
        out.append({"reduction": rng.choice(reds), "explorer": "BeFS", "max_errors": 0})
        out.append({"reduction": rng.choice(reds), "explorer": "DFS", "max_errors": rng.choice([1, 3, 8]) if multi else 0})
        if rng.random() < 0.3:
            out.append({"reduction": rng.choice(reds), "explorer": "BeFS", "max_errors": 2 if multi else 0})
    seen, uniq = set(), []
    for st in out:
        k = tuple(sorted(st.items()))
        if k not in seen:
            seen.add(k)
            uniq.append(st)
    return uniq


# Settings under which the open known findings are re-found on every run (program name of gen/mcprog_cex.DIRECTED, setting)
PINNED = [
    ("lock-order", {"reduction": "dpor", "explorer": "DFS", "max_errors": 3}),
    ("lock-order", {"reduction": "odpor", "explorer": "DFS", "max_errors": 3}),
    ("first-step-assert", {"reduction": "dpor", "explorer": "DFS", "max_errors": 0}),
    ("odpor-random-crash", {"reduction": "odpor", "explorer": "DFS", "max_errors": 0}),
    ("odpor-random-fragment", {"reduction": "odpor", "explorer": "DFS", "max_errors": 1}),
]
PINNED_PROGRAMS = {     # programs only run under their pinned setting
    "odpor-random-crash": "actor Q0.1 E1 Q0.1 K2\nactor Q0.2 I2 Q0.2 I1\ndyn Q0.2 I1 Q0.1 I1 Q0.1 I2 Q0.1 I2\n",
    "odpor-random-fragment": "mutex 2\nmbox 1\nactor G0 Q0.1 I1 S0.2 S0.2 L0 O0 U0\nactor Q0.1 I1\nactor S0.21 T0 I2 O0 U0\n"
                             "actor Q0.1 E1 I2 Q0.1 I2\n",
}


REPLAY_ENV_ASAN = {"UBSAN_OPTIONS": "halt_on_error=0:print_stacktrace=0"}   # see level_note (misaligned unpack in Channel.hpp)


def judge_report(ref, refres, res, rep, earlier, setting, has_random=False):
    """Judges (1) and (2). Returns (list of (key, what), reference result, stale flag).
    earlier = [(report, reference result, confirmed)] of the previous reports of the same run."""
    tail = _key_tail(setting)
    out = []
    reach = {"DEADLOCK": bool(refres["deadlock"]), "ASSERT": bool(refres["assert"])}
    rc = ref.replay_checked(rep.path, rep.trace)
    in_applog = bool(res.records) and any(k == rep.kind and tr == rep.path for k, tr, _ in res.records)
    # A deadlock report issued while the application still sits in the deadlock of an earlier report of this run (same blocked
    # actors, and the application never logged a new deadlock): the explorer asked "deadlock?" about a state of its own stack
    # without having brought the application there.  All the symptoms below (fragment paths, prefixes, ...) get one key.
    stale = False
    if rep.kind == "DEADLOCK" and res.records and not in_applog:
        for prev, prc, conf in earlier:
            if conf and prev.kind == "DEADLOCK" and prev.blocked == rep.blocked:
                stale = True
    if not reach.get(rep.kind, False):
        out.append(("C41:unreachable-kind:%s:%s" % (rep.kind, tail),
                    "simgrid-mc reports a %s (path '%s') but the reference finds no reachable %s in this program"
                    % (rep.kind, rep.path, rep.kind.lower())))
    if not rc["ok"]:
        if rc.get("field_mismatch"):
            out.append(("C41:trace-mismatch:%s:%s" % (rc["field_mismatch"][0], tail),
                        "the counter-example trace of a %s disagrees with the reference: %s" % (rep.kind, rc["reason"])))
        elif rc.get("length_mismatch"):
            out.append(("C41:trace-length:%s:%s" % (rep.kind, tail),
                        "reported %s: %s (path '%s')" % (rep.kind, rc["reason"], rep.path)))
        else:
            r = rc["reason"]
            why = "not-enabled" if "not enabled" in r else "no-such-actor" if "no actor" in r else \
                "terminated-actor" if "terminated" in r else "times" if "times_considered" in r else \
                "early-assert" if "before the end" in r else "startup" if "start-up" in r else "other"
            out.append(("C41:path-invalid:%s:%s:%s" % (rep.kind, why, tail),
                        "the path '%s' reported for a %s is not a run of the reference: %s" % (rep.path, rep.kind, r)))
    elif rc["kind"] != rep.kind:
        feature = "empty-path" if rep.path == "" else "nonempty-path"
        out.append(("C41:path-not-failure:%s->%s:%s:%s" % (rep.kind, rc["kind"], feature, tail),
                    "the path '%s' reported for a %s is a valid run of the reference but ends in state %s (%s)"
                    % (rep.path, rep.kind, rc["kind"], rc["fingerprint"])))
    else:
        if rep.kind == "DEADLOCK" and rep.blocked is not None:
            got = {p: v[0] for p, v in rep.blocked.items()}
            want = {p: mc_cex.OBSERVER_WORD.get(v[0], v[0]) for p, v in ref.blocked(rc["state"]).items()}
            if got != want:
                out.append(("C41:blocked-set:%s" % tail,
                            "deadlock report lists blocked actors %s, the reference state after the path has %s" % (got, want)))
        if res.records and not in_applog:
            out.append(("C41:app-log:%s:%s" % (rep.kind, tail),
                        "the application never saw a %s after executing exactly '%s' (its log has %s)"
                        % (rep.kind, rep.path, sorted(set((k, tr) for k, tr, _ in res.records if k == rep.kind))[:5])))
    if out and not stale and has_random and setting["reduction"] == "odpor":
        # ODPOR + a transition with several variants (MC_random): known defect class (the state that still has a variant to
        # explore is garbage collected, the parent chain used for record traces and for backtracking replays is cut)
        sym = "false-crash-report" if rep.kind == "CRASH" else "bad-path:%s" % rep.kind
        out = [("C41:odpor+MC_random:%s:%s" % (sym, tail),
                "ODPOR on a program using MC_random: " + out[0][1])]
    if stale and out:
        out = [("C41:phantom-deadlock:stale-application-state:%s" % tail,
                "deadlock reported with path '%s' while the application was still in the deadlock of an earlier report of the "
                "same run (same blocked actors, no new deadlock in the application log); as a counter-example it is wrong: %s"
                % (rep.path, out[0][1]))]
    return out, rc, stale


def judge_replay(ref, rep, rc, rr, tail):
    """Judge (3) on one native replay rr of a report that the reference confirmed (rc)."""
    if rr["kind"] != rep.kind:
        return ("C41:replay-verdict:%s->%s:%s" % (rep.kind, rr["kind"] or ("error" if rr["error"] else "none"), tail),
                "replaying '%s' (reported as %s, confirmed by the reference) natively gives %s %s"
                % (rep.path, rep.kind, rr["kind"], rr["error"] or ""))
    if rr["fingerprint"] != rc["fingerprint"]:
        return ("C41:replay-state:%s:%s" % (rep.kind, tail),
                "replaying '%s' reaches %s, the reference (and the report) %s" % (rep.path, rr["fingerprint"], rc["fingerprint"]))
    steps = cex_ref.Ref.parse_path(rep.path)
    got = [(p, t, wd_) for p, t, wd_, _ in rr["chunks"]]
    want = [(p, t, mc_cex.OBSERVER_WORD.get(ty, ty)) for (p, t), ty in zip(steps, rc["types"])]
    if got != want:
        i = next((j for j in range(min(len(got), len(want))) if got[j] != want[j]), min(len(got), len(want)))
        return ("C41:replay-chunks:%s:%s" % (rep.kind, tail),
                "replay of '%s' executes %s at chunk %d where the reference has %s (%d chunks replayed, %d expected)"
                % (rep.path, got[i] if i < len(got) else None, i, want[i] if i < len(want) else None, len(got), len(want)))
    if rep.kind == "DEADLOCK":
        expb = {p: mc_cex.OBSERVER_WORD.get(v[0], v[0]) for p, v in ref.blocked(rc["state"]).items()}
        gotb = {p: v[0] for p, v in rr["blocked"].items()}
        if expb != gotb:
            return ("C41:replay-blocked-set:%s" % tail,
                    "replay of '%s' ends in a deadlock with blocked actors %s, the reference has %s" % (rep.path, gotb, expb))
    if any(k == "asan" for k, _ in rr.get("sanitizer", [])):
        return ("C41:replay-sanitizer:%s:%s" % (rep.kind, tail), "replay of '%s': %s" % (rep.path, rr["sanitizer"][0][1]))
    return None


def evaluate(ctx, env, case, corrupt=None):
    """Run one (program, setting) and judge every report. corrupt: self-test hook, corrupt(stage, obj) mutates what was
    observed (stage 'report': a parsed Report, 'replay': a replay result) before the oracle sees it."""
    vm, mc, wd = env["vm"], env["mc"], env["wd"]
    prog, refres, setting = case.prog, case.refres, case.setting
    text = prog.text()
    h = hashlib.sha1((text + repr(sorted(setting.items()))).encode()).hexdigest()[:12]
    spec = os.path.join(wd, "p-%s.spec" % h)
    with open(spec, "w") as f:
        f.write(text)
    tail = _key_tail(setting)
    base_w = {"spec": text, "setting": setting, "name": case.name, "families": mcprog_cex.families_of(prog)}
    res = mc_cex.run_mc(vm, mc, spec, wd, h, reduction=setting["reduction"], explorer=setting["explorer"],
                        max_errors=setting["max_errors"], timeout=env["timeout"])
    if res.timed_out:
        ctx.inconclusive("watchdog:simgrid-mc:%s" % setting["reduction"])
        with env["lock"]:
            lst = ctx.extra.setdefault("watchdog_fired_on", [])
            if len(lst) < 8:
                lst.append({"setting": setting, "spec": text, "log_tail": res.log[-400:]})
        return
    ctx.evaluation()
    ctx.count("mc.runs")
    ctx.count("mc.runs.%s.%s.%s" % (setting["reduction"], setting["explorer"], "maxerr0" if not setting["max_errors"] else "maxerrN"))
    ctx.count("mc.verdict.%s" % res.verdict())
    reach = {"DEADLOCK": bool(refres["deadlock"]), "ASSERT": bool(refres["assert"])}
    if "did not do any transition" in res.log:
        ctx.count("mc.refused_program_without_transition")
        return
    if res.rc not in (0, 1, 2, 4) or (res.aborted and not res.reports):
        # the checker itself died (xbt_assert in a reduction or in the critical-transition search, ...): that is not a
        # *report* (C38's business); the reports it printed before dying are judged below like any other
        ctx.count("mc.checker_abnormal_exit")
        with env["lock"]:
            lst = ctx.extra.setdefault("checker_abnormal_exits_not_judged_here", [])
            if len(lst) < 6:
                lst.append({"what": res.aborted or "rc=%s" % res.rc, "setting": setting, "spec": text,
                            "log_tail": res.log[-600:]})
        if not res.reports:
            return
    elif res.rc != 0 and not any(reach.values()):
        ctx.violation("C41:failure-verdict-on-clean-program:rc%d:%s" % (res.rc, tail),
                      "simgrid-mc exits with status %d (%s) on a program in which the reference finds no reachable failure\n%s"
                      % (res.rc, res.verdict(), text), dict(base_w, log=_short(res.log)))
    elif res.rc in (1, 2) and not reach[{1: "ASSERT", 2: "DEADLOCK"}[res.rc]]:
        ctx.count("mc.exit_status_names_a_failure_kind_that_is_unreachable")   # statement is about reports: only counted
    if not res.reports:
        ctx.count("mc.no_report_although_failure_reachable" if any(reach.values()) else "mc.clean_program_no_report")
        return
    ref = cex_ref.Ref(prog)
    earlier = []
    for rep in res.reports[:env["max_reports"]]:
        if corrupt:
            corrupt("report", rep)
        ctx.count("reports")
        ctx.count("reports.%s" % rep.kind)
        w = dict(base_w, report=rep.as_dict(), report_index=rep.index)
        found, rc, stale = judge_report(ref, refres, res, rep, earlier, setting,
                                        has_random=any(k == "Q" for _, ops in prog.actors for k, _, _ in ops))
        ctx.count("reference.steps_followed", rc["n"])
        if res.records:
            ctx.count("applog.compared")
        if rep.kind == "DEADLOCK" and rep.blocked:
            ctx.count("deadlock.blocked_actors_compared", len(rep.blocked))
        earlier.append((rep, rc, not found))
        if not found:
            ctx.count("reference.path_confirmed")
        # (3) native replay, twice (the second one sometimes on the asan flavour)
        if rep.index >= env["max_replayed"] and not found:
            continue
        second_vm, env2, tmul = vm, None, 1
        if env.get("vm_asan") and int(h, 16) % 10 == 0:
            second_vm, env2, tmul = env["vm_asan"], REPLAY_ENV_ASAN, 3
        r1 = mc_cex.run_replay(vm, spec, rep.path, timeout=env["timeout"])
        # (ASan + exceptions unwinding a raw-context stack = report inside the sanitizer's own sigaltstack interceptor)
        r2 = mc_cex.run_replay(second_vm, spec, rep.path, timeout=env["timeout"] * tmul, env=env2,
                               extra=["--cfg=contexts/factory:thread"] if second_vm != vm else [])
        if r1["timed_out"] or r2["timed_out"]:
            ctx.inconclusive("watchdog:replay")
            continue
        if corrupt:
            corrupt("replay", r2)
        ctx.count("replays", 2)
        if second_vm != vm:
            ctx.count("replays.asan")
        ctx.nontrivial([text, sorted(setting.items()), rep.path])
        rw = dict(w, replay_cmd=r1["cmd"], replay_out=_short(r1["out"]))
        if found:
            ctx.count("replay.of_refuted_report.%s" % r1["kind"])
            key, what = found[0]
            ctx.violation(key, what + "\n(native replay of that path: %s)\nprogram:\n%ssetting: %s" % (r1["kind"], text, setting), rw)
            continue
        ctx.count("replay.chunks_compared", len(r1["chunks"]) + len(r2["chunks"]))
        bad = None
        for rr in (r1, r2):
            bad = judge_replay(ref, rep, rc, rr, tail)
            if bad:
                rw["replay_out"] = _short(rr["out"])
                break
        if not bad and second_vm == vm and \
                mc_cex.normalise_replay_output(r1["out"]) != mc_cex.normalise_replay_output(r2["out"]):
            bad = ("C41:replay-nondeterministic:%s:%s" % (rep.kind, tail), "two replays of '%s' print different texts" % rep.path)
            rw["replay_out2"] = _short(r2["out"])
        if bad:
            ctx.violation(bad[0], bad[1] + "\nprogram:\n%ssetting: %s" % (text, setting), rw)
            continue
        ctx.count("replay.confirmed.%s" % rep.kind)
        ctx.sample({"program": text, "setting": setting, "kind": rep.kind, "path": rep.path,
                    "reference_state": rc["fingerprint"], "replay_state": r1["fingerprint"]})


def _gen_case(args):
    seed, want, max_states = args
    import random
    got = mcprog_cex.sized_failing(random.Random(seed), want=want, max_states=max_states,
                                   max_paths=30000 if max_states <= 2500 else 300000)
    if got is None:
        return None
    p, fam, r = got
    return p.text(), fam, r


def make_env(ctx):
    vm, mc = mc_cex.binaries("hooks")
    env = {"vm": vm, "mc": mc, "wd": tempfile.mkdtemp(prefix="verif-C41-"), "timeout": 150,
           "max_reports": 12, "max_replayed": 2, "vm_asan": None, "lock": threading.Lock()}
    try:
        env["vm_asan"] = build.harness("mc_vm_cex.cpp", flavour="asan", internal=True)
    except build.BuildError:
        ctx.assume("asan flavour not available: replays only on the hooks flavour")
    return env


def run(ctx):
    env = make_env(ctx)
    try:
        cases = []
        dprogs = dict(mcprog_cex.directed())
        pprogs = {name: cex_ref.parse(text) for name, text in PINNED_PROGRAMS.items()}
        drefs = {name: cex_ref.Ref(prog).explore(max_states=20000) for name, prog in list(dprogs.items()) + list(pprogs.items())}
        done = set()
        for name, st in PINNED:
            cases.append(Case(name, dprogs.get(name) or pprogs[name], drefs[name], st, "pinned"))
            done.add((name, tuple(sorted(st.items()))))
        for name, prog in dprogs.items():
            for st in settings_for(drefs[name], ctx.tier, ctx.sub_rng("d", name), directed=True):
                if (name, tuple(sorted(st.items()))) not in done:
                    cases.append(Case(name, prog, drefs[name], st, "directed"))
        n = ctx.size(quick=24, thorough=600)
        import multiprocessing as mp
        jobs = []
        for i in range(n):
            want = ["deadlock", "assert", "any", "any", "any", "clean"][i % 6]
            jobs.append((ctx.sub_seed("g", i), want, 2500 if ctx.tier == "quick" else 6000))
        workers = max(1, min(int(os.environ.get("VERIF_JOBS", "16")), 16))
        with mp.Pool(workers) as pool:
            gen = pool.map(_gen_case, jobs, chunksize=2)
        for i, g in enumerate(gen):
            if g is None:
                ctx.count("generator.gave_up")
                continue
            text, fam, r = g
            prog = cex_ref.parse(text)
            ctx.count("programs")
            ctx.count("programs.with_deadlock" if r["deadlock"] else "programs.without_deadlock")
            ctx.count("programs.with_assert" if r["assert"] else "programs.without_assert")
            ctx.maximum("reference.states_max", r["states"])
            for st in settings_for(r, ctx.tier, ctx.sub_rng("s", i)):
                cases.append(Case("g%d" % i, prog, r, st, "generated"))
        ctx.pmap(lambda c: evaluate(ctx, env, c), cases)
    finally:
        shutil.rmtree(env["wd"], ignore_errors=True)


def replay(ctx, witness):
    env = make_env(ctx)
    try:
        prog = cex_ref.parse(witness["spec"])
        r = cex_ref.Ref(prog).explore(max_states=50000)
        evaluate(ctx, env, Case(witness.get("name", "replay"), prog, r, witness["setting"], "replay"))
    finally:
        shutil.rmtree(env["wd"], ignore_errors=True)
