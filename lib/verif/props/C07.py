"""C07 Barrier semantics (S4U leg, real scheduler)."""
from verif.gen import sync as G
from verif.oracles import sync as O

META = {
    "id": "C07", "engine": "E1 s4u harness (barrier scripts)", "engine_path": "harness/sync.cpp",
    "engine_kind": "S4U program executing generated per-actor scripts on the real kernel, python group-counting oracle over the recorded history",
    "level": "exploration",
    "technique": "boundary-recorded call/return history of Barrier::wait checked against arrival counting: the k-th group of a barrier of size n is "
                 "arrivals (k-1)n+1..kn in request order, a wait may return only once its group is complete, complete groups are released entirely",
    "level_text": "2-6 actors run generated scripts (wait on one of 1-2 barriers of size 1-6, sleeps of 1-3 time units of 2^-10 s so that arrivals "
                  "collide at the same date and in the same scheduling round, yields); barriers are reused for several rounds, with more or fewer "
                  "actors than the barrier size. Calls are logged before the call and after the return; the kernel is sequential, so the order of "
                  "the request lines is the arrival order seen by the kernel. Every return is checked: the arrival's group (by arrival index) must be "
                  "complete at that point of the history and not before the date of its last arrival; at the end every member of a complete group "
                  "must have returned, and the only blocked actors are the members of a trailing incomplete group.",
    "level_note": "S4U API only: the model-checker leg of the design is not built. The documented return value (exactly one 'true' per group) and "
                  "the order of the returns inside a group are recorded as counters only, the statement does not cover them. Killing an actor that "
                  "waits on a barrier is not generated: the statement does not say whether it still counts. Scripted actors left in an "
                  "incomplete trailing group are kept blocked for 64 time units (nobody may return) and then completed by helper actors, because "
                  "on this tree the kernel crashes when it kills an actor blocked on a barrier (also at the end of a deadlocked run): that "
                  "crash is a separate known finding, reproduced by two directed programs without helpers.",
    "rule": "case = one scenario (barrier sizes + per-actor scripts); non-trivial = distinct scenarios, fully checked, in which >=1 wait had to block "
            "and >=1 group of size >=2 was released",
    "ready": False,
}

DIRECTED = [
    {"mode": "bar", "sizes": [2], "scripts": [["B0", "B0"], ["S1", "B0"], ["B0"]]},
    {"mode": "bar", "sizes": [3], "scripts": [["B0", "B0"], ["B0", "S1", "B0"], ["B0", "Y", "B0"], ["S2", "B0"]]},
    {"mode": "bar", "sizes": [1], "scripts": [["B0", "B0", "B0"], ["B0"]]},
    {"mode": "bar", "sizes": [6], "scripts": [["B0"], ["B0"], ["S1", "B0"], ["S1", "B0"], ["S2", "B0"], ["S2", "B0"]]},
    {"mode": "bar", "sizes": [2, 3], "scripts": [["B0", "B1"], ["B1", "B0"], ["B1", "B0", "B0"], ["S1", "B0"]]},
    {"mode": "bar", "sizes": [4], "scripts": [["B0"], ["B0"], ["B0"]]},                          # incomplete group: nobody may return before the helpers come
]
# programs that end with an incomplete group and no helper: the actors stay blocked, the kernel reports the deadlock and kills them
NOSWEEP = [
    {"mode": "bar", "sizes": [2], "nosweep": 1, "scripts": [["B0"]]},
    {"mode": "bar", "sizes": [4], "nosweep": 1, "scripts": [["B0", "B0"], ["B0"], ["B0"], ["B0"], ["S1", "B0"]]},
]


def judge(ctx, fl, sc, res, out):
    w = {"flavour": fl, "scenario": sc}
    c = G.crashed(res)
    if c:
        if sc.get("nosweep") and "Deadlock detected" in res.err and not any(l.startswith("END") for l in out.splitlines()):
            ctx.violation("C07:crash:deadlock-cleanup-of-barrier-waiter", "the program ends with actors blocked on a barrier (incomplete group); the kernel "
                          "reported the deadlock and died while killing them: %s; history tail %r" % (c, out.splitlines()[-8:]), w)
        else:
            ctx.violation("C07:crash", "barrier harness died: %s; history tail %r" % (c, out.splitlines()[-8:]), w)
        return
    f = O.check_bar(ctx, sc, out, w)
    if not f:
        return
    for k in ("groups", "waits", "blocked_waits", "rearmed", "groups_one_true", "groups_other_true", "release_in_arrival_order", "release_other_order"):
        if f[k]:
            ctx.count("events.%s" % k, f[k])
    if f["forever"]:
        ctx.count("scenarios_ending_with_an_incomplete_group")
    if f["blocked_waits"] and f["groups"] and any(s >= 2 for s in sc["sizes"]):
        ctx.nontrivial(sc)


def run(ctx):
    n = ctx.size(600, 20000)
    scs = DIRECTED + [G.gen_bar(ctx.sub_rng(i)) for i in range(n)]
    ctx.sample(DIRECTED[1])
    ctx.sample(scs[len(DIRECTED)])
    for fl in ("hooks", "asan"):
        G.exe(fl)
    j = lambda fl, sc, res, out: judge(ctx, fl, sc, res, out)
    G.run_all(ctx, "hooks", scs, 20, j)
    G.run_all(ctx, "hooks", NOSWEEP, 1, j)
    G.run_all(ctx, "asan", scs[: len(DIRECTED) + max(24, n // 10)], 40, j)


def replay(ctx, w):
    res, out = G.run_one(w["flavour"], w["scenario"])
    ctx.evaluation()
    print(out)
    judge(ctx, w["flavour"], w["scenario"], res, out)
