"""C07 Barrier semantics (S4U leg, real scheduler)."""
from verif import proc
from verif.gen import sync as G
from verif.oracles import sync as O

META = {
    "id": "C07", "engine": "E1 s4u harness (barrier scripts)", "engine_path": "harness/sync.cpp",
    "engine_kind": "S4U program executing generated per-actor scripts on the real kernel, python group-counting oracle over the recorded history",
    "level": "exploration",
    "technique": "boundary-recorded call/return history of Barrier::wait checked against arrival counting: the k-th group of a barrier of size n is "
                 "arrivals (k-1)n+1..kn in request order, a wait may return only once its group is complete, complete groups are released entirely",
    "level_text": "2-6 actors run generated scripts (wait on one of 1-2 barriers of size 1-6, sleeps of 1-3 time units of 2^-10 s so that arrivals "
                  "collide at the same date and in the same scheduling round, yields; in a separate family also Actor::kill of an actor that "
                  "is blocked in wait); barriers are reused for several rounds, with more or fewer actors than the barrier size. Calls are logged before the call and after the return; the kernel is sequential, so the order of "
                  "the request lines is the arrival order seen by the kernel. Every return is checked: the arrival's group (by arrival index) must be "
                  "complete at that point of the history and not before the date of its last arrival; at the end every member of a complete group "
                  "must have returned, and the only blocked actors are the members of a trailing incomplete group.",
    "level_note": "S4U API only: the model-checker leg of the design is not built. The documented return value (exactly one 'true' per group) and "
                  "the order of the returns inside a group are recorded as counters only, the statement does not cover them. The statement "
                  "does not say whether an actor killed while it waits still counts as arrived: programs with Actor::kill of a blocked waiter "
                  "(7 directed + 24 generated, own processes) are accepted under either reading (the dead arrival leaves its incomplete group / "
                  "stays counted), applied to the whole history; what is demanded is that the simulator survives and that every return "
                  "has a complete group under that reading. Scripted actors left in an incomplete trailing group are kept blocked for 64 time "
                  "units (nobody may return) and then completed by helper actors arriving one at a time, except in two directed programs that "
                  "end in the kernel's deadlock report. On this tree killing a barrier waiter crashes the simulator (open known finding): "
                  "until it is fixed the generated kill programs only reproduce that crash, and on the asan flavour they are not run "
                  "(one probe, then masked).",
    "rule": "case = one scenario (barrier sizes + per-actor scripts); non-trivial = distinct scenarios, fully checked, in which >=1 wait had to block "
            "and >=1 group of size >=2 was released",
    "ready": True,
}

DIRECTED = [
    {"mode": "bar", "sizes": [2], "scripts": [["B0", "B0"], ["S1", "B0"], ["B0"]]},
    {"mode": "bar", "sizes": [3], "scripts": [["B0", "B0"], ["B0", "S1", "B0"], ["B0", "Y", "B0"], ["S2", "B0"]]},
    {"mode": "bar", "sizes": [1], "scripts": [["B0", "B0", "B0"], ["B0"]]},
    {"mode": "bar", "sizes": [6], "scripts": [["B0"], ["B0"], ["S1", "B0"], ["S1", "B0"], ["S2", "B0"], ["S2", "B0"]]},
    {"mode": "bar", "sizes": [2, 3], "scripts": [["B0", "B1"], ["B1", "B0"], ["B1", "B0", "B0"], ["S1", "B0"]]},
    {"mode": "bar", "sizes": [4], "scripts": [["B0"], ["B0"], ["B0"]]},                          # incomplete group: nobody may return before the helpers come
    {"mode": "bar", "sizes": [3], "scripts": [["B0", "B0", "B0"], ["B0", "B0", "B0"], ["B0", "B0", "B0"], ["B0", "B0", "B0"]]},  # 4 actors, groups of 3, same date
]
# Programs in which an actor dies while it is blocked in Barrier::wait, each run in its own process. The statement does not say
# whether such an arrival still counts; the simulator must survive, and the rest of the history must follow one of the two readings.
KILLS = [
    # ends with an incomplete group and no helper: the kernel reports the deadlock and kills the blocked actors itself
    {"mode": "bar", "sizes": [2], "nosweep": 1, "scripts": [["B0"]]},
    {"mode": "bar", "sizes": [4], "nosweep": 1, "scripts": [["B0", "B0"], ["B0"], ["B0"], ["B0"], ["S1", "B0"]]},
    # Actor::kill of a blocked waiter
    {"mode": "bar", "sizes": [2], "scripts": [["B0"], ["S1", "X0"]]},
    {"mode": "bar", "sizes": [2], "scripts": [["B0"], ["S1", "X0", "S1", "B0"], ["S3", "B0"]]},      # the dead arrival and a later pair
    {"mode": "bar", "sizes": [3], "scripts": [["B0"], ["B0"], ["S1", "X0", "S1", "B0"], ["S3", "B0"]]},
    {"mode": "bar", "sizes": [3], "scripts": [["B0", "B0"], ["B0", "B0"], ["S1", "X1", "B0", "B0"], ["S2", "B0", "B0"]]},
    {"mode": "bar", "sizes": [2], "scripts": [["B0"], ["X0", "B0"], ["B0", "B0"]]},                   # kill in the scheduling round of the arrival
]


KNOWN_CRASH = "C07:crash:barrier-waiter-killed"


def crash_key(sc, res, out):
    """the known crash: the process dies while an actor blocked on a barrier is being killed (Actor::kill in progress, or the kernel's
    clean-up after its deadlock report); any other death gets the generic key"""
    ls = [l.split() for l in out.splitlines()]
    if any(l and l[0] == "END" for l in ls):
        return "C07:crash"
    open_kill = False
    for l in ls:
        if len(l) >= 3 and l[2] == "X":
            open_kill = l[0] == "Q"
    reps = " ".join(str(r) for r in proc.sanitizer_reports(res.err))
    segv = res.rc in (139, -11) or "SEGV" in reps or ("BarrierImpl.cpp" in reps and "null pointer" in reps)
    if segv and (open_kill or "Deadlock detected" in res.err):
        return KNOWN_CRASH
    return "C07:crash"


def judge(ctx, fl, sc, res, out):
    w = {"flavour": fl, "scenario": sc}
    c = G.crashed(res)
    if c:
        key = crash_key(sc, res, out)
        ctx.violation(key, "barrier harness died%s: %s; history tail %r"
                      % (" while an actor blocked in Barrier::wait was being killed" if key != "C07:crash" else "", c, out.splitlines()[-8:]), w)
        return key
    f = O.check_bar(ctx, sc, out, w)
    if f == "skip":
        ctx.count("scenarios_not_judged(killed actor still issuing requests)")
        return None
    if not f:
        return None
    for k in ("groups", "waits", "blocked_waits", "rearmed", "groups_one_true", "groups_other_true", "release_in_arrival_order",
              "release_other_order", "kills", "kills_of_ungranted_waiters"):
        if f[k]:
            ctx.count("events.%s" % k, f[k])
    for k in ("killed_waiter_left_its_group", "killed_waiter_still_counted", "kill_semantics_not_distinguished"):
        if f.get(k):
            ctx.count("scenarios.%s" % k)
    if f["forever"]:
        ctx.count("scenarios_ending_with_an_incomplete_group")
    if f["blocked_waits"] and f["groups"] and any(s >= 2 for s in sc["sizes"]):
        ctx.nontrivial(sc)


def run(ctx):
    n = ctx.size(600, 20000)
    nk = ctx.size(24, 600)
    scs = DIRECTED + [G.gen_bar(ctx.sub_rng(i)) for i in range(n)]
    kills = [G.gen_bar(ctx.sub_rng(1000000 + i), kills=True) for i in range(nk)]
    ctx.sample(DIRECTED[1])
    ctx.sample(scs[len(DIRECTED)])
    ctx.sample(KILLS[4])
    for fl in ("hooks", "asan"):
        G.exe(fl)
    na = len(DIRECTED) + max(53, n // 10)
    ak = KILLS + kills[: max(8, nk // 10)]
    G.run_many(ctx, [
        ("asan", scs[:na], 60),
        # one sanitized process for all the kill scenarios, after a probe: while the known crash is open only its minimal witness is run
        ("asan", ak, len(ak), ([KILLS[2]], KNOWN_CRASH)),
        ("hooks", scs, 20),
        ("hooks", KILLS, 1),
        ("hooks", kills, 4),
    ], lambda fl, sc, res, out: judge(ctx, fl, sc, res, out))


def replay(ctx, w):
    res, out = G.run_one(w["flavour"], w["scenario"])
    ctx.evaluation()
    print(out)
    judge(ctx, w["flavour"], w["scenario"], res, out)
