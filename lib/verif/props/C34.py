"""C34 RMA windows behave like shared memory under their locks."""
import os
import random
import shutil
import tempfile

from verif import build, core
from verif.gen import mpi
from verif.gen import rma as G
from verif.oracles import rma as O

META = {
    "id": "C34", "engine": "E5 smpi programs", "engine_path": "harness/mpi/rma.c",
    "engine_kind": "generated one-sided MPI programs interpreted by a C harness under the real smpirun/SMPI, replayed by a sequential Python model",
    "level": "exploration",
    "technique": "sequential reference model of the window memories; conflict-free fence/PSCW epochs compared element by element, "
                 "lock epochs checked for serialisability (search for ONE total order of the exclusive sections / atomic calls explaining "
                 "every fetched value and the final memory)",
    "level_text": "Generated valid RMA programs (2-8 ranks, 1-3 windows made by Win_create / Win_allocate / Win_create_dynamic+attach, element "
                  "types int/unsigned/long long/double/unsigned char, per-rank displacement units, predefined, MPI_BYTE and small "
                  "contiguous/vector/indexed datatypes on either side, counts 0..4, empty windows). Phases: fence epochs (with NOPRECEDE/NOSUCCEED), "
                  "post/start/complete/wait with groups, exclusive-lock sections doing read-modify-write (Get+flush+Put, Rget/Rput, "
                  "Fetch_and_op, Get_accumulate, Compare_and_swap, nested locks), shared locks / lock_all with same-operator accumulates, "
                  "REPLACE/NO_OP, concurrent Compare_and_swap, flush/flush_local/flush_all, and exclusive sections racing with shared "
                  "accumulators. After every phase every rank dumps every window; every fetched buffer is printed whole. Every Get/"
                  "Get_accumulate/Fetch_and_op/CAS result, every window element, every result-buffer slot outside the type map and every "
                  "untouched element is compared with the model; lock phases must admit one serialisation. Simulated computation time is "
                  "switched off and staggering is scripted (usleep), so an execution is a deterministic function of the program.",
    "level_note": "Only outcomes MPI defines are generated (see verif.gen.rma); under shared locks only per-element atomicity and same-origin "
                  "ordering are demanded. Rget_accumulate, MPI_Win_test, shared-memory windows, info keys and assertions other than "
                  "NOPRECEDE/NOSUCCEED are not exercised; datatypes are limited to the shapes C30 found to be transferred correctly. One "
                  "platform (small_platform, 5 hosts). Hooks flavour only (see C33).",
    "rule": "case = one generated program = one smpirun; non-trivial = distinct programs in which at least two ranks issued RMA calls and "
            "every phase ran to its dumps and was judged",
    "assumptions": ["--cfg=smpi/simulate-computation:no (deterministic schedules; delays are scripted)"],
    "ready": True,
}

CFG = ["--cfg=smpi/simulate-computation:no"]
TIMEOUT = 600


# ------------------------------------------------------------------------------------------------ directed cases
def _rmw(rank, t, gid, c, flush):
    ops = [{"o": "LOCK", "w": 0, "lt": "x", "t": t},
           {"o": "GET", "id": gid, "w": 0, "t": t, "idx": 0, "tc": 1, "tt": "e", "oc": 1, "ot": "e", "rlen": 1},
           {"o": "FLUSH", "w": 0, "t": t},
           {"o": "PUT", "w": 0, "t": t, "idx": 0, "tc": 1, "tt": "e", "oc": 1, "ot": "e", "vals": [["@", gid, 0, c]]}]
    if flush:
        ops.append({"o": "FLUSH", "w": 0, "t": t})
    ops += [{"o": "UNLOCK", "w": 0, "t": t}, {"o": "SHOW", "id": gid}]
    return ops


def _win(np_, n=4):
    return [{"kind": "c", "et": "i", "iv": 5, "nelem": [n] * np_, "du": [4] * np_}]


def directed():
    """Small fixed programs: the classic uses of each synchronisation mode, and the minimal witness of every open finding."""
    D = []
    # counter incremented under exclusive locks, Put left to MPI_Win_unlock to complete
    D.append(("excl-rmw-unlock-completes", {"np": 3, "types": [], "wins": _win(3), "phases": [
        {"kind": "excl", "w": 0, "ranks": {str(r): _rmw(r, 0, 1, 100 * (r + 1), False) for r in range(3)}}]}))
    # the same with an explicit flush before the unlock
    D.append(("excl-rmw-flushed", {"np": 3, "types": [], "wins": _win(3), "phases": [
        {"kind": "excl", "w": 0, "ranks": {str(r): _rmw(r, 0, 1, 100 * (r + 1), True) for r in range(3)}}]}))
    # concurrent compare-and-swap under lock_all: exactly one winner
    cas = {}
    for r in range(4):
        cas[str(r)] = [{"o": "LOCKALL", "w": 0},
                       {"o": "CAS", "id": 1, "w": 0, "t": 2, "idx": 0, "new": 100 + r, "cmp": 2005},
                       {"o": "UNLOCKALL", "w": 0}, {"o": "SHOW", "id": 1}]
    D.append(("shared-cas-one-winner", {"np": 4, "types": [], "wins": _win(4), "phases": [{"kind": "shared", "w": 0, "ranks": cas}]}))
    # exclusive read-modify-write arriving while two ranks accumulate under shared locks
    mixed = {}
    for r, val in ((1, 1000), (3, 10000)):
        mixed[str(r)] = [{"o": "LOCK", "w": 0, "lt": "s", "t": 2}] + \
            [{"o": "ACC", "w": 0, "t": 2, "idx": 0, "tc": 1, "tt": "e", "oc": 1, "ot": "e", "op": "SUM", "vals": [val]} for _ in range(8)] + \
            [{"o": "UNLOCK", "w": 0, "t": 2}]
    mixed["0"] = [{"o": "DELAY", "us": 5000}] + _rmw(0, 2, 1, 100, True)
    D.append(("mixed-exclusive-vs-shared", {"np": 4, "types": [], "wins": _win(4), "phases": [{"kind": "mixed", "w": 0, "ranks": mixed}]}))
    # compare-and-swap then fetch of the same element by the same origin (MPI orders them), single exclusive section
    D.append(("excl-cas-then-fetch", {"np": 2, "types": [], "wins": _win(2), "phases": [{"kind": "excl", "w": 0, "ranks": {"0": [
        {"o": "LOCK", "w": 0, "lt": "x", "t": 1},
        {"o": "CAS", "id": 1, "w": 0, "t": 1, "idx": 0, "new": 111, "cmp": 1005},
        {"o": "FOP", "id": 2, "w": 0, "t": 1, "idx": 0, "op": "NO_OP", "val": 0},
        {"o": "FLUSH", "w": 0, "t": 1}, {"o": "UNLOCK", "w": 0, "t": 1}, {"o": "SHOW", "id": 1}, {"o": "SHOW", "id": 2}],
        "1": [{"o": "LOCK", "w": 0, "lt": "x", "t": 1}, {"o": "FOP", "id": 1, "w": 0, "t": 1, "idx": 1, "op": "SUM", "val": 1},
              {"o": "UNLOCK", "w": 0, "t": 1}, {"o": "SHOW", "id": 1}]}}]}))
    # Fetch_and_op(REPLACE) racing with Accumulate(REPLACE) under lock_all: per-element atomicity
    D.append(("shared-fop-vs-acc-replace", {"np": 3, "types": [], "wins": _win(3), "phases": [{"kind": "shared", "w": 0, "ranks": {
        "1": [{"o": "LOCKALL", "w": 0}, {"o": "DELAY", "us": 3000},
              {"o": "ACC", "w": 0, "t": 0, "idx": 0, "tc": 1, "tt": "e", "oc": 1, "ot": "e", "op": "REPLACE", "vals": [43]},
              {"o": "UNLOCKALL", "w": 0}],
        "2": [{"o": "LOCKALL", "w": 0}, {"o": "FOP", "id": 1, "w": 0, "t": 0, "idx": 0, "op": "REPLACE", "val": 85},
              {"o": "UNLOCKALL", "w": 0}, {"o": "SHOW", "id": 1}]}}]}))
    # accumulate through a vector datatype whose stride equals its block length
    va = {}
    for r in range(2):
        va[str(r)] = [{"o": "FENCE", "w": 0, "a": 0},
                      {"o": "ACC", "w": 0, "t": 1 - r, "idx": 0, "tc": 1, "tt": "0", "oc": 4, "ot": "e", "op": "SUM", "vals": [1, 2, 3, 4]},
                      {"o": "FENCE", "w": 0, "a": 0}]
    D.append(("fence-acc-contiguous-vector", {"np": 2, "types": [{"base": "i", "kind": "vector", "args": [2, 2, 2]}], "wins": _win(2, 6),
                                              "phases": [{"kind": "fence", "w": 0, "ranks": va}]}))
    # two fence epochs (no assertion), then both ranks expose and access with post/start/complete/wait
    fp = {str(r): [{"o": "FENCE", "w": 0, "a": 0},
                   {"o": "PUT", "w": 0, "t": 1 - r, "idx": 1, "tc": 1, "tt": "e", "oc": 1, "ot": "e", "vals": [600 + r]},
                   {"o": "FENCE", "w": 0, "a": 0}] for r in range(2)}
    pp = {str(r): [{"o": "POST", "w": 0, "g": [1 - r]}, {"o": "START", "w": 0, "g": [1 - r]},
                   {"o": "PUT", "w": 0, "t": 1 - r, "idx": 0, "tc": 1, "tt": "e", "oc": 1, "ot": "e", "vals": [700 + r]},
                   {"o": "COMPLETE", "w": 0}, {"o": "WAIT", "w": 0}] for r in range(2)}
    D.append(("fence-then-pscw", {"np": 2, "types": [], "wins": _win(2), "phases": [{"kind": "fence", "w": 0, "ranks": fp},
                                                                                 {"kind": "pscw", "w": 0, "ranks": pp}]}))
    # fence ring: put to the right neighbour, get from the left one, accumulate on rank 0
    ring = {}
    for r in range(4):
        ring[str(r)] = [{"o": "FENCE", "w": 0, "a": 4},
                        {"o": "PUT", "w": 0, "t": (r + 1) % 4, "idx": 1, "tc": 1, "tt": "e", "oc": 1, "ot": "e", "vals": [7000 + r]},
                        {"o": "GET", "id": 1, "w": 0, "t": (r + 3) % 4, "idx": 2, "tc": 1, "tt": "e", "oc": 1, "ot": "e", "rlen": 1},
                        {"o": "ACC", "w": 0, "t": 0, "idx": 3, "tc": 1, "tt": "e", "oc": 1, "ot": "e", "op": "SUM", "vals": [10 ** r]},
                        {"o": "FENCE", "w": 0, "a": 0},
                        {"o": "GET", "id": 2, "w": 0, "t": (r + 1) % 4, "idx": 1, "tc": 1, "tt": "e", "oc": 1, "ot": "e", "rlen": 1},
                        {"o": "FENCE", "w": 0, "a": 8}, {"o": "SHOW", "id": 1}, {"o": "SHOW", "id": 2}]
    D.append(("fence-ring", {"np": 4, "types": [], "wins": _win(4), "phases": [{"kind": "fence", "w": 0, "ranks": ring}]}))
    # PSCW: ranks 1..3 put into rank 0, which exposes; then the roles are swapped on the same window
    ps = {"0": [{"o": "POST", "w": 0, "g": [1, 2, 3]}, {"o": "WAIT", "w": 0}]}
    for r in (1, 2, 3):
        ps[str(r)] = [{"o": "START", "w": 0, "g": [0]},
                      {"o": "PUT", "w": 0, "t": 0, "idx": r, "tc": 1, "tt": "e", "oc": 1, "ot": "e", "vals": [8000 + r]},
                      {"o": "COMPLETE", "w": 0}]
    ps2 = {"0": [{"o": "START", "w": 0, "g": [1, 2, 3]}] +
           [{"o": "GET", "id": r, "w": 0, "t": r, "idx": 0, "tc": 1, "tt": "e", "oc": 1, "ot": "e", "rlen": 1} for r in (1, 2, 3)] +
           [{"o": "COMPLETE", "w": 0}] + [{"o": "SHOW", "id": r} for r in (1, 2, 3)]}
    for r in (1, 2, 3):
        ps2[str(r)] = [{"o": "POST", "w": 0, "g": [0]}, {"o": "WAIT", "w": 0}]
    D.append(("pscw-star", {"np": 4, "types": [], "wins": _win(4), "phases": [{"kind": "pscw", "w": 0, "ranks": ps},
                                                                             {"kind": "pscw", "w": 0, "ranks": ps2}]}))
    # fetch-and-op tickets under lock_all: every rank gets a distinct ticket
    tk = {}
    for r in range(5):
        tk[str(r)] = [{"o": "LOCKALL", "w": 0}] + \
            [{"o": "FOP", "id": k + 1, "w": 0, "t": 0, "idx": 1, "op": "SUM", "val": 1} for k in range(3)] + \
            [{"o": "UNLOCKALL", "w": 0}] + [{"o": "SHOW", "id": k + 1} for k in range(3)]
    D.append(("shared-fop-tickets", {"np": 5, "types": [], "wins": _win(5), "phases": [{"kind": "shared", "w": 0, "ranks": tk}]}))
    return D


# ------------------------------------------------------------------------------------------------ running
def execute(prog, exe, tmp, name):
    path = os.path.join(tmp, "%s.rma" % name)
    with open(path, "w") as f:
        f.write(O.script(prog))
    res = mpi.smpirun(exe, prog["np"], [path], timeout=TIMEOUT, cfg=CFG)
    os.unlink(path)
    return res


def assess(ctx, prog, res, label):
    """Judge one execution; report; return the Verdict (None if inconclusive)."""
    ctx.evaluation()
    if res.timed_out:
        ctx.inconclusive("smpirun watchdog (%ds)" % TIMEOUT)
        return None
    v = O.judge(prog, res.out, res.err, res.rc)
    for k, n in v.counts.items():
        ctx.count(k, n)
    for why in v.inconclusive:
        ctx.inconclusive(why)
    for key, what in v.violations:
        if "Deadlock" in res.err or "deadlock" in res.err:
            key = ":".join(key.split(":")[:2]) + ":deadlock"
        ctx.violation(key, "%s (np=%d, phases %s): %s" % (label, prog["np"], "+".join(p["kind"] for p in prog["phases"]), what),
                      {"prog": prog, "label": label})
    return v


def nontrivial(prog, v):
    active = set()
    for ph in prog["phases"]:
        for r, ops in ph["ranks"].items():
            if any(o["o"] in O.RMA_OPS for o in ops):
                active.add(r)
    return v is not None and not v.violations and not v.inconclusive and v.phases_ok == len(prog["phases"]) and len(active) >= 2


def run(ctx):
    n = ctx.size(110, 3000)
    exe = build.smpicc("mpi/rma.c", "hooks")
    tmp = tempfile.mkdtemp(prefix="verif-C34-")
    jobs = [("directed:" + name, prog) for name, prog in directed()]
    for i in range(n):
        rng = ctx.sub_rng(i)
        profile = "clean" if rng.random() < 0.7 else rng.choice(G.TRIGGERS)
        jobs.append(("gen:%d:%s" % (i, profile), G.generate(rng, profile)))

    def one(job):
        label, prog = job
        res = execute(prog, exe, tmp, label.replace(":", "_"))
        try:
            v = assess(ctx, prog, res, label)
        except O.BadProgram as e:
            raise core.HarnessFailure("%s: the generator produced a program the model refuses: %s" % (label, e))
        if nontrivial(prog, v):
            ctx.nontrivial(O.script(prog))
            ctx.count("programs_fully_judged")
            ctx.maximum("ranks", prog["np"])
            ctx.sample({"label": label, "np": prog["np"], "windows": [(w["kind"], w["et"]) for w in prog["wins"]],
                        "phases": [p["kind"] for p in prog["phases"]], "rma_calls": v.counts.get("rma_calls", 0)})
    try:
        ctx.pmap(one, jobs)
    finally:
        mpi.cleanup()
        shutil.rmtree(tmp, ignore_errors=True)


def replay(ctx, w):
    exe = build.smpicc("mpi/rma.c", "hooks")
    tmp = tempfile.mkdtemp(prefix="verif-C34-")
    try:
        res = execute(w["prog"], exe, tmp, "replay")
        assess(ctx, w["prog"], res, w.get("label", "replay"))
    finally:
        mpi.cleanup()
        shutil.rmtree(tmp, ignore_errors=True)
