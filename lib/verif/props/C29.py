"""C29 Every collective algorithm computes the MPI result."""
import os
import re
import shutil
import tempfile
import threading
import time

from verif import build, core, proc
from verif.gen import colls as G
from verif.gen import colls_findings as F

META = {
    "id": "C29", "engine": "E5 smpi programs", "engine_path": "harness/mpi/coll_check.c",
    "engine_kind": "self-checking MPI C program run under the real smpirun/SMPI, one run per (collective, algorithm, np, placement)",
    "level": "exploration",
    "technique": "in-program reference from the MPI definitions, byte-exact image comparison of every buffer (guards, holes of "
                 "derived types, gaps between blocks and send buffers included) on every rank; crashes attributed by isolating "
                 "single cases; every failure classified against a table of root causes (predicate over np/placement/count/"
                 "datatype/op/mode/root), anything outside the table is a violation",
    "level_text": "Every (collective, algorithm) pair listed by `smpirun -help-coll` (186), the four single-implementation "
                  "collectives (gatherv, scatterv, scan, alltoallw) and the sixteen non-blocking collectives are run on "
                  "communicators of 1..17 ranks under several rank placements: 42 (size, placement) configurations per algorithm "
                  "in the thorough tier (every size 1..17 with one rank per host; blocks of 2, 3 and 4, cyclic over 2 and 3 hosts, "
                  "reversed communicator on subsets), 2 of them per algorithm and seed in the quick tier (one power-of-two size, "
                  "one other, sizes <= 8) plus the minimal witness of every listed defect. Inside a run the harness loops over "
                  "roots, counts {0,1,2,np-1,np,np+1, two large non-multiples of np (+5 more in thorough)}, datatypes {int, double, "
                  "vector with a hole, 2int/double_int}, operators {SUM,PROD,MAX,MIN,BXOR,MAXLOC,MINLOC, user commutative}, "
                  "MPI_IN_PLACE, NULL root-only arguments, uniform/varying/sparse count vectors with packed or gapped reversed "
                  "displacements, late ranks, back-to-back calls without barrier, and compares whole buffer images (64-byte "
                  "guards around them, send and receive buffers pre-filled with different bytes) with the image the MPI "
                  "definition gives; MPI_Barrier/Ibarrier are judged on the simulated clock (nobody leaves before the last entered).",
    "level_note": "Hooks flavour only (SMPI's dlopen privatisation under ASan reports inside the sanitizer's sigaltstack "
                  "interceptor). Commutative operators only (as in the statement); non-commutative ones, MPI_Exscan, "
                  "inter-communicators and persistent collectives are not driven. An abort whose message states a precondition "
                  "of the algorithm that is indeed unmet (e.g. 'can't be used with non power of two number of processes') is "
                  "counted as a refusal, not as a violation (gen/colls.py REFUSALS). A run stopped by the wall-clock watchdog, or "
                  "that could not load libsimgrid (concurrent rebuild), is inconclusive. A run in which every rank compared every "
                  "buffer and SimGrid then reports communications that nobody completed is recorded "
                  "(units_leaving_communications_behind) but is not a violation of this property. The predicates of the rows "
                  "of selector algorithms (ompi, mpich, mvapich2, impi, automatic) are those of the algorithms they delegate to, "
                  "not narrowed to the size ranges of their decision tables.",
    "rule": "case = one collective call (collective, mode, root, count pattern, count, datatype, operator, data seed, late rank); "
            "non-trivial = distinct (collective, algorithm, np-class>1, placement-class, count-class other than 0, datatype-class, "
            "mode) whose cases were compared on every rank of a run that reached its end",
    "assumptions": ["only the listed count/datatype/operator values are driven; the quick tier visits 2 of the 42 (size, placement) "
                    "configurations of each algorithm per seed (sizes <= 8) with a stratified sample of 64 calls per collective "
                    "(thorough: all 42, a stratified sample of 128 calls per collective, 64 for the sizes other than 1,2,3,4,5,7,8,12,16)",
                    "the simulated platform is one homogeneous cluster; placements: one rank per host, blocks of 2, 3 or 4 ranks per "
                    "host, cyclic over 2 or 3 hosts, and a communicator with reversed rank order",
                    "cases in the class of a listed root cause (gen/colls_findings.py) are run apart from the others; of the "
                    "classes that crash only a few representatives are run"],
    "ready": True,
}

WATCHDOG = 300
ISOLATED_WATCHDOG = 150
MAX_RERUNS = 10
AUDIT = bool(os.environ.get("C29_AUDIT"))
# oracle self-test: C29_SELFTEST_FLIP=<i> makes the harness flip one bit of the expected image of case <i> of every run (on the
# last rank): the check must then report a wrong-result violation for that case (never set in a real run)
SELFTEST_FLIP = int(os.environ["C29_SELFTEST_FLIP"]) if os.environ.get("C29_SELFTEST_FLIP") else None
CASELOG = os.environ.get("C29_CASELOG")      # development aid: one line per evaluated case: unit np layout | case | ok or kind
_caselog_lock = threading.Lock()


def caselog(unit, np, layout, case, status):
    if CASELOG:
        with _caselog_lock:
            with open(CASELOG, "a") as f:
                f.write("%s %d %s | %s | %s\n" % (uname(unit), np, layout, G.case_line(case), status))


class Env:
    def __init__(self):
        self.dir = tempfile.mkdtemp(prefix="verif-C29-")
        self.exe = build.smpicc("mpi/coll_check.c", "hooks")
        self.smpirun = build.smpirun("hooks")
        self.plat = os.path.join(self.dir, "plat.xml")
        with open(self.plat, "w") as f:
            f.write(G.PLATFORM_XML)
        self._hf = {}
        self._lock = threading.Lock()
        self._n = 0

    def hostfile(self, layout, np):
        with self._lock:
            key = (layout, np)
            if key not in self._hf:
                p = os.path.join(self.dir, "hf-%s-%d" % (layout, np))
                with open(p, "w") as f:
                    f.write("\n".join(G.hostfile_lines(layout, np)) + "\n")
                self._hf[key] = p
            return self._hf[key]

    def casefile(self, cases):
        with self._lock:
            self._n += 1
            p = os.path.join(self.dir, "cases-%d" % self._n)
        with open(p, "w") as f:
            f.write("\n".join(G.case_line(c) for c in cases) + "\n")
        return p

    def close(self):
        shutil.rmtree(self.dir, ignore_errors=True)


def all_units(env):
    """[(collective-table or pseudo collective, algorithm, [calls], variant)]"""
    res = proc.run([env.smpirun, "-help-coll"], timeout=120)
    pairs = G.parse_help_coll(res.out + "\n" + res.err)
    if len(pairs) < 100:
        raise core.HarnessFailure("smpirun -help-coll lists only %d pairs: %s" % (len(pairs), res.brief()))
    units = []
    for coll, algo in pairs:
        if coll not in G.TABLE_CALLS:
            raise core.HarnessFailure("collective %s of -help-coll is unknown to the generator" % coll)
        units.append((coll, algo, G.TABLE_CALLS[coll], "blocking"))
    for coll in G.FIXED:
        units.append((coll, "fixed", [coll], "blocking"))
    for coll in G.NBC:
        units.append(("i" + coll, "nbc", [coll], "nbc"))
    return units


def uname(unit):
    return "%s/%s" % (unit[0], unit[1])


RUNS_PER_UNIT = {}


def execute(env, unit, np, layout, cases, sync=False, timeout=WATCHDOG):
    coll, algo, _calls, _variant = unit
    with _caselog_lock:
        RUNS_PER_UNIT[uname(unit)] = RUNS_PER_UNIT.get(uname(unit), 0) + 1
    cmd = [env.smpirun, "-np", str(np), "-hostfile", env.hostfile(layout, np), "-platform", env.plat,
           "--cfg=smpi/host-speed:1Gf", "--cfg=smpi/simulate-computation:no", "--log=root.thres:error"]
    if algo not in ("fixed", "nbc"):
        cmd.append("--cfg=smpi/%s:%s" % (coll, algo))
    cf = env.casefile(cases)
    cmd += [env.exe, cf]
    if sync:
        cmd.append("sync")
    if layout == "rev":
        cmd.append("rev")
    if SELFTEST_FLIP is not None:
        cmd.append("flip=%d" % SELFTEST_FLIP)
    res = proc.run(cmd, timeout=timeout)
    for attempt in range(4):
        # libsimgrid.so being relinked by a concurrent build (other checks share the build tree): not a result
        # ... or the run was killed from outside (SIGKILL/SIGTERM: another agent cleaning up "its" smpirun processes)
        if res.timed_out or not (res.rc in (127, -9, -15, 137, 143) or INFRA_RE.search(res.err or "") or
                                 INFRA_RE.search(res.out or "") or KILLED_RE.search(res.out or "")):
            break
        time.sleep(15 * (attempt + 1))
        build.ensure("hooks")
        res = proc.run(cmd, timeout=timeout)
    else:
        res.timed_out = True        # still no usable library: inconclusive, never a violation
    try:
        os.unlink(cf)
    except OSError:
        pass
    return res


INFRA_RE = re.compile(r"error while loading shared libraries|cannot open shared object file|No such file or directory.*smpimain|"
                      r"smpimain: not found|Text file busy")
KILLED_RE = re.compile(r"Execution failed with code (137|143)\b")
BAD_RE = re.compile(r"^BAD (\d+) rank=(\d+) kind=([\w-]+)(.*)$")
SIG_NAMES = {11: "SIGSEGV", 8: "SIGFPE", 6: "abort", 7: "SIGBUS"}
HEAP_RE = re.compile(r"corrupted|double free|invalid next size|invalid pointer|munmap_chunk|malloc\(\):|free\(\):|"
                     r"malloc_consolidate|realloc\(\):")


def parse(res, np):
    """-> dict(complete, alldone, bads=[(idx, rank, kind, rest)], crash=(sig, [cur]) or None, nbytes, harness=msg or None)"""
    o = {"bads": [], "crash": None, "done": 0, "ncases": 0, "nbytes": 0, "harness": None}
    for line in res.out.splitlines():
        m = BAD_RE.match(line)
        if m:
            o["bads"].append((int(m.group(1)), int(m.group(2)), m.group(3), m.group(4).strip()))
        elif line.startswith("CRASH "):
            mm = re.match(r"CRASH sig=(\d+) cur=([-\d,]*)", line)
            if mm:
                o["crash"] = (int(mm.group(1)), [int(x) for x in mm.group(2).split(",") if x])
        elif line.startswith("DONE "):
            mm = re.match(r"DONE rank=(\d+) cases=(\d+) bytes=(\d+) bad=(\d+)", line)
            if mm:
                o["done"] += 1
                o["ncases"] = max(o["ncases"], int(mm.group(2)))
                o["nbytes"] += int(mm.group(3))
        elif line.startswith("HARNESS "):
            o["harness"] = line
    o["alldone"] = o["done"] == np          # every rank compared every buffer of every case
    o["complete"] = o["alldone"] and res.rc == 0
    return o


def failure_kind(res, p):
    """Kind of a run that did not reach its end."""
    err = res.err or ""
    if "Deadlock detected" in err:
        return "deadlock"
    if HEAP_RE.search(err):
        return "heap-corruption"
    if p["crash"]:
        return SIG_NAMES.get(p["crash"][0], "sig%d" % p["crash"][0])
    if res.signal:
        return SIG_NAMES.get(res.signal, "sig%d" % res.signal)
    m = re.search(r"Execution failed with code (\d+)", (res.out or "") + err)
    code = int(m.group(1)) if m else res.rc
    # SimGrid's own handlers: 139 = SIGSEGV, 134 = abort; the harness' handler exits with 70 + signal
    if code == 139:
        return "SIGSEGV"
    if code == 134:
        return "abort"
    if code is not None and 70 < code < 70 + 32:
        return SIG_NAMES.get(code - 70, "sig%d" % (code - 70))
    return "exit%s" % code


def err_excerpt(res, n=6):
    lines = [l for l in (res.err or "").splitlines() if l.strip() and "Switch to algorithm" not in l]
    keep = [l for l in lines if re.search(r"what\(\)|invalid_argument|Assertion|assert|xbt_die|Deadlock|exception|error|corrupt|free\(",
                                          l, re.I)]
    return " | ".join((keep or lines)[:n])[:700]


class Runner:
    """Evaluates one (unit, np, layout): runs the case list, reports wrong buffers, isolates crashes, goes on after them."""

    def __init__(self, ctx, env):
        self.ctx, self.env = ctx, env
        self.leftover = set()
        self.audit = {}
        self._alock = threading.Lock()

    # ---- keys ------------------------------------------------------------------------------------------------------
    def key(self, unit, np, layout, case, kind):
        f = F.attribute(uname(unit), np, layout, case, kind)
        if f is not None:
            return f.key(uname(unit))
        return "C29:%s:np=%s:lay=%s:%s:%s" % (uname(unit), G.np_class(np), G.lay_class(layout), G.case_class(case, np), kind)

    def witness(self, unit, np, layout, cases):
        return {"unit": list(unit[:2]), "calls": unit[2], "variant": unit[3], "np": np, "layout": layout,
                "cases": [G.case_line(c) for c in cases]}

    def what(self, unit, np, layout, case, text):
        return "%s np=%d layout=%s case [%s]: %s" % (uname(unit), np, layout, G.case_line(case), text)

    def note_audit(self, unit, np, layout, case, failed):
        if not AUDIT:
            return
        f = F.assign(uname(unit), np, layout, case)
        if f is None:
            return
        with self._alock:
            a = self.audit.setdefault(f.key(uname(unit)), {"failed": 0, "passed": 0, "passed_examples": []})
            a["failed" if failed else "passed"] += 1
            if not failed and len(a["passed_examples"]) < 6:
                a["passed_examples"].append("np=%d %s [%s]" % (np, layout, G.case_line(case)))

    # ---- wrong buffers of calls that returned ----------------------------------------------------------------------
    def report_bads(self, unit, np, layout, cases, p, seen):
        byidx = {c["idx"]: c for c in cases}
        refused = set()
        for idx, rank, kind, rest in p["bads"]:
            c = byidx.get(idx)
            if c is None:
                continue
            if kind == "rc":
                kind = "error-return"
                if G.match_refusal(unit[0], unit[1], np, layout, c, "error-return %s" % rest):
                    if idx not in refused:
                        refused.add(idx)
                        self.ctx.count("explicit_refusals")
                    continue
            caselog(unit, np, layout, c, kind)
            k = self.key(unit, np, layout, c, kind)
            if k in seen:
                continue
            seen.add(k)
            self.ctx.count("wrong_buffers_or_codes")
            w = self.witness(unit, np, layout, [c])
            w["context"] = [G.case_line(x) for x in cases if x["idx"] <= idx][-400:]
            self.ctx.violation(k, self.what(unit, np, layout, c, "rank %d %s %s" % (rank, kind, rest)), w)
        return refused

    def credit(self, unit, np, layout, cases, p, refused=()):
        ctx = self.ctx
        ctx.evaluation(len(cases))
        ctx.count("cases_compared", len(cases) - len(refused))
        ctx.count("bytes_compared", p["nbytes"])
        badidx = {b[0] for b in p["bads"]}
        for c in cases:
            self.note_audit(unit, np, layout, c, c["idx"] in badidx)
            if c["idx"] not in badidx:
                caselog(unit, np, layout, c, "refused" if c["idx"] in refused else "ok")
            if np > 1 and c["idx"] not in badidx and G.count_class(c, np) != "0":
                ctx.nontrivial("%s:%s:%s:%s:%s" % (uname(unit), G.np_class(np), G.lay_class(layout), c["coll"],
                                                   G.case_class(c, np)))

    # ---- one case alone --------------------------------------------------------------------------------------------
    def single(self, unit, np, layout, case, seen):
        """Runs one case alone. Returns 'ok', 'refused', 'failed' or 'inconclusive'."""
        ctx = self.ctx
        res = execute(self.env, unit, np, layout, [case], timeout=ISOLATED_WATCHDOG)
        ctx.count("single_case_runs")
        if res.timed_out:
            ctx.inconclusive("watchdog on a single case of %s" % uname(unit))
            return "inconclusive"
        p = parse(res, np)
        refused = self.report_bads(unit, np, layout, [case], p, seen)
        if p["complete"] or (p["alldone"] and failure_kind(res, p) == "deadlock"):
            if not p["complete"]:
                self.note_leftover(unit, np, layout)
            self.credit(unit, np, layout, [case], p, refused)
            return "ok"
        if G.match_refusal(unit[0], unit[1], np, layout, case, res.err or ""):
            ctx.count("explicit_refusals")
            return "refused"
        kind = failure_kind(res, p) + ("+at-exit" if p["alldone"] else "")
        ctx.count("runs_not_reaching_end")
        ctx.evaluation()
        self.note_audit(unit, np, layout, case, True)
        caselog(unit, np, layout, case, kind)
        ctx.violation(self.key(unit, np, layout, case, kind), self.what(unit, np, layout, case, "%s; %s" % (kind, err_excerpt(res))),
                      self.witness(unit, np, layout, [case]))
        return "failed"

    def note_leftover(self, unit, np, layout):
        # every buffer of every rank was compared; the engine then complains about communications that nobody completed.
        # The statement is about the buffers: this is recorded in the evidence but is not a violation of C29.
        self.ctx.count("runs_ending_with_leftover_communications")
        with self.env._lock:
            self.leftover.add(uname(unit))

    def min_failing_prefix(self, unit, np, layout, cases, fails):
        """Smallest prefix of cases for which fails(prefix) (binary search; the whole list is known to fail)."""
        lo, hi = 1, len(cases)
        while lo < hi:
            mid = (lo + hi) // 2
            r = fails(cases[:mid])
            if r is None:
                return None
            if r:
                hi = mid
            else:
                lo = mid + 1
        return cases[:lo]

    # ---- a whole list ----------------------------------------------------------------------------------------------
    def evaluate(self, unit, np, layout, cases):
        ctx = self.ctx
        seen = set()
        todo = list(cases)
        for _ in range(MAX_RERUNS if not AUDIT else 400):
            if not todo:
                return
            res = execute(self.env, unit, np, layout, todo)
            ctx.count("runs")
            if res.timed_out:
                ctx.inconclusive("smpirun watchdog %s np=%d %s" % (uname(unit), np, layout))
                return
            p = parse(res, np)
            if p["harness"]:
                raise core.HarnessFailure("%s (%s np=%d)" % (p["harness"], uname(unit), np))
            refused = self.report_bads(unit, np, layout, todo, p, seen)
            kind = None if p["complete"] else failure_kind(res, p)
            if p["alldone"] and kind == "deadlock":
                self.note_leftover(unit, np, layout)
                kind = None
            if kind is None:
                self.credit(unit, np, layout, todo, p, refused)
                return
            text = res.err or ""
            ref = G.match_refusal(unit[0], unit[1], np, layout, None, text)
            if ref and ref[0] == "run":
                ctx.count("explicit_refusals")
                ctx.count("cases_refused", len(todo))
                return
            cur = [x for x in (p["crash"][1] if p["crash"] else []) if x >= 0]
            lo = min(cur) if cur else None
            fcase, fstate = None, None
            if not p["alldone"]:
                # which of the cases the ranks were in fails alone ?
                byidx = {c["idx"]: c for c in todo}
                for idx in sorted(set(cur), key=lambda i: -cur.count(i)):
                    if idx in byidx:
                        st = self.single(unit, np, layout, byidx[idx], seen)
                        if st in ("failed", "refused"):
                            fcase, fstate = byidx[idx], st
                            break
            if fcase is None:
                # not reproducible alone, or the failure came after the last comparison: smallest failing prefix
                def fails(prefix):
                    r = execute(self.env, unit, np, layout, prefix)
                    ctx.count("runs")
                    if r.timed_out:
                        ctx.inconclusive("smpirun watchdog (prefix search) %s np=%d %s" % (uname(unit), np, layout))
                        return None
                    pp = parse(r, np)
                    return not (pp["complete"] or (pp["alldone"] and failure_kind(r, pp) == "deadlock"))
                upto = [c for c in todo if not cur or c["idx"] <= max(cur)] if not p["alldone"] else todo
                if upto is not todo:
                    r0 = fails(upto)
                    if r0 is None:
                        return
                    if not r0:
                        upto = todo
                prefix = self.min_failing_prefix(unit, np, layout, upto, fails)
                if prefix is None:
                    return
                fcase = prefix[-1]
                st = self.single(unit, np, layout, fcase, seen)
                if st in ("failed", "refused"):
                    fstate = st
                elif len(prefix) == 1:
                    ctx.inconclusive("failure of %s np=%d %s not reproduced by the failing case alone" % (uname(unit), np, layout))
                    return
                else:
                    r = execute(self.env, unit, np, layout, prefix)
                    ctx.count("runs")
                    pp = parse(r, np)
                    if pp["complete"] or r.timed_out:
                        ctx.inconclusive("failure of %s np=%d %s not reproduced by its smallest failing prefix" % (uname(unit), np, layout))
                        return
                    k2 = failure_kind(r, pp) + ("+at-exit" if pp["alldone"] else "") + ("+seq" if len(prefix) > 1 else "")
                    ctx.count("runs_not_reaching_end")
                    self.note_audit(unit, np, layout, fcase, True)
                    caselog(unit, np, layout, fcase, k2)
                    ctx.violation(self.key(unit, np, layout, fcase, k2),
                                  self.what(unit, np, layout, fcase, "%s after %d earlier calls; %s" % (k2, len(prefix) - 1,
                                                                                                     err_excerpt(r))),
                                  self.witness(unit, np, layout, prefix))
                    fstate = "failed"
                lo = None
            # go on with what was not evaluated yet, leaving out the class of the failing case
            cls = (G.case_class(fcase, np), fcase["coll"])
            if lo is not None:
                passed = [c for c in todo if c["idx"] < lo]
                ctx.evaluation(len(passed))
                ctx.count("cases_compared", len(passed))
            before = len(todo)
            todo = [c for c in todo if (lo is None or c["idx"] >= lo) and
                    ((G.case_class(c, np), c["coll"]) != cls if not AUDIT else c is not fcase)]
            if fstate == "refused":
                ctx.count("cases_refused", before - len(todo))
            else:
                ctx.count("cases_dropped_class_of_a_crash", before - len(todo))
        ctx.inconclusive("more than %d reruns for %s np=%d %s" % (MAX_RERUNS, uname(unit), np, layout))

    # ---- a job: the main run and the runs of the listed root-cause classes ------------------------------------------
    def job(self, unit, np, layout, cases):
        ctx = self.ctx
        groups, order = {}, []
        # cases for which the algorithm states an unmet precondition of its own (REFUSALS, scope "case"): one of each kind is
        # run alone to see the refusal; if it is indeed refused the others are not run (each would stop a whole run)
        expected, rest = {}, []
        for c in cases:
            r = G.expected_refusal(unit[0], unit[1], np, layout, c) if F.assign(uname(unit), np, layout, c) is None else None
            if r is None:
                rest.append(c)
            else:
                expected.setdefault(r, []).append(c)
        for r, cs in sorted(expected.items()):
            st = self.single(unit, np, layout, cs[0], set())
            if st == "refused":
                ctx.count("cases_refused", len(cs) - 1)
            else:
                rest += cs[1:]
        cases = rest
        for c in cases:
            f = F.assign(uname(unit), np, layout, c)
            if f not in groups:
                groups[f] = []
                order.append(f)
            groups[f].append(c)
        if None in groups:
            self.evaluate(unit, np, layout, groups[None])
        for f in order:
            if f is None:
                continue
            cs = groups[f]
            ctx.count("cases_in_a_listed_class", len(cs))
            if f.crash:
                # one by one: a few representatives (all of them when auditing the table); if the first one passes the
                # defect is gone (or the predicate is too wide) and the whole class is evaluated normally
                seen = set()
                st = self.single(unit, np, layout, cs[0], seen)
                if st == "ok" and not AUDIT:
                    self.evaluate(unit, np, layout, cs[1:])
                    continue
                reps = cs[1:5] if AUDIT else cs[1:(3 if ctx.tier == "thorough" else 1)]
                for c in reps:
                    self.single(unit, np, layout, c, seen)
                ctx.count("cases_skipped_class_of_a_listed_crash", len(cs) - 1 - len(reps))
            else:
                cap = len(cs) if (AUDIT or ctx.tier == "thorough") else 40
                self.evaluate(unit, np, layout, cs[:cap])
                ctx.count("cases_skipped_listed_class_over_quick_cap", len(cs) - min(cap, len(cs)))

    def directed(self, units_by_name):
        """The minimal witness of every listed root cause, whatever the seed."""
        jobs = []
        for f in F.FINDINGS:
            for u in f.units:
                w = f.witness_for(u)
                if w is not None and u in units_by_name:
                    jobs.append((f, units_by_name[u], w))

        def one(j):
            f, unit, (np, layout, cases) = j
            before = dict(self.ctx.known_hits)
            nv = len(self.ctx.violations)
            if len(cases) == 1:
                self.single(unit, np, layout, cases[0], set())
            else:
                self.evaluate(unit, np, layout, cases)
            self.ctx.count("directed_witness_runs")
        self.ctx.pmap(one, jobs)
        return len(jobs)


def cases_for(ctx, unit, np, layout):
    rng = ctx.sub_rng(unit[0], unit[1], np, layout)
    cases = []
    for call in unit[2]:
        limit = G.QUICK_CASES if ctx.tier == "quick" else (G.THOROUGH_CASES if np in G.REQUIRED_NP else G.THOROUGH_CASES // 2)
        cases += G.gen_cases(call, unit[3], np, rng, ctx.tier, limit=limit)
    return G._number(cases)


def jobs_for(ctx, env):
    units = all_units(env)
    only = os.environ.get("C29_ONLY")
    if only:
        units = [u for u in units if re.fullmatch(only, uname(u))]
    onp = os.environ.get("C29_NP")
    fixed = [(int(x.split(":")[0]), x.split(":")[1]) for x in onp.split(",")] if onp else None
    jobs = []
    for u in units:
        if fixed:
            cfgs = fixed
        elif ctx.tier == "quick":
            cfgs = G.quick_configs(ctx.sub_rng("cfg", u[0], u[1]))
        else:
            cfgs = G.thorough_configs()
        jobs += [(u, np, lay) for (np, lay) in cfgs]
    total = len(units) * len(G.thorough_configs())
    sc = float(os.environ.get("VERIF_SCALE", "1"))
    if sc < 1:
        r = ctx.sub_rng("scale")
        keep = max(1, int(len(jobs) * sc))
        jobs = r.sample(jobs, keep)
    # big communicators first: better packing of the thread pool
    jobs.sort(key=lambda j: -j[1])
    return units, jobs, total


def _keylog(ctx):
    """Development aid: C29_KEYLOG=<file> appends every reported key (listed or not) with its description."""
    path = os.environ.get("C29_KEYLOG")
    if not path:
        return
    orig, lock = ctx.violation, threading.Lock()

    def logged(key, what, witness):
        with lock:
            with open(path, "a") as f:
                f.write("%s\t%s\n" % (key, what.replace("\n", " ")[:600]))
        return orig(key, what, witness)
    ctx.violation = logged


def run(ctx):
    env = Env()
    _keylog(ctx)
    try:
        units, jobs, total = jobs_for(ctx, env)
        ctx.count("algorithm_pairs", len(units))
        runner = Runner(ctx, env)
        if not os.environ.get("C29_NO_DIRECTED"):
            runner.directed({uname(u): u for u in units})

        def one(job):
            unit, np, layout = job
            cases = cases_for(ctx, unit, np, layout)
            runner.job(unit, np, layout, cases)
            if np > 1:
                ctx.sample({"unit": uname(unit), "np": np, "layout": layout, "cases": len(cases),
                            "first": G.case_line(cases[0])})
        ctx.pmap(one, jobs)
        ctx.extra["matrix"] = {"algorithm_pairs": len(units), "configurations_per_pair_in_the_thorough_matrix": len(G.thorough_configs()),
                               "jobs_of_this_run": len(jobs), "share_of_the_matrix": round(len(jobs) / max(1, total), 4)}
        if runner.leftover:
            ctx.extra["units_leaving_communications_behind"] = sorted(runner.leftover)
        ctx.extra["smpirun_executions_top_units"] = dict(sorted(RUNS_PER_UNIT.items(), key=lambda kv: -kv[1])[:12])
        if AUDIT:
            ctx.extra["findings_audit"] = runner.audit
    finally:
        env.close()


def replay(ctx, w):
    env = Env()
    try:
        unit = (w["unit"][0], w["unit"][1], w["calls"], w["variant"])
        runner = Runner(ctx, env)
        cases = [G.parse_case(l) for l in w["cases"]]
        runner.evaluate(unit, w["np"], w["layout"], cases)
        if not ctx.violations and not ctx.known_hits and w.get("context"):
            runner.evaluate(unit, w["np"], w["layout"], [G.parse_case(l) for l in w["context"]])
    finally:
        env.close()
