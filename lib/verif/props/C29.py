"""C29 Every collective algorithm computes the MPI result."""
import os
import re
import shutil
import tempfile
import threading

from verif import build, proc
from verif.gen import colls as G

META = {
    "id": "C29", "engine": "E5 smpi programs", "engine_path": "harness/mpi/coll_check.c",
    "engine_kind": "self-checking MPI C program run under the real smpirun/SMPI, one run per (collective, algorithm, np, layout)",
    "level": "exploration",
    "technique": "in-program reference from the MPI definitions, byte-exact image comparison of every buffer (guards, holes of "
                 "derived types and send buffers included) on every rank; crashes attributed by isolating single cases",
    "level_text": "Every (collective, algorithm) pair listed by `smpirun -help-coll`, the four single-implementation collectives "
                  "(gatherv, scatterv, scan, alltoallw) and the sixteen non-blocking collectives are run on communicators of 1..17 "
                  "ranks (quick: a fixed sample of sizes) under several rank placements. Inside a run the harness loops over roots, "
                  "counts {0,1,2,np-1,np,np+1, two large non-multiples of np}, datatypes {int, double, vector with a hole, "
                  "2int/double_int}, operators {SUM,PROD,MAX,MIN,BXOR,MAXLOC,MINLOC,user commutative}, MPI_IN_PLACE, NULL "
                  "root-only arguments, late ranks, back-to-back calls without barrier, and compares whole buffer images "
                  "(64-byte guards around them) with the image the MPI definition gives. A failing run is reduced to a tuple "
                  "(collective, algorithm, np-class, layout-class, count-class, datatype-class, mode, failure kind).",
    "level_note": "Hooks flavour only (SMPI's dlopen privatisation under ASan reports inside the sanitizer's sigaltstack "
                  "interceptor). Commutative operators only (as in the statement); non-commutative ones, MPI_Exscan, "
                  "inter-communicators and persistent collectives are not driven. An abort whose message states a precondition "
                  "of the algorithm that is indeed unmet (e.g. 'can't be used with non power of two number of processes') is "
                  "counted as a refusal, not as a violation. A run stopped by the wall-clock watchdog is inconclusive.",
    "rule": "case = one collective call (collective, mode, root, count pattern, count, datatype, operator, data seed, late rank); "
            "non-trivial = distinct (collective, algorithm, np-class>1, layout-class, count-class other than 0, datatype-class, mode) "
            "whose cases were compared on every rank of a run that reached its end",
    "assumptions": ["only the listed count/datatype/operator values are driven; quick tier samples the communicator sizes",
                    "the simulated platform is one homogeneous cluster; placements: one rank per host, blocks of 2 or 4 ranks per "
                    "host, cyclic over 2 or 3 hosts, and a communicator with reversed rank order"],
    "ready": False,
}

QUICK_CONFIGS = [(1, "flat"), (2, "flat"), (3, "flat"), (5, "cyc2"), (6, "blk2"), (8, "flat")]
WATCHDOG = 240
ISOLATED_WATCHDOG = 120
MAX_RERUNS = 10


class Env:
    def __init__(self):
        self.dir = tempfile.mkdtemp(prefix="verif-C29-")
        self.exe = build.smpicc("mpi/coll_check.c", "hooks")
        self.smpirun = build.smpirun("hooks")
        self.plat = os.path.join(self.dir, "plat.xml")
        with open(self.plat, "w") as f:
            f.write(G.PLATFORM_XML)
        self._hf = {}
        self._lock = threading.Lock()
        self._n = 0

    def hostfile(self, layout, np):
        with self._lock:
            key = (layout, np)
            if key not in self._hf:
                p = os.path.join(self.dir, "hf-%s-%d" % (layout, np))
                with open(p, "w") as f:
                    f.write("\n".join(G.hostfile_lines(layout, np)) + "\n")
                self._hf[key] = p
            return self._hf[key]

    def casefile(self, cases):
        with self._lock:
            self._n += 1
            p = os.path.join(self.dir, "cases-%d" % self._n)
        with open(p, "w") as f:
            f.write("\n".join(G.case_line(c) for c in cases) + "\n")
        return p

    def close(self):
        shutil.rmtree(self.dir, ignore_errors=True)


def all_units(env):
    """[(collective-table or pseudo collective, algorithm, [calls], variant)]"""
    res = proc.run([env.smpirun, "-help-coll"], timeout=120)
    pairs = G.parse_help_coll(res.out + "\n" + res.err)
    if len(pairs) < 100:
        from verif import core
        raise core.HarnessFailure("smpirun -help-coll lists only %d pairs: %s" % (len(pairs), res.brief()))
    units = []
    for coll, algo in pairs:
        if coll not in G.TABLE_CALLS:
            from verif import core
            raise core.HarnessFailure("collective %s of -help-coll is unknown to the generator" % coll)
        units.append((coll, algo, G.TABLE_CALLS[coll], "blocking"))
    for coll in G.FIXED:
        units.append((coll, "fixed", [coll], "blocking"))
    for coll in G.NBC:
        units.append(("i" + coll, "nbc", [coll], "nbc"))
    return units


def execute(env, unit, np, layout, cases, sync=False, timeout=WATCHDOG):
    coll, algo, _calls, _variant = unit
    cmd = [env.smpirun, "-np", str(np), "-hostfile", env.hostfile(layout, np), "-platform", env.plat,
           "--cfg=smpi/host-speed:1Gf", "--cfg=smpi/simulate-computation:no", "--log=root.thres:error"]
    if algo not in ("fixed", "nbc"):
        cmd.append("--cfg=smpi/%s:%s" % (coll, algo))
    cf = env.casefile(cases)
    cmd += [env.exe, cf]
    if sync:
        cmd.append("sync")
    if layout == "rev":
        cmd.append("rev")
    res = proc.run(cmd, timeout=timeout)
    try:
        os.unlink(cf)
    except OSError:
        pass
    return res


BAD_RE = re.compile(r"^BAD (\d+) rank=(\d+) kind=([\w-]+)(.*)$")
SIG_NAMES = {11: "SIGSEGV", 8: "SIGFPE", 6: "abort", 7: "SIGBUS"}
HEAP_RE = re.compile(r"corrupted|double free|invalid next size|invalid pointer|munmap_chunk|malloc\(\):|free\(\):|"
                     r"malloc_consolidate|realloc\(\):")
# kinds of a run that does not reach its end (as opposed to a wrong buffer of a call that returned)
CRASH_KINDS = ("SIGSEGV", "SIGFPE", "SIGBUS", "abort", "heap-corruption", "deadlock", "sig", "exit")


def is_crash_kind(kind):
    return kind.startswith(CRASH_KINDS)


def parse(res, np):
    """-> dict(complete, alldone, bads=[(idx, rank, kind, rest)], crash=(sig, [cur]) or None, nbytes, harness=msg or None)"""
    o = {"bads": [], "crash": None, "done": 0, "ncases": 0, "nbytes": 0, "harness": None}
    for line in res.out.splitlines():
        m = BAD_RE.match(line)
        if m:
            o["bads"].append((int(m.group(1)), int(m.group(2)), m.group(3), m.group(4).strip()))
        elif line.startswith("CRASH "):
            mm = re.match(r"CRASH sig=(\d+) cur=([-\d,]*)", line)
            if mm:
                o["crash"] = (int(mm.group(1)), [int(x) for x in mm.group(2).split(",") if x])
        elif line.startswith("DONE "):
            mm = re.match(r"DONE rank=(\d+) cases=(\d+) bytes=(\d+) bad=(\d+)", line)
            if mm:
                o["done"] += 1
                o["ncases"] = max(o["ncases"], int(mm.group(2)))
                o["nbytes"] += int(mm.group(3))
        elif line.startswith("HARNESS "):
            o["harness"] = line
    o["alldone"] = o["done"] == np          # every rank compared every buffer of every case
    o["complete"] = o["alldone"] and res.rc == 0
    return o


def failure_kind(res, p):
    """Kind of a run that did not reach its end."""
    err = res.err or ""
    if "Deadlock detected" in err:
        return "deadlock"
    if HEAP_RE.search(err):
        return "heap-corruption"
    if p["crash"]:
        return SIG_NAMES.get(p["crash"][0], "sig%d" % p["crash"][0])
    if res.signal:
        return SIG_NAMES.get(res.signal, "sig%d" % res.signal)
    return "exit%s" % res.rc


def err_excerpt(res, n=6):
    lines = [l for l in (res.err or "").splitlines() if l.strip() and "Switch to algorithm" not in l]
    keep = [l for l in lines if re.search(r"what\(\)|invalid_argument|Assertion|assert|xbt_die|Deadlock|exception|error|corrupt|free\(",
                                          l, re.I)]
    return " | ".join((keep or lines)[:n])[:700]


class Runner:
    """Evaluates one (unit, np, layout): runs the case list, reports wrong buffers, isolates crashes, goes on after them."""

    def __init__(self, ctx, env):
        self.ctx, self.env = ctx, env
        self.leftover = set()
        self.known_crash = {}
        for k in getattr(ctx, "_known", []):
            if k.get("status") != "open":
                continue
            pat = k.get("key") or k.get("key_glob")
            f = pat.split(":")
            if len(f) >= 3 and is_crash_kind(f[-1]):
                self.known_crash.setdefault(f[1], []).append((pat, f[-1]))

    def key(self, unit, np, layout, case, kind):
        return "C29:%s/%s:np=%s:lay=%s:%s:%s" % (unit[0], unit[1], G.np_class(np), G.lay_class(layout), G.case_class(case, np), kind)

    def witness(self, unit, np, layout, cases):
        return {"unit": list(unit[:2]), "calls": unit[2], "variant": unit[3], "np": np, "layout": layout,
                "cases": [G.case_line(c) for c in cases]}

    def what(self, unit, np, layout, case, text):
        return "%s/%s np=%d layout=%s case [%s]: %s" % (unit[0], unit[1], np, layout, G.case_line(case), text)

    # ---- wrong buffers of calls that returned ----------------------------------------------------------------------
    def report_bads(self, unit, np, layout, cases, p, seen):
        byidx = {c["idx"]: c for c in cases}
        refused = set()
        for idx, rank, kind, rest in p["bads"]:
            c = byidx.get(idx)
            if c is None:
                continue
            if kind == "rc":
                kind = "error-return"
                if G.match_refusal(unit[0], unit[1], np, layout, c, "error-return %s" % rest):
                    if idx not in refused:
                        refused.add(idx)
                        self.ctx.count("explicit_refusals")
                    continue
            k = self.key(unit, np, layout, c, kind)
            if k in seen:
                continue
            seen.add(k)
            self.ctx.count("wrong_buffers_or_codes")
            w = self.witness(unit, np, layout, [c])
            w["context"] = [G.case_line(x) for x in cases if x["idx"] <= idx][-400:]
            self.ctx.violation(k, self.what(unit, np, layout, c, "rank %d %s %s" % (rank, kind, rest)), w)
        return refused

    def credit(self, unit, np, layout, cases, p, refused=()):
        ctx = self.ctx
        ctx.evaluation(len(cases))
        ctx.count("cases_compared", len(cases) - len(refused))
        ctx.count("bytes_compared", p["nbytes"])
        if np > 1:
            badidx = {b[0] for b in p["bads"]}
            for c in cases:
                if c["idx"] not in badidx and G.count_class(c, np) != "0":
                    ctx.nontrivial("%s/%s:%s:%s:%s:%s" % (unit[0], unit[1], G.np_class(np), G.lay_class(layout), c["coll"],
                                                          G.case_class(c, np)))

    # ---- one case alone --------------------------------------------------------------------------------------------
    def single(self, unit, np, layout, case, seen, expected=None):
        """Runs one case alone. Returns 'ok', 'refused', 'failed' or 'inconclusive'."""
        ctx = self.ctx
        res = execute(self.env, unit, np, layout, [case], timeout=ISOLATED_WATCHDOG)
        ctx.count("single_case_runs")
        if res.timed_out:
            ctx.inconclusive("watchdog on a single case of %s/%s" % (unit[0], unit[1]))
            return "inconclusive"
        p = parse(res, np)
        refused = self.report_bads(unit, np, layout, [case], p, seen)
        if p["complete"] or (p["alldone"] and failure_kind(res, p) == "deadlock"):
            if not p["complete"]:
                self.note_leftover(unit, np, layout)
            self.credit(unit, np, layout, [case], p, refused)
            return "ok"
        if G.match_refusal(unit[0], unit[1], np, layout, case, res.err or ""):
            ctx.count("explicit_refusals")
            return "refused"
        kind = failure_kind(res, p) + ("+at-exit" if p["alldone"] else "")
        ctx.count("runs_not_reaching_end")
        ctx.evaluation()
        ctx.violation(self.key(unit, np, layout, case, kind), self.what(unit, np, layout, case, "%s; %s" % (kind, err_excerpt(res))),
                      self.witness(unit, np, layout, [case]))
        return "failed"

    def note_leftover(self, unit, np, layout):
        # every buffer of every rank was compared; the engine then complains about communications that nobody completed.
        # The statement is about the buffers: this is recorded in the evidence but is not a violation of C29.
        self.ctx.count("runs_ending_with_leftover_communications")
        with self.env._lock:
            self.leftover.add("%s/%s" % (unit[0], unit[1]))

    def split_known(self, unit, np, layout, cases):
        """Cases whose class is covered by an open known finding of a crashing kind are not left in the main run (every such
        crash costs two more runs): one representative per finding is run alone (so that the finding is re-found), the
        others are skipped and counted."""
        import fnmatch
        pats = self.known_crash.get("%s/%s" % (unit[0], unit[1]), [])
        if not pats:
            return cases, {}
        main, groups = [], {}
        for c in cases:
            hit = None
            for pat, kind in pats:
                if fnmatch.fnmatchcase(self.key(unit, np, layout, c, kind), pat):
                    hit = pat
                    break
            if hit is None:
                main.append(c)
            else:
                groups.setdefault(hit, []).append(c)
        return main, groups

    def min_failing_prefix(self, unit, np, layout, cases, fails):
        """Smallest prefix of cases for which fails(prefix) (binary search; the whole list is known to fail)."""
        lo, hi = 1, len(cases)
        while lo < hi:
            mid = (lo + hi) // 2
            r = fails(cases[:mid])
            if r is None:
                return None
            if r:
                hi = mid
            else:
                lo = mid + 1
        return cases[:lo]

    # ---- a whole list ----------------------------------------------------------------------------------------------
    def evaluate(self, unit, np, layout, cases):
        ctx = self.ctx
        seen = set()
        todo, groups = self.split_known(unit, np, layout, cases)
        for pat, grp in sorted(groups.items()):
            self.single(unit, np, layout, grp[0], seen)
            ctx.count("cases_skipped_class_of_a_known_crash", len(grp) - 1)
        for _ in range(MAX_RERUNS):
            if not todo:
                return
            res = execute(self.env, unit, np, layout, todo)
            ctx.count("runs")
            if res.timed_out:
                ctx.inconclusive("smpirun watchdog %s/%s np=%d %s" % (unit[0], unit[1], np, layout))
                return
            p = parse(res, np)
            if p["harness"]:
                from verif import core
                raise core.HarnessFailure("%s (%s/%s np=%d)" % (p["harness"], unit[0], unit[1], np))
            refused = self.report_bads(unit, np, layout, todo, p, seen)
            kind = None if p["complete"] else failure_kind(res, p)
            if p["alldone"] and kind == "deadlock":
                self.note_leftover(unit, np, layout)
                kind = None
            if kind is None:
                self.credit(unit, np, layout, todo, p, refused)
                return
            text = res.err or ""
            ref = G.match_refusal(unit[0], unit[1], np, layout, None, text)
            if ref and ref[0] == "run":
                ctx.count("explicit_refusals")
                ctx.count("cases_refused", len(todo))
                return
            cur = [x for x in (p["crash"][1] if p["crash"] else []) if x >= 0]
            lo = min(cur) if cur else None
            fcase, fstate = None, None
            if not p["alldone"]:
                # which of the cases the ranks were in fails alone ?
                byidx = {c["idx"]: c for c in todo}
                for idx in sorted(set(cur), key=lambda i: -cur.count(i)):
                    if idx in byidx:
                        st = self.single(unit, np, layout, byidx[idx], seen)
                        if st in ("failed", "refused"):
                            fcase, fstate = byidx[idx], st
                            break
            if fcase is None:
                # not reproducible alone, or the failure came after the last comparison: smallest failing prefix
                def fails(prefix):
                    r = execute(self.env, unit, np, layout, prefix)
                    ctx.count("runs")
                    if r.timed_out:
                        ctx.inconclusive("smpirun watchdog (prefix search) %s/%s np=%d %s" % (unit[0], unit[1], np, layout))
                        return None
                    pp = parse(r, np)
                    return not (pp["complete"] or (pp["alldone"] and failure_kind(r, pp) == "deadlock"))
                upto = [c for c in todo if not cur or c["idx"] <= max(cur)] if not p["alldone"] else todo
                if upto is not todo and not fails(upto):
                    upto = todo
                prefix = self.min_failing_prefix(unit, np, layout, upto, fails)
                if prefix is None:
                    return
                fcase = prefix[-1]
                st = self.single(unit, np, layout, fcase, seen) if len(prefix) > 1 else "seq"
                if st in ("failed", "refused"):
                    fstate = st
                else:
                    r = execute(self.env, unit, np, layout, prefix)
                    ctx.count("runs")
                    pp = parse(r, np)
                    k2 = failure_kind(r, pp) + ("+at-exit" if pp["alldone"] else "") + ("+seq" if len(prefix) > 1 else "")
                    ctx.count("runs_not_reaching_end")
                    ctx.violation(self.key(unit, np, layout, fcase, k2),
                                  self.what(unit, np, layout, fcase, "%s after %d earlier calls; %s" % (k2, len(prefix) - 1,
                                                                                                     err_excerpt(r))),
                                  self.witness(unit, np, layout, prefix))
                    fstate = "failed"
                lo = None
            # go on with what was not evaluated yet, leaving out the class of the failing case
            cls = (G.case_class(fcase, np), fcase["coll"])
            if lo is not None:
                passed = [c for c in todo if c["idx"] < lo]
                ctx.evaluation(len(passed))
                ctx.count("cases_compared", len(passed))
            before = len(todo)
            todo = [c for c in todo if (lo is None or c["idx"] >= lo) and (G.case_class(c, np), c["coll"]) != cls]
            if fstate == "refused":
                ctx.count("cases_refused", before - len(todo))
            else:
                ctx.count("cases_dropped_class_of_a_crash", before - len(todo))
        ctx.inconclusive("more than %d reruns for %s/%s np=%d %s" % (MAX_RERUNS, unit[0], unit[1], np, layout))


def configs_for(ctx):
    if ctx.tier == "quick":
        return list(QUICK_CONFIGS)
    out = []
    for np in range(1, 18):
        out.append((np, "flat"))
        if np >= 2:
            out += [(np, "blk2"), (np, "rev")]
        if np >= 3:
            out += [(np, "cyc%d" % (2 + np % 2)), (np, "blk4")]
    return out


def jobs_for(ctx, env):
    units = all_units(env)
    only = os.environ.get("C29_ONLY")
    if only:
        units = [u for u in units if re.fullmatch(only, "%s/%s" % (u[0], u[1]))]
    cfgs = configs_for(ctx)
    onp = os.environ.get("C29_NP")
    if onp:
        cfgs = [(int(x.split(":")[0]), x.split(":")[1]) for x in onp.split(",")]
    jobs = [(u, np, lay) for u in units for (np, lay) in cfgs]
    sc = float(os.environ.get("VERIF_SCALE", "1"))
    if sc < 1:
        r = ctx.sub_rng("scale")
        keep = max(1, int(len(jobs) * sc))
        jobs = r.sample(jobs, keep)
    # big communicators first: better packing of the thread pool
    jobs.sort(key=lambda j: -j[1])
    return units, jobs


def cases_for(ctx, unit, np, layout):
    rng = ctx.sub_rng(unit[0], unit[1], np, layout)
    cases = []
    for call in unit[2]:
        cases += G.gen_cases(call, unit[3], np, rng, ctx.tier)
    return G._number(cases)


def _keylog(ctx):
    """Development aid: C29_KEYLOG=<file> appends every reported key (listed or not) with its description."""
    path = os.environ.get("C29_KEYLOG")
    if not path:
        return
    orig, lock = ctx.violation, threading.Lock()

    def logged(key, what, witness):
        with lock:
            with open(path, "a") as f:
                f.write("%s\t%s\n" % (key, what.replace("\n", " ")[:600]))
        return orig(key, what, witness)
    ctx.violation = logged


def run(ctx):
    env = Env()
    _keylog(ctx)
    try:
        units, jobs = jobs_for(ctx, env)
        ctx.count("algorithm_pairs", len(units))
        runner = Runner(ctx, env)

        def one(job):
            unit, np, layout = job
            cases = cases_for(ctx, unit, np, layout)
            runner.evaluate(unit, np, layout, cases)
            if np > 1:
                ctx.sample({"unit": "%s/%s" % (unit[0], unit[1]), "np": np, "layout": layout, "cases": len(cases),
                            "first": G.case_line(cases[0])})
        ctx.pmap(one, jobs)
        if runner.leftover:
            ctx.extra["units_leaving_communications_behind"] = sorted(runner.leftover)
    finally:
        env.close()


def replay(ctx, w):
    env = Env()
    try:
        unit = (w["unit"][0], w["unit"][1], w["calls"], w["variant"])
        runner = Runner(ctx, env)

        def parse_line(l):
            f = l.split()
            return dict(idx=int(f[0]), coll=f[1], mode=f[2], root=int(f[3]), pat=int(f[4]), c=int(f[5]), dt=f[6], op=f[7],
                        vseed=int(f[8]), late=int(f[9]))
        cases = [parse_line(l) for l in w["cases"]]
        runner.evaluate(unit, w["np"], w["layout"], cases)
        if not ctx.violations and not ctx.known_hits and w.get("context"):
            runner.evaluate(unit, w["np"], w["layout"], [parse_line(l) for l in w["context"]])
    finally:
        env.close()
