"""C29 Every collective algorithm computes the MPI result."""
import os
import re
import shutil
import tempfile
import threading

from verif import build, proc
from verif.gen import colls as G

META = {
    "id": "C29", "engine": "E5 smpi programs", "engine_path": "harness/mpi/coll_check.c",
    "engine_kind": "self-checking MPI C program run under the real smpirun/SMPI, one run per (collective, algorithm, np, layout)",
    "level": "exploration",
    "technique": "in-program reference from the MPI definitions, byte-exact image comparison of every buffer (guards, holes of "
                 "derived types and send buffers included) on every rank; crashes attributed by isolating single cases",
    "level_text": "Every (collective, algorithm) pair listed by `smpirun -help-coll`, the four single-implementation collectives "
                  "(gatherv, scatterv, scan, alltoallw) and the sixteen non-blocking collectives are run on communicators of 1..17 "
                  "ranks (quick: a fixed sample of sizes) under several rank placements. Inside a run the harness loops over roots, "
                  "counts {0,1,2,np-1,np,np+1, two large non-multiples of np}, datatypes {int, double, vector with a hole, "
                  "2int/double_int}, operators {SUM,PROD,MAX,MIN,BXOR,MAXLOC,MINLOC,user commutative}, MPI_IN_PLACE, NULL "
                  "root-only arguments, late ranks, back-to-back calls without barrier, and compares whole buffer images "
                  "(64-byte guards around them) with the image the MPI definition gives. A failing run is reduced to a tuple "
                  "(collective, algorithm, np-class, layout-class, count-class, datatype-class, mode, failure kind).",
    "level_note": "Hooks flavour only (SMPI's dlopen privatisation under ASan reports inside the sanitizer's sigaltstack "
                  "interceptor). Commutative operators only (as in the statement); non-commutative ones, MPI_Exscan, "
                  "inter-communicators and persistent collectives are not driven. An abort whose message states a precondition "
                  "of the algorithm that is indeed unmet (e.g. 'can't be used with non power of two number of processes') is "
                  "counted as a refusal, not as a violation. A run stopped by the wall-clock watchdog is inconclusive.",
    "rule": "case = one collective call (collective, mode, root, count pattern, count, datatype, operator, data seed, late rank); "
            "non-trivial = distinct (collective, algorithm, np-class>1, layout-class, count-class other than 0, datatype-class, mode) "
            "whose cases were compared on every rank of a run that reached its end",
    "assumptions": ["only the listed count/datatype/operator values are driven; quick tier samples the communicator sizes",
                    "the simulated platform is one homogeneous cluster; placements: one rank per host, blocks of 2 or 4 ranks per "
                    "host, cyclic over 2 or 3 hosts, and a communicator with reversed rank order"],
    "ready": False,
}

QUICK_CONFIGS = [(1, "flat"), (2, "flat"), (3, "flat"), (5, "cyc2"), (6, "blk2"), (8, "flat")]
WATCHDOG = 240
ISOLATED_WATCHDOG = 120
MAX_RERUNS = 40


class Env:
    def __init__(self):
        self.dir = tempfile.mkdtemp(prefix="verif-C29-")
        self.exe = build.smpicc("mpi/coll_check.c", "hooks")
        self.smpirun = build.smpirun("hooks")
        self.plat = os.path.join(self.dir, "plat.xml")
        with open(self.plat, "w") as f:
            f.write(G.PLATFORM_XML)
        self._hf = {}
        self._lock = threading.Lock()
        self._n = 0

    def hostfile(self, layout, np):
        with self._lock:
            key = (layout, np)
            if key not in self._hf:
                p = os.path.join(self.dir, "hf-%s-%d" % (layout, np))
                with open(p, "w") as f:
                    f.write("\n".join(G.hostfile_lines(layout, np)) + "\n")
                self._hf[key] = p
            return self._hf[key]

    def casefile(self, cases):
        with self._lock:
            self._n += 1
            p = os.path.join(self.dir, "cases-%d" % self._n)
        with open(p, "w") as f:
            f.write("\n".join(G.case_line(c) for c in cases) + "\n")
        return p

    def close(self):
        shutil.rmtree(self.dir, ignore_errors=True)


def all_units(env):
    """[(collective-table or pseudo collective, algorithm, [calls], variant)]"""
    res = proc.run([env.smpirun, "-help-coll"], timeout=120)
    pairs = G.parse_help_coll(res.out + "\n" + res.err)
    if len(pairs) < 100:
        from verif import core
        raise core.HarnessFailure("smpirun -help-coll lists only %d pairs: %s" % (len(pairs), res.brief()))
    units = []
    for coll, algo in pairs:
        if coll not in G.TABLE_CALLS:
            from verif import core
            raise core.HarnessFailure("collective %s of -help-coll is unknown to the generator" % coll)
        units.append((coll, algo, G.TABLE_CALLS[coll], "blocking"))
    for coll in G.FIXED:
        units.append((coll, "fixed", [coll], "blocking"))
    for coll in G.NBC:
        units.append(("i" + coll, "nbc", [coll], "nbc"))
    return units


def execute(env, unit, np, layout, cases, sync=False, timeout=WATCHDOG):
    coll, algo, _calls, _variant = unit
    cmd = [env.smpirun, "-np", str(np), "-hostfile", env.hostfile(layout, np), "-platform", env.plat,
           "--cfg=smpi/host-speed:1Gf", "--cfg=smpi/simulate-computation:no", "--log=root.thres:error"]
    if algo not in ("fixed", "nbc"):
        cmd.append("--cfg=smpi/%s:%s" % (coll, algo))
    cf = env.casefile(cases)
    cmd += [env.exe, cf]
    if sync:
        cmd.append("sync")
    if layout == "rev":
        cmd.append("rev")
    res = proc.run(cmd, timeout=timeout)
    try:
        os.unlink(cf)
    except OSError:
        pass
    return res


BAD_RE = re.compile(r"^BAD (\d+) rank=(\d+) kind=([\w-]+)(.*)$")
SIG_NAMES = {11: "SIGSEGV", 8: "SIGFPE", 6: "abort", 7: "SIGBUS"}


def parse(res, np):
    """-> dict(done=bool, bads=[(idx, rank, kind, rest)], crash=(sig, [cur]) or None, ncases, nbytes, harness=msg or None)"""
    o = {"bads": [], "crash": None, "done": 0, "ncases": 0, "nbytes": 0, "harness": None}
    for line in res.out.splitlines():
        m = BAD_RE.match(line)
        if m:
            o["bads"].append((int(m.group(1)), int(m.group(2)), m.group(3), m.group(4).strip()))
        elif line.startswith("CRASH "):
            mm = re.match(r"CRASH sig=(\d+) cur=([-\d,]*)", line)
            if mm:
                o["crash"] = (int(mm.group(1)), [int(x) for x in mm.group(2).split(",") if x])
        elif line.startswith("DONE "):
            mm = re.match(r"DONE rank=(\d+) cases=(\d+) bytes=(\d+) bad=(\d+)", line)
            if mm:
                o["done"] += 1
                o["ncases"] = max(o["ncases"], int(mm.group(2)))
                o["nbytes"] += int(mm.group(3))
        elif line.startswith("HARNESS "):
            o["harness"] = line
    o["complete"] = (o["done"] == np and res.rc == 0)
    return o


def failure_kind(res, p):
    """Kind of a run that did not reach its end."""
    err = res.err or ""
    if "Deadlock detected" in err or "deadlock" in err.lower():
        return "deadlock"
    if p["crash"]:
        return SIG_NAMES.get(p["crash"][0], "sig%d" % p["crash"][0])
    if res.signal:
        return SIG_NAMES.get(res.signal, "sig%d" % res.signal)
    return "exit%s" % res.rc


def err_excerpt(res, n=6):
    lines = [l for l in (res.err or "").splitlines() if l.strip() and "Switch to algorithm" not in l]
    keep = [l for l in lines if re.search(r"what\(\)|invalid_argument|Assertion|assert|xbt_die|Deadlock|exception|error", l, re.I)]
    return " | ".join((keep or lines)[:n])[:900]


class Runner:
    """Evaluates one (unit, np, layout): runs the case list, reports wrong buffers, isolates crashes, goes on after them."""

    def __init__(self, ctx, env):
        self.ctx, self.env = ctx, env

    def key(self, unit, np, layout, case, kind):
        return "C29:%s/%s:np=%s:lay=%s:%s:%s" % (unit[0], unit[1], G.np_class(np), G.lay_class(layout), G.case_class(case, np), kind)

    def witness(self, unit, np, layout, cases):
        return {"unit": list(unit[:2]), "calls": unit[2], "variant": unit[3], "np": np, "layout": layout,
                "cases": [G.case_line(c) for c in cases]}

    def report_bads(self, unit, np, layout, cases, p, seen, context):
        byidx = {c["idx"]: c for c in cases}
        for idx, rank, kind, rest in p["bads"]:
            c = byidx.get(idx)
            if c is None:
                continue
            if kind == "rc":
                kind = "error-return"
            k = self.key(unit, np, layout, c, kind)
            if k in seen:
                continue
            seen.add(k)
            self.ctx.count("wrong_buffers_or_codes")
            w = self.witness(unit, np, layout, [c])
            w["context"] = [G.case_line(x) for x in context if x["idx"] <= idx][-400:]
            self.ctx.violation(k, "%s/%s np=%d layout=%s case [%s]: rank %d %s %s" % (unit[0], unit[1], np, layout,
                                                                                    G.case_line(c), rank, kind, rest), w)

    def isolate(self, unit, np, layout, cases, cand):
        """Run the candidate cases alone; return (case, res, parsed) of the first that does not reach its end, or None."""
        byidx = {c["idx"]: c for c in cases}
        for idx in cand:
            c = byidx.get(idx)
            if c is None:
                continue
            res = execute(self.env, unit, np, layout, [c], timeout=ISOLATED_WATCHDOG)
            self.ctx.count("isolation_runs")
            if res.timed_out:
                self.ctx.inconclusive("watchdog on an isolated case of %s/%s" % (unit[0], unit[1]))
                continue
            p = parse(res, np)
            if not p["complete"]:
                return c, res, p
        return None

    def evaluate(self, unit, np, layout, cases):
        ctx = self.ctx
        seen = set()
        todo = list(cases)
        classes_ok = set()
        for _ in range(MAX_RERUNS):
            if not todo:
                break
            res = execute(self.env, unit, np, layout, todo)
            ctx.count("runs")
            if res.timed_out:
                ctx.inconclusive("smpirun watchdog %s/%s np=%d %s" % (unit[0], unit[1], np, layout))
                return
            p = parse(res, np)
            if p["harness"]:
                from verif import core
                raise core.HarnessFailure("%s (%s/%s np=%d)" % (p["harness"], unit[0], unit[1], np))
            self.report_bads(unit, np, layout, todo, p, seen, todo)
            if p["complete"]:
                ctx.evaluation(len(todo))
                ctx.count("cases_compared", len(todo))
                ctx.count("bytes_compared", p["nbytes"])
                badidx = {b[0] for b in p["bads"]}
                for c in todo:
                    if c["idx"] not in badidx:
                        classes_ok.add((G.case_class(c, np), c["coll"]))
                break
            # the run did not reach its end: which case, alone, fails ?
            text = (res.err or "")
            ref = G.match_refusal(unit[0], unit[1], np, layout, None, text)
            if ref and ref[0] == "run":
                ctx.count("explicit_refusals")
                ctx.count("cases_refused", len(todo))
                return
            cur = [x for x in (p["crash"][1] if p["crash"] else []) if x >= 0]
            cand = sorted(set(cur), key=lambda i: -cur.count(i))
            kind = failure_kind(res, p)
            found = self.isolate(unit, np, layout, todo, cand) if cand else None
            suffix = ""
            if found is None:
                # not reproducible alone (or no CRASH line): run again with a point-to-point barrier between the cases
                res2 = execute(self.env, unit, np, layout, todo, sync=True)
                ctx.count("runs")
                if res2.timed_out:
                    ctx.inconclusive("smpirun watchdog (sync) %s/%s np=%d %s" % (unit[0], unit[1], np, layout))
                    return
                p2 = parse(res2, np)
                if p2["complete"]:
                    # only fails when the calls follow each other without barrier
                    suffix, fres, fp = ":back-to-back", res, p
                    fidx = max(cur) if cur else todo[-1]["idx"]
                else:
                    cur2 = [x for x in (p2["crash"][1] if p2["crash"] else []) if x >= 0]
                    suffix, fres, fp = ":in-sequence", res2, p2
                    fidx = max(cur2) if cur2 else todo[-1]["idx"]
                    kind = failure_kind(res2, p2)
                fcase = next((c for c in todo if c["idx"] == fidx), todo[-1])
                wcases = [c for c in todo if c["idx"] <= fcase["idx"]] if cur or suffix == ":in-sequence" else todo
            else:
                fcase, fres, fp = found
                kind = failure_kind(fres, fp)
                wcases = [fcase]
                ref = G.match_refusal(unit[0], unit[1], np, layout, fcase, fres.err or "")
                if ref:
                    ctx.count("explicit_refusals")
                    cls = G.case_class(fcase, np)
                    drop = [c for c in todo if G.case_class(c, np) == cls and c["coll"] == fcase["coll"]]
                    ctx.count("cases_refused", len(drop))
                    todo = [c for c in todo if c not in drop]
                    continue
            k = self.key(unit, np, layout, fcase, kind + suffix)
            ctx.count("runs_not_reaching_end")
            ctx.violation(k, "%s/%s np=%d layout=%s case [%s]%s: %s; %s" % (unit[0], unit[1], np, layout, G.case_line(fcase),
                                                                           suffix, kind, err_excerpt(fres)),
                          self.witness(unit, np, layout, wcases))
            ctx.evaluation()
            # go on with what was not evaluated yet, leaving out the class of the failing case
            cls = G.case_class(fcase, np)
            lo = min(cur) if cur else fcase["idx"]
            before = len(todo)
            todo = [c for c in todo if c["idx"] >= lo and not (G.case_class(c, np) == cls and c["coll"] == fcase["coll"])]
            ctx.evaluation(max(0, before - len(todo) - 1))
            if suffix:
                return
        else:
            ctx.inconclusive("more than %d reruns for %s/%s np=%d %s" % (MAX_RERUNS, unit[0], unit[1], np, layout))
        if np > 1:
            for cls, call in classes_ok:
                if "count=0:" not in cls:
                    ctx.nontrivial("%s/%s:%s:%s:%s:%s" % (unit[0], unit[1], G.np_class(np), G.lay_class(layout), call, cls))


def configs_for(ctx):
    if ctx.tier == "quick":
        return list(QUICK_CONFIGS)
    out = []
    for np in range(1, 18):
        out.append((np, "flat"))
        if np >= 2:
            out += [(np, "blk2"), (np, "rev")]
        if np >= 3:
            out += [(np, "cyc%d" % (2 + np % 2)), (np, "blk4")]
    return out


def jobs_for(ctx, env):
    units = all_units(env)
    only = os.environ.get("C29_ONLY")
    if only:
        units = [u for u in units if re.fullmatch(only, "%s/%s" % (u[0], u[1]))]
    cfgs = configs_for(ctx)
    onp = os.environ.get("C29_NP")
    if onp:
        cfgs = [(int(x.split(":")[0]), x.split(":")[1]) for x in onp.split(",")]
    jobs = [(u, np, lay) for u in units for (np, lay) in cfgs]
    sc = float(os.environ.get("VERIF_SCALE", "1"))
    if sc < 1:
        r = ctx.sub_rng("scale")
        keep = max(1, int(len(jobs) * sc))
        jobs = r.sample(jobs, keep)
    # big communicators first: better packing of the thread pool
    jobs.sort(key=lambda j: -j[1])
    return units, jobs


def cases_for(ctx, unit, np, layout):
    rng = ctx.sub_rng(unit[0], unit[1], np, layout)
    cases = []
    for call in unit[2]:
        cases += G.gen_cases(call, unit[3], np, rng, ctx.tier)
    return G._number(cases)


def run(ctx):
    env = Env()
    try:
        units, jobs = jobs_for(ctx, env)
        ctx.count("algorithm_pairs", len(units))
        runner = Runner(ctx, env)

        def one(job):
            unit, np, layout = job
            cases = cases_for(ctx, unit, np, layout)
            runner.evaluate(unit, np, layout, cases)
            if np > 1:
                ctx.sample({"unit": "%s/%s" % (unit[0], unit[1]), "np": np, "layout": layout, "cases": len(cases),
                            "first": G.case_line(cases[0])})
        ctx.pmap(one, jobs)
    finally:
        env.close()


def replay(ctx, w):
    env = Env()
    try:
        unit = (w["unit"][0], w["unit"][1], w["calls"], w["variant"])
        runner = Runner(ctx, env)

        def parse_line(l):
            f = l.split()
            return dict(idx=int(f[0]), coll=f[1], mode=f[2], root=int(f[3]), pat=int(f[4]), c=int(f[5]), dt=f[6], op=f[7],
                        vseed=int(f[8]), late=int(f[9]))
        cases = [parse_line(l) for l in w["cases"]]
        runner.evaluate(unit, w["np"], w["layout"], cases)
        if not ctx.violations and not ctx.known_hits and w.get("context"):
            runner.evaluate(unit, w["np"], w["layout"], [parse_line(l) for l in w["context"]])
    finally:
        env.close()
