"""C19 Update algorithms and solver options give the same timings."""
import json
import os
import shutil
import tempfile

from verif import build, proc
from verif.gen import optim as gen
from verif.oracles import optim as orc

META = {
    "id": "C19", "engine": "E1 s4u harness, configuration differential", "engine_path": "harness/optim.cpp",
    "engine_kind": "S4U program running generated concurrent actors on a generated platform; one run per configuration; python log differ",
    "level": "exploration",
    "technique": "differential between configurations that must agree: the same scripted workload under every cpu/optim x network/optim x "
                 "selective-update setting, every logged date compared with the Full/Full/non-selective run",
    "level_text": "Generated platforms (2-5 hosts of 1-8 cores with 1-3 pstates and optional speed profiles, 3-8 shared / fat-pipe / split-duplex "
                  "links with optional bandwidth and latency profiles, explicit multi-link routes) and workloads of 3-10 actors (blocking and grouped "
                  "asynchronous execs with priorities and bounds, direct and rendez-vous comms with optional rate, sleeps, Activity::suspend/resume, "
                  "Actor::suspend/resume from another actor, Exec::update_priority and Host::set_pstate while activities run, equal activities started "
                  "together, round durations so that completions tie, 1e-6..1 flop and 1e2..1e5 s activities). Every workload runs under cpu/optim in "
                  "{Lazy, Full+selective, Full} x network/optim in {Lazy, Full+selective, Full} (9 runs), and the workloads restricted to what the TI "
                  "model accepts also under cpu/optim:TI x the three network settings (12 runs). Each run logs, at the actor boundary and inside "
                  "Exec/Comm::on_start_cb/on_completion_cb, the start / finish / wait-return date of every activity, the end of every sleep and actor, "
                  "the date of every control action and the final clock. All dates of a run must equal those of the Full/Full run of the same workload "
                  "within precision/timing, and both runs must log the same events.",
    "level_note": "Tolerance: |date - reference date| <= precision/timing (1e-9 s, the documented default, which is also the window in which the lazy "
                  "heap and update_max_duration merge events) + 4 ulp of the date per time advance of the run (each advance rounds now += delta and "
                  "remains -= rate*delta once). No term is fitted to what was observed; the largest deviation seen is reported in the evidence "
                  "(worst_deviation_over_tolerance). A workload whose reference run has a control instant (guarded by 'is the target still running?') "
                  "within 1e-7 s of a completion is not judged: its control flow depends on a comparison below the precision. State (on/off) profiles, "
                  "disks, ptasks and VMs are not part of the workloads. S4U has no way to change the bound of a running exec: bound changes happen "
                  "through Host::set_pstate (which re-bounds every running exec of the host) and speed / bandwidth profiles.",
    "rule": "case = one workload under one non-reference configuration, compared with the reference run; non-trivial = distinct (workload, "
            "configuration) where both runs completed, >= 3 activities overlapped others on a resource and >= 10 dates were compared",
    "assumptions": ["the Full update without selective update (cpu and network) is the reference configuration",
                    "cpu/optim:TI domain = single-core hosts, no user bound, repeating speed profiles starting at date 0 (what cpu_ti.cpp asserts / integrates)"],
    "ready": False,
}

CPU = {"Lazy": [], "Fullsel": ["--cfg=cpu/optim:Full", "--cfg=cpu/maxmin-selective-update:yes"], "Full": ["--cfg=cpu/optim:Full"],
       "TI": ["--cfg=cpu/optim:TI"]}
NET = {"Lazy": [], "Fullsel": ["--cfg=network/optim:Full", "--cfg=network/maxmin-selective-update:yes"], "Full": ["--cfg=network/optim:Full"]}
REF = ("Full", "Full")


def configs(ti):
    out = []
    for c in (["Lazy", "Fullsel", "Full", "TI"] if ti else ["Lazy", "Fullsel", "Full"]):
        for n in ("Lazy", "Fullsel", "Full"):
            out.append((c, n))
    return out


def flags(cfg, netmodel=None):
    f = CPU[cfg[0]] + NET[cfg[1]]
    if netmodel:
        f = f + ["--cfg=network/model:" + netmodel]
    return f


def exe_of(flavour):
    return build.harness("optim.cpp", flavour)


def run_cases(ctx, cases, flavour):
    """cases = list of (workload, cfg). One harness process, one forked child per case. Returns a list of parsed logs / status."""
    text = []
    for i, (w, cfg) in enumerate(cases):
        text.append("CASE %d %s" % (i, " ".join(flags(cfg, w.get("netmodel")))))
        text.append(gen.workload_text(w).rstrip("\n"))
        text.append("ENDCASE")
    res = proc.run([exe_of(flavour), "--log=root.thres:critical"], stdin="\n".join(text) + "\n", timeout=300 + 120 * len(cases),
                   env={"C19_CASE_BUDGET": "300"})
    ctx.count("processes." + flavour)
    logs = {}
    cur = None
    for ln in res.out.splitlines():
        if ln.startswith("CASE "):
            cur = int(ln.split()[1])
            logs[cur] = {"lines": [], "done": None}
        elif ln.startswith("DONE "):
            f = ln.split()
            logs[int(f[1])]["done"] = (int(f[2]), int(f[3]))
            cur = None
        elif cur is not None:
            logs[cur]["lines"].append(ln)
    out = []
    for i, (w, cfg) in enumerate(cases):
        lg = logs.get(i)
        if lg is None or lg["done"] is None:
            out.append({"status": "watchdog" if res.timed_out else "died", "detail": "rc=%s %s" % (res.rc, res.err[-400:])})
            continue
        code, sig = lg["done"]
        if sig == 14:
            out.append({"status": "watchdog", "detail": "case budget"})
            continue
        if code != 0 or sig != 0:
            san = proc.sanitizer_reports(res.err)
            out.append({"status": "died", "detail": "exit %s signal %s %s" % (code, sig, san[:1] or res.err[-400:])})
            continue
        p = orc.parse("\n".join(lg["lines"]))
        p["status"] = "ok" if p["complete"] else "died"
        p["detail"] = "" if p["complete"] else "no END line: %s" % res.err[-400:]
        out.append(p)
    return out


def cfg_name(cfg):
    return "cpu=%s,net=%s" % cfg


def pair_name(cfg, kind):
    """Name of the configuration pair in a key: only the option that governs this kind of activity when that option differs."""
    if kind in ("exec", "sleep") and cfg[0] != REF[0]:
        return "cpu/optim:%s-vs-%s" % (cfg[0], REF[0])
    if kind == "comm" and cfg[1] != REF[1]:
        return "network/optim:%s-vs-%s" % (cfg[1], REF[1])
    return "%s-vs-%s" % (cfg_name(cfg), cfg_name(REF))


def overlap_count(ref):
    """Number of activities whose [start, finish] interval overlaps another one's (cheap proxy for contention)."""
    iv = sorted((ref["ev"][("start", k[1])], t) for k, t in ref["ev"].items() if k[0] == "finish" and ("start", k[1]) in ref["ev"])
    n = 0
    for i, (s, f) in enumerate(iv):
        if any(s2 < f and s < f2 for j, (s2, f2) in enumerate(iv) if j != i):
            n += 1
    return n


def tail(w, cfg, ref):
    """Last field of a violation key: the open known findings this (workload, configuration) is exposed to, else its dynamic features."""
    tags = orc.exposure(w, cfg, ref)
    if tags:
        return "exposed=" + "+".join(sorted(tags))
    return "feat=" + ("+".join(sorted(gen.features_used(w))) or "static")


def judge(ctx, w, flavour, results, corrupt=None):
    """results: cfg -> parsed log of that workload. Compares everything with the reference."""
    wtext = gen.workload_text(w)
    ref = results.get(REF)
    for cfg, r in results.items():
        ctx.evaluation()
        ctx.count("runs." + flavour)
        if r["status"] == "watchdog":
            ctx.inconclusive("optim harness watchdog")
        elif r["status"] == "died":
            ctx.violation("C19:crash:%s:%s" % (cfg_name(cfg), tail(w, cfg, ref)),
                          "the workload does not run to its end under %s: %s" % (cfg_name(cfg), r["detail"]),
                          {"workload": w, "cfg": list(cfg), "flavour": flavour})
    if ref is None or ref["status"] != "ok":
        return
    if orc.ambiguous_tie(ref):
        ctx.count("workloads.not_judged_control_instant_ties_with_a_completion")
        return
    ov = overlap_count(ref)
    ctx.count("reference.activities", len(ref["kinds"]))
    ctx.count("reference.time_advances", ref["nadvance"])
    for cfg, r in results.items():
        if cfg == REF or r["status"] != "ok":
            continue
        if corrupt:
            r = corrupt(r)
        res = orc.compare(ref, r)
        wit = {"workload": w, "cfg": list(cfg), "flavour": flavour}
        ctx.count("dates_compared", len(ref["ev"]))
        ctx.count("comparisons." + cfg_name(cfg))
        if res["missing"] or res["extra"]:
            ctx.violation("C19:events-differ:%s:%s" % (cfg_name(cfg), tail(w, cfg, ref)),
                          "the run under %s does not log the same events as the reference %s: missing %s, extra %s"
                          % (cfg_name(cfg), cfg_name(REF), res["missing"], res["extra"]), wit)
        elif res["first"]:
            f = res["first"]
            kind = orc.kind_of(f["key"], ref["kinds"])
            if kind in ("signal", "control", "actor", "activity"):
                kind = base_kind(f["key"], ref)
            acts = gen.all_acts(w)
            what = ""
            if f["key"][0] in ("start", "finish", "waited", "begun"):
                what = " of %s" % (acts.get(f["key"][1] % 1000000),)
            ctx.violation("C19:date:%s:%s:%s" % (kind, pair_name(cfg, kind), tail(w, cfg, ref)),
                          "earliest disagreement: %s%s is %r under %s and %r under the reference %s (difference %.3g s, tolerance %.3g s)"
                          % (f["key"], what, f["obs"], cfg_name(cfg), f["ref"], cfg_name(REF), abs(f["obs"] - f["ref"]), f["tol"]), wit)
        else:
            ctx.maximum("worst_deviation_over_tolerance." + cfg_name(cfg), res["worst"])
            if ov >= 3 and len(ref["ev"]) >= 10:
                ctx.nontrivial([wtext, cfg_name(cfg)])
                for k in sorted(set(ref["kinds"].values())):
                    ctx.count("agreeing_activities." + orc.KIND_NAMES.get(k, k), sum(1 for v in ref["kinds"].values() if v == k))


def base_kind(key, ref):
    """Kind of the activity behind a signal event (names are a<id> / a<id>r); other events keep their own name."""
    if key[0].startswith("sig-"):
        n = key[1][1:]
        i = int(n[:-1]) + 1000000 if n.endswith("r") else int(n)
        return orc.KIND_NAMES.get(ref["kinds"].get(i), "activity")
    return {"sleep": "sleep", "ctl": "control"}.get(key[0], "actor")


def run_workload(ctx, w, flavour, cfgs=None, corrupt=None):
    cfgs = cfgs or configs(w["ti"])
    if REF not in cfgs:
        cfgs = [REF] + list(cfgs)
    res = run_cases(ctx, [(w, c) for c in cfgs], flavour)
    judge(ctx, w, flavour, dict(zip(cfgs, res)), corrupt)


def plan(ctx):
    n = ctx.size(30, 1500)
    items = []
    for i in range(n):
        rng = ctx.sub_rng("w", i)
        ti = i % 2 == 0
        w = gen.gen_workload(rng, ti)
        if rng.random() < 0.3:
            w["netmodel"] = rng.choice(["CM02", "SMPI"])
        items.append((w, "hooks"))
    return items


def run(ctx):
    tmp = tempfile.mkdtemp(prefix="verif-C19-")
    try:
        exe_of("hooks")
        items = plan(ctx)
        ctx.sample({"workload": gen.workload_text(items[0][0]).splitlines(), "configurations": [cfg_name(c) for c in configs(items[0][0]["ti"])]})
        ctx.pmap(lambda it: run_workload(ctx, it[0], it[1]), items)
    finally:
        shutil.rmtree(tmp, ignore_errors=True)


def replay(ctx, wit):
    run_workload(ctx, wit["workload"], wit["flavour"], [REF, tuple(wit["cfg"])])
