"""C19 Update algorithms and solver options give the same timings."""
import os
import shutil
import tempfile

from verif import build, proc
from verif.gen import optim as gen
from verif.oracles import optim as orc

META = {
    "id": "C19", "engine": "E1 s4u harness, configuration differential", "engine_path": "harness/optim.cpp",
    "engine_kind": "S4U program running generated concurrent actors on a generated platform; one run per configuration; python log differ",
    "level": "exploration",
    "technique": "differential between configurations that must agree: the same scripted workload under every cpu/optim x network/optim x "
                 "selective-update setting, every logged date compared with the Full/Full/non-selective run",
    "level_text": "Generated platforms (2-5 hosts of 1-8 cores with 1-3 pstates and optional speed profiles, 3-8 shared / fat-pipe / split-duplex "
                  "links with optional bandwidth and latency profiles, explicit multi-link routes, LV08 / CM02 / SMPI network model) and workloads of "
                  "3-10 actors (blocking and grouped asynchronous execs with priorities and bounds, direct comms and rendez-vous comms with optional "
                  "rate, sleeps, Activity::suspend/resume, Actor::suspend/resume from another actor, Exec::update_priority and Host::set_pstate while "
                  "activities run, equal activities started together, round durations so that completions tie, 1e-6..1 flop and 1e2..1e5 s "
                  "activities). Every workload runs under cpu/optim in {Lazy, Full+selective update, Full} x network/optim in {Lazy, Full+selective "
                  "update, Full} (9 runs), and the workloads restricted to what the TI model accepts also under cpu/optim:TI x the three network "
                  "settings (12 runs); a tenth of them also on the ASan+UBSan build. Each run logs, at the actor boundary and inside "
                  "Exec/Comm::on_start_cb/on_completion_cb, the start / finish / wait-return date of every activity, the end of every sleep and actor, "
                  "the date of every control action and the final clock. All dates of a run must equal those of the Full/Full run of the same workload "
                  "within precision/timing, and both runs must log the same events (a comm that never completes, an abort or a sanitizer report under "
                  "one configuration only is a disagreement). The earliest disagreeing completion is reported, keyed by activity kind and by the "
                  "option(s) that differ from the reference.",
    "level_note": "Tolerance: |date - reference date| <= precision/timing (1e-9 s, the documented default, which is also the window in which the lazy "
                  "heap and update_max_duration merge events) + 4 ulp of the date per time advance of the run (each advance rounds now += delta and "
                  "remains -= rate*delta once). No term is fitted to what was observed; the largest deviation seen is reported in the evidence "
                  "(worst_deviation_over_tolerance, about 0.1 on the unchanged tree). Under cpu/optim:TI only, each exec small enough to fall under the "
                  "model's own constant (cpu_ti.cpp: EPSILON = 1e-9 s of full-speed time, work below it completes at once) adds 1e-9 / (smallest "
                  "availability of the speed profiles) to the tolerance. Not judged (counted in the evidence): a workload whose reference "
                  "run evaluates a guarded control ('is the target still running?') within 1e-7 s of the completion of its target, or has two "
                  "simultaneously pending completions at distinct dates closer than 4e-9 s (the program's control flow / the merging of events then "
                  "legitimately depends on comparisons below the precision); a workload on which SimGrid aborts under every configuration alike. "
                  "Workloads exposed to an open known finding (oracles/optim.py: exposure) carry 'exposed=<finding>' instead of their feature list in "
                  "their keys, so that only those are matched by the key_globs of known_findings.d/C19.json; C19_NO_EXPOSURE=1 turns that off (used to "
                  "validate the proposed fixes). State (on/off) profiles, disks, ptasks and VMs are not part of the workloads. S4U cannot change the "
                  "bound of a running exec: bounds change through Host::set_pstate (which re-bounds every running exec of the host) and speed / "
                  "bandwidth profiles. Comm::set_rate is refused on Comm::sendto_init comms, so rates are only set on rendez-vous comms. Bandwidth "
                  "profiles run with network/crosstraffic:0 and Actor::suspend only targets actors without asynchronous activities (two "
                  "configuration-independent aborts of SimGrid, see gen/optim.py).",
    "rule": "case = one workload under one non-reference configuration, compared with the reference run; non-trivial = distinct (workload, "
            "configuration) where both runs completed and agree, >= 3 activities overlapped others in time and >= 10 dates were compared",
    "assumptions": ["the Full update without selective update (cpu and network) is the reference configuration",
                    "cpu/optim:TI domain = single-core hosts, no user bound, repeating speed profiles starting at date 0 (what cpu_ti.cpp asserts / integrates)",
                    "workloads whose control flow or event merging depends on date comparisons below precision/timing are outside 'the same within precision'"],
    "ready": True,
}

CPU = {"Lazy": [], "Fullsel": ["--cfg=cpu/optim:Full", "--cfg=cpu/maxmin-selective-update:yes"], "Full": ["--cfg=cpu/optim:Full"],
       "TI": ["--cfg=cpu/optim:TI"]}
NET = {"Lazy": [], "Fullsel": ["--cfg=network/optim:Full", "--cfg=network/maxmin-selective-update:yes"], "Full": ["--cfg=network/optim:Full"]}
REF = ("Full", "Full")


def configs(ti):
    out = []
    for c in (["Lazy", "Fullsel", "Full", "TI"] if ti else ["Lazy", "Fullsel", "Full"]):
        for n in ("Lazy", "Fullsel", "Full"):
            out.append((c, n))
    return out


def flags(cfg, w):
    f = CPU[cfg[0]] + NET[cfg[1]]
    if w.get("netmodel"):
        f = f + ["--cfg=network/model:" + w["netmodel"]]
    if w.get("crosstraffic") is False:
        f = f + ["--cfg=network/crosstraffic:0"]
    return f


def exe_of(flavour):
    return build.harness("optim.cpp", flavour)


def run_cases(ctx, cases, flavour):
    """cases = list of (workload, cfg). One harness process, one forked child per case. Returns a list of parsed logs / status."""
    text = []
    for i, (w, cfg) in enumerate(cases):
        text.append("CASE %d %s" % (i, " ".join(flags(cfg, w))))
        text.append(gen.workload_text(w).rstrip("\n"))
        text.append("ENDCASE")
    res = proc.run([exe_of(flavour), "--log=root.thres:critical"], stdin="\n".join(text) + "\n", timeout=300 + 120 * len(cases),
                   env={"C19_CASE_BUDGET": "300"})
    ctx.count("processes." + flavour)
    if os.environ.get("C19_DEBUG"):
        print("[C19 debug] %s batch of %d: %.1fs feats=%s" % (flavour, len(cases), res.wall, cases[0][0].get("features")), flush=True)
    logs = {}
    cur = None
    for ln in res.out.splitlines():
        if ln.startswith("CASE "):
            cur = int(ln.split()[1])
            logs[cur] = {"lines": [], "done": None}
        elif ln.startswith("DONE "):
            f = ln.split()
            logs[int(f[1])]["done"] = (int(f[2]), int(f[3]))
            cur = None
        elif cur is not None:
            logs[cur]["lines"].append(ln)
    out = []
    for i, (w, cfg) in enumerate(cases):
        lg = logs.get(i)
        if lg is None or lg["done"] is None:
            # the harness process itself stopped (watchdog, fork failure on a loaded machine...): nothing is known about this case.
            # An abort of SimGrid inside a case is reported by the parent as "DONE <tag> -1 6".
            out.append({"status": "watchdog", "detail": "harness process rc=%s timed_out=%s %s" % (res.rc, res.timed_out, res.err[-200:])})
            continue
        code, sig = lg["done"]
        if sig == 14:
            out.append({"status": "watchdog", "detail": "case budget"})
            continue
        if code != 0 or sig != 0:
            san = proc.sanitizer_reports(res.err)
            out.append({"status": "died", "detail": "exit %s signal %s %s" % (code, sig, san[:1] or res.err[-400:])})
            continue
        p = orc.parse("\n".join(lg["lines"]))
        p["status"] = "ok" if p["complete"] else "died"
        p["detail"] = "" if p["complete"] else "no END line: %s" % res.err[-400:]
        out.append(p)
    return out


def cfg_name(cfg):
    return "cpu=%s,net=%s" % cfg


def pair_name(cfg, kind=None):
    """Name of the configuration pair in a key: the one option that differs from the reference, or both."""
    if cfg[0] != REF[0] and cfg[1] == REF[1]:
        return "cpu/optim:%s-vs-%s" % (cfg[0], REF[0])
    if cfg[1] != REF[1] and cfg[0] == REF[0]:
        return "network/optim:%s-vs-%s" % (cfg[1], REF[1])
    return "%s-vs-%s" % (cfg_name(cfg), cfg_name(REF))


def overlap_count(ref):
    """Number of activities whose [start, finish] interval overlaps another one's (cheap proxy for contention)."""
    iv = sorted((ref["ev"][("start", k[1])], t) for k, t in ref["ev"].items() if k[0] == "finish" and ("start", k[1]) in ref["ev"])
    n = 0
    for i, (s, f) in enumerate(iv):
        if any(s2 < f and s < f2 for j, (s2, f2) in enumerate(iv) if j != i):
            n += 1
    return n


def tail(w, cfg, ref):
    """Last field of a violation key: the open known findings this (workload, configuration) is exposed to, else its dynamic features."""
    tags = orc.exposure(w, cfg, ref)
    if tags and not os.environ.get("C19_NO_EXPOSURE"):      # C19_NO_EXPOSURE=1: used on a tree where the known findings are repaired
        return "exposed=" + "+".join(sorted(tags))
    return "feat=" + ("+".join(sorted(gen.features_used(w))) or "static")


def judge(ctx, w, flavour, results, corrupt=None):
    """results: cfg -> parsed log of that workload. Compares everything with the reference."""
    wtext = gen.workload_text(w)
    ref = results.get(REF)
    for cfg, r in results.items():
        ctx.evaluation()
        ctx.count("runs." + flavour)
        if r["status"] == "watchdog":
            ctx.inconclusive("optim harness watchdog or lost case")
    if ref is None or ref["status"] == "watchdog":
        return
    died = [cfg for cfg, r in results.items() if r["status"] == "died"]
    if ref["status"] == "died" and len(died) == len([r for r in results.values() if r["status"] != "watchdog"]):
        # SimGrid aborts under every configuration alike (e.g. xbt_assert of the network model): no configuration disagrees with another
        ctx.count("workloads.not_judged_abort_under_every_configuration")
        ctx.extra.setdefault("aborts_under_every_configuration", [])
        if len(ctx.extra["aborts_under_every_configuration"]) < 3:
            ctx.extra["aborts_under_every_configuration"].append({"detail": ref["detail"][-300:], "workload": wtext.splitlines()})
        return
    for cfg in died:
        ctx.violation("C19:crash:%s:%s" % (cfg_name(cfg) if cfg == REF else pair_name(cfg), tail(w, cfg, ref)),
                      "the workload does not run to its end under %s (it does under %s): %s"
                      % (cfg_name(cfg), ", ".join(cfg_name(c) for c, r in results.items() if r["status"] == "ok") or "no configuration", results[cfg]["detail"]),
                      {"workload": w, "cfg": list(cfg), "flavour": flavour})
    if ref["status"] != "ok":
        return
    if orc.ambiguous_tie(ref):
        ctx.count("workloads.not_judged_control_instant_ties_with_a_completion")
        return
    if orc.near_tie(ref):
        ctx.count("workloads.not_judged_distinct_dates_closer_than_the_precision")
        return
    ov = overlap_count(ref)
    ctx.count("reference.activities", len(ref["kinds"]))
    ctx.count("reference.time_advances", ref["nadvance"])
    for cfg, r in results.items():
        if cfg == REF or r["status"] != "ok":
            continue
        if corrupt:
            r = corrupt(cfg, r)
        res = orc.compare(ref, r, orc.precision_for(w, cfg))
        wit = {"workload": w, "cfg": list(cfg), "flavour": flavour}
        ctx.count("dates_compared", len(ref["ev"]))
        ctx.count("comparisons." + cfg_name(cfg))
        if orc.agree(res):
            ctx.maximum("worst_deviation_over_tolerance." + cfg_name(cfg), res["worst"])
            if ov >= 3 and len(ref["ev"]) >= 10:
                ctx.nontrivial([wtext, cfg_name(cfg)])
                for k in sorted(set(ref["kinds"].values())):
                    ctx.count("agreeing_activities." + orc.KIND_NAMES.get(k, k), sum(1 for v in ref["kinds"].values() if v == k))
            continue
        # Both options differ from the reference: when this run agrees with the run that changes only one of them, that run already
        # carries the disagreement (and names the option); it is not reported a second time under a vaguer name.
        pair = None
        if cfg[0] != REF[0] and cfg[1] != REF[1] and not corrupt:
            for other, name in (((cfg[0], REF[1]), "cpu"), ((REF[0], cfg[1]), "network")):
                o = results.get(other)
                if o is not None and o["status"] == "ok" and not orc.agree(orc.compare(ref, o, orc.precision_for(w, other))) and orc.agree(orc.compare(o, r)):
                    ctx.count("disagreements_already_reported_by_the_run_changing_only_the_%s_option" % name)
                    pair = "skip"
                    break
        if pair == "skip":
            continue
        if res["missing"] or res["extra"]:
            ctx.violation("C19:events-differ:%s:%s" % (pair_name(cfg, None), tail(w, cfg, ref)),
                          "the run under %s does not log the same events as the reference %s: missing %s, extra %s"
                          % (cfg_name(cfg), cfg_name(REF), res["missing"], res["extra"]), wit)
        else:
            f = res["first"]
            kind = orc.kind_of(f["key"], ref["kinds"])
            if kind in ("signal", "control", "actor", "activity"):
                kind = base_kind(f["key"], ref)
            acts = gen.all_acts(w)
            what = ""
            if f["key"][0] in ("start", "finish", "waited", "begun"):
                what = " of %s" % (acts.get(f["key"][1] % 1000000),)
            ctx.violation("C19:date:%s:%s:%s" % (kind, pair_name(cfg, kind), tail(w, cfg, ref)),
                          "earliest disagreement: %s%s is %r under %s and %r under the reference %s (difference %.3g s, tolerance %.3g s)"
                          % (f["key"], what, f["obs"], cfg_name(cfg), f["ref"], cfg_name(REF), abs(f["obs"] - f["ref"]), f["tol"]), wit)


def base_kind(key, ref):
    """Kind of the activity behind a signal event (names are a<id> / a<id>r); other events keep their own name."""
    if key[0].startswith("sig-"):
        n = key[1][1:]
        i = int(n[:-1]) + 1000000 if n.endswith("r") else int(n)
        return orc.KIND_NAMES.get(ref["kinds"].get(i), "activity")
    return {"sleep": "sleep", "ctl": "control"}.get(key[0], "actor")


def run_workloads(ctx, batch, flavour, corrupt=None):
    """batch = [(workload, configurations or None)]: one harness process for all of them (the start-up of a sanitized process is what costs)."""
    cases = []
    spans = []
    for w, cfgs in batch:
        cfgs = list(cfgs or configs(w["ti"]))
        if REF not in cfgs:
            cfgs = [REF] + cfgs
        spans.append((w, cfgs, len(cases)))
        cases += [(w, c) for c in cfgs]
    res = run_cases(ctx, cases, flavour)
    for w, cfgs, at in spans:
        judge(ctx, w, flavour, dict(zip(cfgs, res[at:at + len(cfgs)])), corrupt)


def run_workload(ctx, w, flavour, cfgs=None, corrupt=None):
    run_workloads(ctx, [(w, cfgs)], flavour, corrupt)


# ------------------------------------------------------------------------------------------------ directed cases
def _plat(hosts, links, routes):
    return {"hosts": [{"name": n, "cores": c, "speeds": sp, "profile": pr} for n, c, sp, pr in hosts],
            "links": [{"name": n, "bw": bw, "lat": lat, "pol": pol, "bwprof": bp, "latprof": lp} for n, bw, lat, pol, bp, lp in links],
            "routes": [{"src": s, "dst": d, "sym": 1, "links": [[l, "N"] for l in ls]} for s, d, ls in routes]}


def _two_hosts(speeds=(1e9,), lat=1e-3, bw=1e6, bwprof=None, latprof=None, profile=None):
    return _plat([("a", 1, list(speeds), profile), ("b", 1, [1e9], None)], [("l", bw, lat, "S", bwprof, latprof)], [("a", "b", ["l"])])


def _w(p, actors, ti):
    return {"platform": p, "actors": [{"name": n, "host": h, "script": sc} for n, h, sc in actors], "ti": ti, "features": ["directed"]}


def directed():
    """(name, workload, configurations or None for all). All but the last two are the minimal witnesses of the open known findings."""
    out = []
    # cpu/optim:TI, exec suspended from another host: the work done before the suspension is lost (5.2 instead of 4.2)
    out.append(("ti-suspend-loses-work", _w(_two_hosts(), [("v", "a", [["E", 0, "a", 2e9, -1.0, 1.0]]), ("ctl", "b", [["AZ", "v", 1.0, 2.2]])], True), None))
    # ... and the time spent suspended is credited at the resume (v ends at 18.3 instead of 20; alone it would end at its resume date)
    out.append(("ti-resume-overcredit", _w(_two_hosts(), [("v", "a", [["E", 0, "a", 10e9, -1.0, 1.0]]), ("w", "a", [["E", 1, "a", 10e9, -1.0, 1.0]]),
                                                         ("ctl", "b", [["AZ", "v", 1.0, 2.2]])], True), None))
    # cpu/optim:TI, priority raised at t=1 from another host
    out.append(("ti-update-priority", _w(_two_hosts(), [("v", "b", [["G", [["E", 0, "a", 2e9, -1.0, 1.0], ["E", 1, "a", 2e9, -1.0, 1.0]], [["U", 0, 1.0, 4.0]]]])], True), None))
    # cpu/optim:TI, pstate lowered at t=1 from another host
    out.append(("ti-pstate", _w(_two_hosts(speeds=(1e9, 5e8)), [("v", "a", [["E", 0, "a", 2e9, -1.0, 1.0]]), ("ctl", "b", [["S", 1.0], ["P", "a", 1]])], True), None))
    # bandwidth (resp. latency) event at 0.5 while the comm pays its latency until 1.301: lazy never completes it
    bp = {"period": -1.0, "points": [(0.0, 1e5), (0.5, 3e5)]}
    out.append(("bandwidth-event-during-latency", _w(_two_hosts(lat=0.1, bw=1e5, bwprof=bp), [("v", "a", [["C", 0, "a", "b", 1e5]])], True), None))
    lp = {"period": -1.0, "points": [(0.0, 0.1), (0.5, 0.05)]}
    out.append(("latency-event-during-latency", _w(_two_hosts(lat=0.1, bw=1e5, latprof=lp), [("v", "a", [["C", 0, "a", "b", 1e5]])], True), None))
    # comm suspended over [0.5, 0.8] while it pays its latency, another comm on the same link
    out.append(("comm-suspended-during-latency", _w(_two_hosts(lat=0.1, bw=1e5), [("v", "a", [["G", [["C", 0, "a", "b", 1e5], ["C", 1, "a", "b", 2e5]],
                                                                                               [["Z", 0, 0.5, 0.3]]]])], True), None))
    # cpu/optim:Lazy: update_priority(1) on an exec of priority 1 at t=1 removes its completion from the heap: it never completes
    out.append(("lazy-same-priority", _w(_two_hosts(), [("v", "b", [["G", [["E", 0, "a", 2e9, -1.0, 1.0]], [["U", 0, 1.0, 1.0]]]])], True), None))
    # Lazy: exec suspended by its owner at 1, the owner suspended over [1.5, 2] by another actor (which resumes the exec), second resume() at 3
    out.append(("lazy-double-resume", _w(_two_hosts(), [("v", "b", [["G", [["E", 0, "a", 4e9, -1.0, 1.0]], [["Z", 0, 1.0, 2.0]]]]), ("ctl", "b", [["AZ", "v", 1.5, 0.5]])], False),
                None))
    # expected to agree: the same dynamic features where every configuration handles them
    prof = {"period": 5.0, "points": [(0.0, 1.0), (1.5, 0.5), (2.5, 0.25), (4.0, 1.0)]}
    bpr = {"period": 6.0, "points": [(0.0, 1e6), (2.0, 5e5), (3.0, 2e6)]}
    p = _two_hosts(profile=prof, bwprof=bpr, lat=0.0)
    out.append(("ti-profile-sharing", _w(p, [("x%d" % i, "a", [["S", 0.3 * i], ["E", i, "a", 1e9 * (i + 1), -1.0, [1.0, 2.0, 0.5][i]]]) for i in range(3)] +
                                        [("snd", "a", [["C", 10 + k, "a", "b", 1.5e6] for k in range(3)])], True), None))
    p = _plat([("a", 4, [1e9, 5e8, 2e9], {"period": -1.0, "points": [(0.7, 0.5), (2.1, 1.0)]}), ("b", 1, [1e9], None), ("c", 2, [2e9], None)],
              [("l0", 1e6, 1e-3, "S", None, None), ("l1", 2e6, 0.0, "F", None, None), ("l2", 5e5, 1e-4, "D", None, None)],
              [("a", "b", ["l0", "l1"]), ("a", "c", ["l0", "l2"]), ("b", "c", ["l2"])])
    g1 = [["E", 0, "a", 1e9, -1.0, 1.0], ["E", 1, "a", 1e9, -1.0, 1.0], ["E", 2, "a", 5e8, 2.5e8, 1.0], ["E", 3, "a", 3e9, -1.0, 2.0], ["E", 4, "a", 3e9, -1.0, 0.5],
          ["E", 5, "a", 1e9, -1.0, 1.0]]
    g2 = [["C", 10, "a", "b", 1e6], ["C", 11, "b", "a", 5e5], ["C", 12, "a", "c", 1e6], ["C", 13, "a", "b", 1.0]]
    out.append(("multicore-all-features", _w(p, [
        ("m0", "b", [["G", g1, [["Z", 0, 0.3111111, 0.5222222], ["U", 3, 0.1333333, 4.0], ["W", 0.2111111], ["P", "a", 1], ["Z", 4, 0.4111111, 0.7333333], ["P", "a", 2]]],
                     ["E", 6, "a", 1.0, -1.0, 1.0]]),
        ("m1", "c", [["S", 0.45], ["E", 7, "c", 2e9, -1.0, 1.0], ["PUT", 20, "mb0", 3e5, 1e5], ["E", 8, "a", 2e9, 1e9, 3.0]]),
        ("m2", "b", [["G", g2, [["Z", 10, 0.7111111, 0.4222222]]], ["E", 9, "b", 1e9, -1.0, 1.0]]),
        ("m3", "a", [["AZ", "m1", 0.6111111, 0.8222222], ["S", 0.5], ["E", 14, "a", 2e9, -1.0, 1.0]]),
        ("r0", "a", [["S", 1.2], ["GET", 20, "mb0"]])], False), None))
    return out


ASAN_CFGS = [REF, ("Lazy", "Lazy"), ("Fullsel", "Fullsel")]


def plan(ctx):
    """[(workload, flavour, configurations or None for the whole matrix)]. The sanitizer flavour runs the agreeing directed workloads and one
    generated workload in ten under the reference, the default (Lazy/Lazy), the selective Full and, when applicable, the TI configuration."""
    n = ctx.size(30, 2500)
    items = []
    for name, w, cfgs in directed():
        items.append((w, "hooks", cfgs))
        if name in ("ti-profile-sharing", "multicore-all-features"):
            items.append((w, "asan", ASAN_CFGS + ([("TI", "Lazy")] if w["ti"] else [])))
    for i in range(n):
        rng = ctx.sub_rng("w", i)
        ti = i % 2 == 0
        w = gen.gen_workload(rng, ti)
        if rng.random() < 0.3:
            w["netmodel"] = rng.choice(["CM02", "SMPI"])
        items.append((w, "hooks", None))
        if i % 10 == 1:
            items.append((w, "asan", ASAN_CFGS + ([("TI", "Lazy")] if w["ti"] else [])))
    return items


def run(ctx):
    tmp = tempfile.mkdtemp(prefix="verif-C19-")
    try:
        for fl in ("hooks", "asan"):
            exe_of(fl)
        items = plan(ctx)
        ctx.sample({"workload": gen.workload_text(items[-1][0]).splitlines(), "configurations": [cfg_name(c) for c in configs(items[-1][0]["ti"])]})
        asan = [(w, cfgs) for w, fl, cfgs in items if fl == "asan"]
        per = 3 if ctx.tier == "quick" else 6
        batches = [("asan", asan[i:i + per]) for i in range(0, len(asan), per)]
        batches += [("hooks", [(w, cfgs)]) for w, fl, cfgs in items if fl == "hooks"]
        ctx.pmap(lambda b: run_workloads(ctx, b[1], b[0]), batches)
    finally:
        shutil.rmtree(tmp, ignore_errors=True)


def replay(ctx, wit):
    cfg = tuple(wit["cfg"])
    cfgs = [REF]
    for c in (cfg, (cfg[0], REF[1]), (REF[0], cfg[1])):
        if c not in cfgs:
            cfgs.append(c)
    run_workload(ctx, wit["workload"], wit["flavour"], cfgs)
