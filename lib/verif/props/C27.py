"""C27 Values with units are parsed to the documented magnitudes.

Monitor: every generated "<number><unit>" string is fed to the real parsers (xbt_parse_get_time/size/bandwidth/
bandwidths/speed) and compared with an independent Python transcription of the *documented* unit tables
(docs/source/XML_reference.rst + Platform docs) on top of a C-strtod model.
"""
import math
import re

from verif import build, proc
from verif.core import HarnessFailure

META = {
    "id": "C27", "engine": "E4 unit harness", "engine_path": "harness/units.cpp",
    "engine_kind": "C++ drivers linked to the real libsimgrid, python reference models",
    "level": "exploration",
    "technique": "reference-parser differential on generated value+unit strings (full unit cross product + malformed inputs)",
    "level_text": "Every documented unit/prefix of every kind is crossed with all number formats strtod accepts, plus "
                  "generated malformed numbers/unknown units; the real parser's result must equal number x documented "
                  "multiplier to 1 ulp or be a ParseError. Exhaustive over the unit tables, sampled over numbers.",
    "level_note": "Trusts the Python transcription of the documented tables and of C strtod's accepted grammar; "
                  "out-of-range/inf/nan literals are only required not to crash (statement silent).",
    "rule": "case = (kind, string); non-trivial = distinct (kind, unit-or-malformation-class, number-format) triples",
    "ready": True,
}

DEC = ["k", "M", "G", "T", "P", "E", "Z", "Y"]
BIN = ["Ki", "Mi", "Gi", "Ti", "Pi", "Ei", "Zi", "Yi"]


def doc_table(kind):
    """Documented multipliers (independent transcription of the documentation, not of the code)."""
    t = {}
    if kind == "time":
        t = {"w": 7 * 24 * 3600.0, "d": 24 * 3600.0, "h": 3600.0, "m": 60.0, "s": 1.0, "ms": 1e-3, "us": 1e-6,
             "ns": 1e-9, "ps": 1e-12}
    elif kind in ("size", "bw", "bws"):
        suf = "" if kind == "size" else "ps"
        for base, unitval in (("B", 1.0), ("b", 0.125)):
            t[base + suf] = unitval
            for i, p in enumerate(DEC):
                t[p + base + suf] = unitval * 1000.0 ** (i + 1)
            for i, p in enumerate(BIN):
                t[p + base + suf] = unitval * 1024.0 ** (i + 1)
    elif kind == "speed":
        t["f"] = 1.0
        t["flops"] = 1.0
        for i, p in enumerate(DEC):
            t[p + "f"] = 1000.0 ** (i + 1)
        for i, p in enumerate(["kilo", "mega", "giga", "tera", "peta", "exa", "zeta", "yotta"]):
            t[p + "flops"] = 1000.0 ** (i + 1)
    return t


DEFAULT_UNIT = {"time": "s", "size": "B", "bw": "Bps", "bws": "Bps", "speed": "f"}
# Spellings the documentation prints with an upper-case decimal kilo (XML_reference.rst: "1 KBps = 1,000 Bps").
DOC_UPPER_K = {"bw": ["KBps", "Kbps"], "bws": ["KBps", "Kbps"]}

_DECRE = re.compile(r"[ \t\n\v\f\r]*([+-]?)((?:[0-9]+\.?[0-9]*|\.[0-9]+)(?:[eE][+-]?[0-9]+)?)")
_HEXRE = re.compile(r"[ \t\n\v\f\r]*([+-]?)(0[xX](?:[0-9a-fA-F]+\.?[0-9a-fA-F]*|\.[0-9a-fA-F]+)(?:[pP][+-]?[0-9]+)?)")
_SPECIAL = re.compile(r"[ \t\n\v\f\r]*[+-]?(?:inf(?:inity)?|nan(?:\([0-9a-zA-Z_]*\))?)", re.I)


def strtod_model(s):
    """Return (value, rest, cls) like C strtod, or None when no conversion is performed.
    cls in {'dec','hex','special'}"""
    m = _HEXRE.match(s)
    if m:
        txt = m.group(2)
        body = txt
        if "p" not in body.lower():
            body += "p0"
        try:
            v = float.fromhex(body)
        except (ValueError, OverflowError):
            return (math.inf, s[m.end():], "range")
        return (-v if m.group(1) == "-" else v, s[m.end():], "hex")
    m = _SPECIAL.match(s)
    if m:
        return (math.nan, s[m.end():], "special")
    m = _DECRE.match(s)
    if m:
        try:
            v = float(m.group(2))
        except OverflowError:
            v = math.inf
        if v == 0 and re.search("[1-9]", m.group(2).lower().split("e")[0]):
            return (0.0, s[m.end():], "range")   # underflow to zero: ERANGE territory, statement silent
        return (-v if m.group(1) == "-" else v, s[m.end():], "dec")
    return None


def expected(kind, s):
    """-> ('ok', value) | ('err',) | ('any',)  (any = statement silent: only no-crash is required)"""
    r = strtod_model(s)
    if r is None:
        return ("err",)
    v, rest, cls = r
    if cls in ("special", "range"):
        return ("any",)
    if v != 0 and (abs(v) == math.inf or abs(v) < 2.3e-308):
        return ("any",)   # ERANGE territory: glibc-specific, statement silent
    unit = rest if rest != "" else DEFAULT_UNIT[kind]
    t = doc_table(kind)
    if unit in t:
        return ("ok", v * t[unit])
    if unit in DOC_UPPER_K.get(kind, []):
        return ("ok-docK", v * t["k" + unit[1:]])
    return ("err",)


NUMS = ["0", "1", "7", "42", "1.5", ".5", "5.", "1e3", "1E3", "2.5e-3", "+3", "-2", "1e+2", "0.1", "123456789.125",
        "0x10", "0x1.8p1", "1e0", "00012", "3.0000000000000001", "1e-9", "9.999e22"]


def gen_cases(ctx, nrandom):
    cases = []   # (kind, string, klass)
    kinds = ["time", "size", "bw", "speed"]
    # 1. full cross product documented units x number formats
    for kind in kinds:
        for unit in doc_table(kind):
            for num in NUMS:
                cases.append((kind, num + unit, "doc:%s:%s" % (kind, unit)))
        for unit in DOC_UPPER_K.get(kind, []):
            cases.append((kind, "3" + unit, "docK:%s:%s" % (kind, unit)))
        for num in NUMS:
            cases.append((kind, num, "unitless:%s" % kind))
    # 2. directed malformed
    bad_units = ["x", "S", "sec", "Ks", "kib", "KIB", "kiB", "Bp", "bp", "BPS", "bPs", "F", "Flops", "FLOPS", "kflops", "Kf",
                 "kilof", "megaf", "Gflops", "mf", "iB", "kk", "kKB", "Byte", "bytes", "Bps ", " Bps", "s ", "s\n", "B/s",
                 "ms2", "µs", "mS", "Ms", "hs", "ds", "ws", "mm", "min", "y", "Kib", "Mib", "KiB", "Ki", "k", "M", "Gi"]
    for kind in kinds:
        for u in bad_units:
            if kind == "speed" and "f" in u.lower():
                continue   # the documentation has no table of flop/s spellings: undocumented variants are not judged
            cases.append((kind, "10" + u, "badunit:%s:%s" % (kind, u)))
        for n in ["", "abc", "e5", "--1", "+-1", ".", "+", "-", "1,5", "1 5", "0x", "١٢"]:
            for u in ["", DEFAULT_UNIT[kind]]:
                cases.append((kind, n + u, "badnum:%s:%s" % (kind, n)))
        for n in ["1e999", "-1e999", "1e-999", "inf", "nan", "infinity", "INF", "NAN(1)"]:
            cases.append((kind, n + DEFAULT_UNIT[kind], "range:%s" % kind))
        # cross-kind units must be rejected
        for other in kinds:
            if other == kind:
                continue
            for u in list(doc_table(other))[:12]:
                if u not in doc_table(kind):
                    cases.append((kind, "2" + u, "crosskind:%s:%s" % (kind, other)))
    # 3. random
    rng = ctx.rng
    alpha = "kKmMgGtTpPeEzZyYibBfpsuwdhnlo.+-0123456789xX "
    for _ in range(nrandom):
        kind = rng.choice(kinds)
        t = list(doc_table(kind))
        mode = rng.random()
        if mode < 0.45:
            mant = rng.choice([str(rng.randint(0, 10**rng.randint(1, 15))),
                               "%.*f" % (rng.randint(0, 12), rng.uniform(0, 10**rng.randint(0, 9))),
                               "%.*e" % (rng.randint(0, 16), rng.uniform(0, 1) * 10.0**rng.randint(-30, 30)),
                               float(rng.uniform(0, 1e6)).hex()])
            sign = rng.choice(["", "", "+", "-"])
            cases.append((kind, sign + mant + rng.choice(t), "rand-valid:%s" % kind))
        elif mode < 0.7:
            u = rng.choice(t)
            # mutate one char of a valid unit
            i = rng.randrange(len(u))
            mu = rng.choice([u[:i] + u[i].swapcase() + u[i + 1:], u[:i] + u[i + 1:], u[:i] + rng.choice(alpha) + u[i:],
                             u + rng.choice(alpha)])
            cases.append((kind, str(rng.randint(1, 999)) + mu, "rand-mutunit:%s" % kind))
        else:
            s = "".join(rng.choice(alpha) for _ in range(rng.randint(1, 8)))
            cases.append((kind, s, "rand-garbage:%s" % kind))
    # bandwidth lists
    bws = []
    for _ in range(max(20, nrandom // 20)):
        k = rng.randint(1, 4)
        t = list(doc_table("bw"))
        toks = [str(rng.randint(1, 999)) + rng.choice(t) for _ in range(k)]
        if rng.random() < 0.2:
            toks[rng.randrange(k)] = "12zz"
        bws.append(("bws", rng.choice([";", ","]).join(toks), "bwlist"))
    return cases, bws


def ulp_close(a, b):
    if a == b:
        return True
    if a == 0 or b == 0:
        return abs(a - b) < 5e-324 * 4
    return abs(a - b) <= 2 * abs(math.ulp(b))


def check_cases(ctx, cases, exe):
    inp = "".join("%s %s\n" % (k, s.encode("utf-8").hex() or "-") for k, s, _ in cases)
    res = proc.run([exe], stdin=inp, timeout=300)
    if res.timed_out:
        ctx.inconclusive("units harness watchdog")
        return
    lines = res.out.splitlines()
    if res.rc != 0 or len(lines) != len(cases):
        # a crash inside the parser on some input is a violation: bisect to the input
        idx = len(lines)
        k, s, cl = cases[min(idx, len(cases) - 1)]
        reps = proc.sanitizer_reports(res.err)
        ctx.violation("C27:crash:%s" % cl.split(":")[0], "parser crashed (rc=%s) on %s %r; %s" % (res.rc, k, s, reps[:1]),
                      {"kind": k, "string": s, "stderr_tail": res.err[-2000:]})
        return
    for (kind, s, cl), line in zip(cases, lines):
        ctx.evaluation()
        parts = line.split()
        exp = expected(kind, s) if kind != "bws" else None
        if kind == "bws":
            toks = re.split("[;,]", s)
            exps = [expected("bw", t) for t in toks]
            if any(e[0] == "err" for e in exps):
                if parts[1] != "ERR":
                    ctx.violation("C27:accepted-malformed:bwlist", "bandwidth list %r accepted: %s" % (s, line), {"kind": kind, "string": s})
            elif all(e[0] == "ok" for e in exps):
                vals = [float(x) for x in parts[2:]] if parts[1] == "OKS" else None
                if vals is None or len(vals) != len(exps) or not all(ulp_close(a, e[1]) for a, e in zip(vals, exps)):
                    ctx.violation("C27:wrong-value:bwlist", "bandwidth list %r -> %s, expected %s" % (s, line, exps), {"kind": kind, "string": s})
                else:
                    ctx.nontrivial("bwlist:%d" % len(toks))
            continue
        if parts[1] == "OTHER":
            ctx.violation("C27:other-exception:%s" % cl.split(":")[0], "%s %r raised a non-ParseError: %s" % (kind, s, line), {"kind": kind, "string": s})
            continue
        if exp[0] == "any":
            ctx.count("cases.statement_silent")
            continue
        fmt = strtod_model(s)[2] if strtod_model(s) else "none"
        if exp[0] == "ok":
            if parts[1] != "OK":
                ctx.violation("C27:rejected-documented:%s" % cl, "%s %r rejected but documented (expected %r)" % (kind, s, exp[1]), {"kind": kind, "string": s})
            elif not ulp_close(float(parts[2]), exp[1]):
                ctx.violation("C27:wrong-value:%s" % cl, "%s %r -> %s, documented value %r" % (kind, s, parts[2], exp[1]), {"kind": kind, "string": s})
            else:
                ctx.count("accepted_ok")
                ctx.nontrivial("%s|%s" % (cl, fmt))
        elif exp[0] == "ok-docK":
            if parts[1] != "OK" or not ulp_close(float(parts[2]), exp[1]):
                ctx.violation("C27:rejected-documented:upper-K-decimal-prefix", "%s %r: the documentation spells the decimal kilo prefix 'K' "
                              "(1 KBps = 1,000 Bps) but the parser answers %s" % (kind, s, line), {"kind": kind, "string": s})
            else:
                ctx.nontrivial("%s|%s" % (cl, fmt))
        else:
            if parts[1] != "ERR":
                ctx.violation("C27:accepted-malformed:%s" % cl.split(":")[0] + ":" + kind, "%s %r accepted as %s; must be rejected" % (kind, s, line), {"kind": kind, "string": s})
            else:
                ctx.count("rejected_ok")
                ctx.nontrivial("%s|rej" % cl)


def run_check(ctx, flavours, nrandom):
    cases, bws = gen_cases(ctx, nrandom)
    ctx.sample({"kind": cases[0][0], "string": cases[0][1], "expected": expected(cases[0][0], cases[0][1])})
    ctx.sample({"kind": cases[-1][0], "string": cases[-1][1], "expected": expected(cases[-1][0], cases[-1][1])})
    ctx.sample({"kind": "bws", "string": bws[0][1]})
    for fl in flavours:
        exe = build.harness("units.cpp", fl)
        check_cases(ctx, cases + bws, exe)
        ctx.count("flavour." + fl)


def run(ctx):
    run_check(ctx, ["hooks", "asan"], ctx.size(2000, 200000))


def replay(ctx, witness):
    exe = build.harness("units.cpp", "hooks")
    check_cases(ctx, [(witness["kind"], witness["string"], "replay:x")], exe)
