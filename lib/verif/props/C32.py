"""C32 Groups and communicators follow MPI rules."""
from verif import build, proc
from verif.gen import mpi

META = {
    "id": "C32", "engine": "E5 smpi programs", "engine_path": "harness/mpi/groups.c",
    "engine_kind": "self-checking MPI C programs run under the real smpirun/SMPI",
    "level": "exploration",
    "technique": "in-program plain-array reference for group algebra (union/intersection/difference/incl/excl/range_*), rank translation, compare, Comm_split/dup/create, plus a same-(source,tag) message pair on a communicator and its duplicate",
    "level_text": "Worlds of 1-24 ranks; per case two random ordered subsets A, B of the world: every rank checks the members and the ORDER of "
                  "incl, union, intersection, difference, excl, range_incl/range_excl (positive and negative strides), translate_ranks A->B, "
                  "Group_compare; then a Comm_split with random colours (incl. MPI_UNDEFINED) and heavily tied keys (order by key then old rank, "
                  "verified both through the group and through an Allgather over the new communicator), Comm_dup (congruent, and a message "
                  "with the same source and tag sent on the duplicate first is not received on the original), Comm_create on the even positions.",
    "level_note": "Hooks flavour only (see C33). Inter-communicators are not exercised.",
    "rule": "case = (np, seed) -> 4 chained sub-cases in one smpirun; non-trivial = distinct (np, A, B) of the first sub-case with np>=2 whose run reached the SUM line",
    "ready": True,
}


def judge(ctx, res, np_, seed):
    lines = res.out.splitlines()
    desc = next((l for l in lines if l.startswith("CASE ")), None)
    crash = [l for l in lines if l.startswith("CRASH")]
    bads = [l for l in lines if l.startswith("BAD ")]
    summ = next((l for l in lines if l.startswith("SUM ")), None)
    w = {"np": np_, "seed": seed}
    seen = set()
    for b in bads:
        rule = b.split()[1]
        if rule in seen:
            continue
        seen.add(rule)
        ctx.violation("C32:%s" % rule, "np=%d seed=%d: %s" % (np_, seed, b), w)
    for c in crash:
        op = "signal"
        ctx.violation("C32:crash:%s" % op, "np=%d seed=%d: %s" % (np_, seed, c), w)
    if not crash and (res.rc != 0 or summ is None):
        ctx.violation("C32:abort", "np=%d seed=%d: smpirun rc=%s without SUM line: %s" % (np_, seed, res.rc, res.err[-300:]), w)
        return None
    if summ and not crash:
        ctx.count("mpi_result_checks", int(summ.split()[1].split("=")[1]))
        return desc
    return None


def run(ctx):
    n = ctx.size(80, 3000)
    exe = build.smpicc("mpi/groups.c", "hooks")
    nps = [1, 2, 3, 4, 6, 7, 8, 12, 16, 24]
    jobs = [(nps[i % len(nps)] if i % 3 else ctx.sub_rng(i).randint(1, 24), ctx.sub_seed(i) % 1000003) for i in range(n)]

    def one(j):
        np_, seed = j
        res = mpi.smpirun(exe, np_, [seed, 4])
        ctx.evaluation()
        if res.timed_out:
            ctx.inconclusive("smpirun watchdog")
            return
        desc = judge(ctx, res, np_, seed)
        if desc and np_ >= 2:
            ctx.nontrivial(" ".join(desc.split()[2:]))
        if desc:
            ctx.sample({"np": np_, "seed": seed, "grid": " ".join(desc.split()[2:])})
    try:
        ctx.pmap(one, jobs)
    finally:
        mpi.cleanup()


def replay(ctx, w):
    exe = build.smpicc("mpi/groups.c", "hooks")
    try:
        res = mpi.smpirun(exe, w["np"], [w["seed"], 4])
        ctx.evaluation()
        judge(ctx, res, w["np"], w["seed"])
    finally:
        mpi.cleanup()
