"""C22 Availability profiles are applied exactly."""
import random

from verif import build, proc
from verif.core import HarnessFailure
from verif.gen import avail as gen
from verif.oracles import avail as orc

META = {
    "id": "C22", "engine": "E1 s4u harness (profiles)", "engine_path": "harness/avail.cpp",
    "engine_kind": "S4U program building a generated platform (C++ platform API or generated XML + profile files), attaching generated "
                   "profiles, running scripted sampler and worker actors; python reference model",
    "level": "exploration",
    "technique": "reference-model differential: every API answer at/around every profile date and every activity end date compared with "
                 "the piecewise-constant function and its analytic integral",
    "level_text": "Generated speed / bandwidth / latency / host-state / link-state profiles (1-20 points, ties between points, points at "
                  "date 0, zero values, one-shot / LOOPAFTER / PERIODICITY with null and positive loop delays, several profiled resources "
                  "per platform) are attached through ProfileBuilder::from_string (directive in the text or periodicity argument), "
                  "ProfileBuilder::from_file, or the *_file attributes of a generated XML platform. A sampler actor reads get_speed / "
                  "get_available_speed / is_on / get_bandwidth / get_latency of every resource just before, exactly at, and just after "
                  "every profile date (two periods at least), the same values are dumped at every Engine::on_time_advance, the "
                  "resource signals (on_speed_change, on_onoff, on_bandwidth_change) give the dates at which SimGrid applied each point, "
                  "and worker actors run blocking and asynchronous execs (shared cores, bounds) and direct comms (shared / fatpipe links, "
                  "1-2 links, latencies) whose start dates tie with profile dates. The Python reference evaluates the documented "
                  "piecewise-constant periodic function, and integrates the resulting fair-share rates segment by segment to predict every "
                  "completion / failure date. cpu/optim Lazy, Full and TI, network/optim Lazy and Full; hooks and (10%) ASan+UBSan.",
    "level_note": "Network model CM02 with TCP-gamma 0 and no cross-traffic so that the documented rate of a flow is its max-min share of the "
                  "link bandwidths. In 'exact' scenarios every number is a small dyadic rational: dates add up exactly and a value read exactly "
                  "at a profile date must be the new one; in 'decimal' scenarios either value is accepted within precision/timing of a "
                  "date. Not judged (the statement is silent): what a latency change does to a message still paying the latency; an "
                  "activity that would end exactly when its resource is turned off (ok and failure both accepted). Hosts that are "
                  "endpoints of messages have no state profile (Comm::sendto towards an off host is outside the API contract). Every activity "
                  "is judged on its own: the reference is re-run with the activities that already deviated leaving when SimGrid said they "
                  "left, so one defect is reported once, under a key that names its class (open findings: known_findings.d/C22.json). "
                  "Under cpu/optim:TI the harness only calls get_available_speed() on hosts with a speed profile of >= 2 points (it crashes "
                  "otherwise: directed case) and never get_load(). The ASan cases have no state profile: the exception path under ASan on "
                  "a user-level context stack reports inside __cxa_demangle / the sigaltstack interceptor (sanitizer artefact, counted "
                  "inconclusive if it still happens). One harness process runs a chunk of cases, each in a forked child (one Engine each).",
    "rule": "case = one generated platform + profiles + scripts under one configuration; non-trivial = at least one value read exactly at a "
            "profile date or one activity whose life spans a profile point; distinct by scenario content",
    "assumptions": ["finish dates are compared within 5 x precision/timing + 1e-12 relative (lazy action heaps snap ends closer than 1e-9)"],
    "ready": True,
}

W = orc.PREC_TIMING
FAIL = {"hostfail": "fail", "canceled": "fail", "netfail": "fail"}      # which exception reports the failure is not the statement's business
KINDS = {"speed": ("h", 2), "hstate": ("h", 3), "bw": ("l", 1), "lat": ("l", 2), "lstate": ("l", 3)}
CBK = {"speed": "hspeed", "hstate": "honoff", "bw": "lbw", "lstate": "lonoff"}


def is_ti(sc):
    return "--cfg=cpu/optim:TI" in sc["flags"]


def horizon(sc):
    m = 8.0
    for a in sc["actors"]:
        for op in a["ops"]:
            if op[0] == "until":
                m = max(m, op[1])
    return m


def finalize(sc, rng, max_dates=40):
    """Add the sampler (needs the expanded profiles)."""
    tmax = horizon(sc)
    dates = []
    for p in sc["profiles"]:
        ev = orc.expand(p, tmax * 1.5 + 4)
        per = orc.period_of(p)
        if per:
            ev = [e for e in ev if e[0] <= p["pts"][-1][0] + 2.5 * per] or ev[:len(p["pts"])]
        ds = sorted(set(d for d, _ in ev))
        if len(ds) > 14:
            ds = ds[:6] + sorted(rng.sample(ds[6:], 8))
        dates += ds
    dates = sorted(set(dates))
    if len(dates) > max_dates:
        dates = sorted(rng.sample(dates, max_dates))
    gen.add_sampler(sc, dates, sc["eps"], tmax * 1.5 + 8)
    return sc


def run_cases(scs, flavour, budget=120):
    return gen.run_batch(build.harness("avail.cpp", flavour), scs, "verif-C22-", per_case_budget=budget)


def run_case(sc, flavour, budget=240):
    return run_cases([sc], flavour, budget)[0]


def initial_value(sc, p):
    if p["kind"] in ("speed", "hstate", "lstate"):
        return 1.0
    l = [l for l in sc["links"] if l["name"] == p["res"]][0]
    return l["bw"] if p["kind"] == "bw" else l["lat"]


def steps_of(sc, upto):
    st = {}
    for p in sc["profiles"]:
        st[(p["res"], p["kind"])] = orc.Step(initial_value(sc, p), orc.expand(p, upto))
    return st


def step_for(sc, steps, res, kind):
    if (res, kind) in steps:
        return steps[(res, kind)]
    if kind in ("speed", "hstate", "lstate"):
        return orc.Step(1.0, [])
    l = [l for l in sc["links"] if l["name"] == res][0]
    return orc.Step(l["bw"] if kind == "bw" else l["lat"], [])


def prof_class(sc, p):
    c = []
    if is_ti(sc):
        c.append("TI")
        if p and p["kind"] == "speed" and p["pts"][0][0] > 0:
            c.append("first-date>0")
    return ":".join(c)


def accepts(pr, status, clock):
    tol = orc.tolerance(clock)
    for s_, t_ in [(pr.status, pr.time)] + pr.alts:
        if FAIL.get(s_, s_) == FAIL.get(status, status) and (t_ == clock or abs(t_ - clock) <= tol):
            return True
    return False


def isolate(simulate, acts, obs, forced_at=None):
    """Judge every activity on its own: the reference is re-run with the activities that already deviated (or that the statement does not
    decide) leaving exactly when SimGrid said they left, earliest first. Returns id -> Pred on which the verdict is taken."""
    forced = {}
    verdict = {}
    for _ in range(len(acts) + 1):
        preds = simulate(forced)
        bad = []
        for a in acts:
            i = a["id"]
            if i in forced or i not in obs:
                continue
            if preds[i].unjudged or not accepts(preds[i], *obs[i]):
                bad.append((obs[i][1], i))
        if not bad:
            break
        _, b = min(bad)
        verdict[b] = preds[b]
        if forced_at is not None:
            forced_at[b] = dict(forced)
        forced[b] = obs[b][1]
    for a in acts:
        verdict.setdefault(a["id"], preds[a["id"]])
    return verdict


def has_zero(sc):
    return any(v == 0 for p in sc["profiles"] if p["kind"] in ("speed", "bw") for _, v in p["pts"])


def judge(ctx, sc, flavour, res, corrupt=None):
    """Returns True when the case was judged and non-trivial."""
    w0 = {"scenario": sc, "flavour": flavour}
    cfg = "TI" if is_ti(sc) else "cas01"
    if res.timed_out:
        ctx.inconclusive("avail harness watchdog")
        return False
    lg = orc.parse(res.out)
    if corrupt:
        corrupt(lg)
    if lg.bad:
        raise HarnessFailure("avail harness rejected its input: %s" % lg.bad[:3])
    if res.rc != 0 or lg.end is None:
        san = proc.sanitizer_reports(res.err)
        sig = "SIG%d" % res.signal if res.signal else "rc%s" % res.rc
        where = ""
        for fn, tag in (("get_power_scale", "get_power_scale"), ("binary_search", "binary_search"), ("get_load", "get_load"),
                        ("The Impossible Did Happen", "DIE_IMPOSSIBLE"), ("Variable penalty should not be negative", "set_latency-negative-penalty"), ("maxmin_solve", "maxmin_solve"), ("Profile::next", "Profile::next"),
                        ("pop_leq", "pop_leq")):
            if fn in res.err:
                where = ":" + tag
                break
        if san and (("__cxa_demangle" in res.err and "wait_for" in res.err) or "__interceptor_sigaltstack" in res.err):
            # libstdc++'s (uninstrumented) demangler / ASan's own sigaltstack interceptor, both reached through the exception path on a
            # user-level context stack: sanitizer artefacts (FRAMEWORK.md "Lessons"), not SimGrid's
            ctx.inconclusive("asan report inside __cxa_demangle / the sigaltstack interceptor on a context stack (exception path), not judged")
            return False
        if is_ti(sc) and any(p["kind"] == "speed" and p["pts"][0][0] > 0 for p in sc["profiles"]):
            where += ":first-date>0"
        if has_zero(sc):
            where += ":zero-availability-in-scenario"
        if is_ti(sc) and ("--avail-only-profiled" not in sc["hflags"] or any(p["kind"] == "speed" and len(p["pts"]) == 1 for p in sc["profiles"])):
            where += ":get_available_speed-on-FIXED-trace"
        ctx.violation("C22:crash:%s:%s:%s%s" % (cfg, sc["via"], san[0][0] if san else sig, where),
                      "harness died (%s) under %s: %s" % (sig, " ".join(sc["flags"]), (san[:1] or [res.err[-600:]])[0]), w0)
        return False
    exact = sc["mode"] == "exact"
    end = lg.end
    steps = steps_of(sc, end + 1.0)
    profs = {(p["res"], p["kind"]): p for p in sc["profiles"]}
    speeds = {h["name"]: h["speeds"][0] for h in sc["hosts"]}
    nontrivial = False

    # ---- (a) every value read by an actor ('S') or dumped at a time advance ('T') ----
    for kind, who, t, st in lg.samples:
        for name, rec in st.items():
            checks = []
            if rec[0] == "h":
                if rec[1] != speeds[name]:
                    ctx.violation("C22:value:get_speed", "Host::get_speed(%s) = %r at t=%r but the peak speed is %r (profiles must not change it)"
                                  % (name, rec[1], t, speeds[name]), w0)
                if rec[2] >= 0:
                    checks.append(("speed", rec[2]))
                checks.append(("hstate", float(rec[3])))
            else:
                checks += [("bw", rec[1]), ("lat", rec[2]), ("lstate", float(rec[3]))]
            for k, obs in checks:
                stp = step_for(sc, steps, name, k)
                near = stp.changes_in(t - W, t + W)
                strict = exact and all(d == t for d, _ in near)
                allowed = {stp.at(t)} if strict else stp.allowed(t, W)
                if k in ("hstate", "lstate"):
                    allowed = {1.0 if v > 0 else 0.0 for v in allowed}
                ctx.count("values.judged")
                if near:
                    ctx.count("values.at_a_profile_date" + (".strict" if strict else ".either_side_accepted"))
                    if strict:
                        nontrivial = True
                if obs in allowed:
                    continue
                p = profs.get((name, k))
                pos = "at-date" if near else "off-date"
                key = "C22:value:%s:%s:%s:%s" % (k, ":".join(x for x in (prof_class(sc, p), sc["via"]) if x), "actor" if kind == "S" else "time-advance", pos)
                if t == 0 and near and sc["via"] == "api" and not is_ti(sc):
                    key = "C22:point-at-date-0:api:value:%s" % k
                last = [e for e in stp.events if e[0] <= t][-3:]
                ctx.violation(key, "%s of %s read %s at t=%r is %r, the profile says %s (last points applied before: %r, next date %r; profile %r)"
                              % (k, name, "by an actor" if kind == "S" else "in on_time_advance", t, obs, sorted(allowed), last, stp.next_after(t), p), w0)

    # ---- (b) dates at which SimGrid applied the points (resource signals) ----
    if not is_ti(sc):
        for (resn, k), p in profs.items():
            if k not in CBK:
                continue
            stp = steps[(resn, k)]
            got = [c for c in lg.cb if c[1] == CBK[k] and c[2] == resn]
            exp = [e for e in stp.events if e[0] <= end + W]
            gi = 0
            prev = stp.initial
            for d, v in exp:
                vv = (1.0 if v > 0 else 0.0) if k in ("hstate", "lstate") else v
                pv = (1.0 if prev > 0 else 0.0) if k in ("hstate", "lstate") else prev
                prev = v
                tol = 0.0 if exact else W
                cbv = None
                if gi < len(got):
                    cbv = got[gi][4] if k == "speed" else got[gi][3]
                if gi < len(got) and abs(got[gi][0] - d) <= tol and cbv == vv:
                    gi += 1
                    ctx.count("signals.matched")
                    continue
                if k in ("hstate", "lstate") and vv == pv:
                    continue        # turning on what is on: no signal required
                if d >= end - W:
                    continue        # the simulation ended at that date
                ctx.violation("C22:signal:%s:%s:missing-or-misdated" % (k, sc["via"]),
                              "point (%r, %r) of the %s profile of %s: the next signal SimGrid fired for it is %r (signals: %r)"
                              % (d, v, k, resn, got[gi] if gi < len(got) else None, got[:12]), w0)
                break
            else:
                if gi < len(got):
                    ctx.violation("C22:signal:%s:%s:spurious" % (k, sc["via"]), "signal %r of %s matches no point of the profile %r" % (got[gi], resn, p), w0)

    # ---- (c) executions ----
    hosts = {h["name"]: h for h in sc["hosts"]}
    by_host = {}
    meta = {}
    for a in sc["actors"]:
        for op in a["ops"]:
            if op[0] in ("exec", "xstart") and op[1] in lg.xs:
                by_host.setdefault(op[2], []).append({"id": op[1], "start": lg.xs[op[1]][0], "flops": op[3], "bound": op[4]})
            if op[0] in ("comm", "cstart") and op[1] in lg.cs:
                meta.setdefault(op[3], []).append({"id": op[1], "start": lg.cs[op[1]], "size": float(op[4])})
    for hn, xs in by_host.items():
        h = hosts[hn]
        scale, state = step_for(sc, steps, hn, "speed"), step_for(sc, steps, hn, "hstate")
        obs = {}
        for x in xs:
            if x["id"] in lg.xe:
                clock, status, st_, ft_ = lg.xe[x["id"]]
                obs[x["id"]] = (status, clock)
                if status == "ok" and ft_ != clock:       # the waiter (a dedicated actor for asynchronous ones) is released at the completion date
                    ctx.violation("C22:exec:timestamps", "exec %s: wait() returned at %r but get_finish_time() = %r" % (x["id"], clock, ft_), w0)
        verdict = isolate(lambda forced: orc.simulate_cpu(h["cores"], h["speeds"][0], scale, state, xs, w=0.0 if exact else W, horizon=end + 1e6,
                                                          forced=forced), xs, obs)
        p = profs.get((hn, "speed"))
        for x in xs:
            pr = verdict[x["id"]]
            if x["id"] not in obs:
                ctx.violation("C22:exec:never-returned:%s" % cfg, "exec %r never returned (predicted %s at %r)" % (x, pr.status, pr.time), w0)
                continue
            status, clock = obs[x["id"]]
            ctx.evaluation()
            if pr.unjudged:
                ctx.count("execs.unjudged")
                continue
            ctx.count("execs.judged")
            span = scale.changes_in(x["start"], clock) or state.changes_in(x["start"], clock)
            if span:
                ctx.count("execs.judged.spanning_profile_points")
                nontrivial = True
            if accepts(pr, status, clock):
                if pr.time != orc.INF:
                    ctx.maximum("execs.worst_abs_error", abs(clock - pr.time))
                continue
            cls = "plain"
            if "zero" in pr.tags:
                cls = "zero-availability"
            elif is_ti(sc):
                cls = prof_class(sc, p)
            key = "C22:exec-finish:%s" % cls
            if cls == "plain" and x["start"] == 0 and sc["via"] == "api" and (scale.changes_in(0, 0) or state.changes_in(0, 0)):
                key = "C22:point-at-date-0:api:exec-finish"
            ctx.violation(key,
                          "exec %s of %r flops (bound %r) started at %r on %s (%d cores of %r flop/s): reference %s at %r%s, observed %s at %r; "
                          "speed profile %r, state profile %r, co-running %r"
                          % (x["id"], x["flops"], x["bound"], x["start"], hn, h["cores"], h["speeds"][0], pr.status, pr.time,
                             " (or %r)" % pr.alts if pr.alts else "", status, clock, p, profs.get((hn, "hstate")),
                             [(y["id"], y["start"], obs.get(y["id"])) for y in xs if y is not x]), w0)

    # ---- (d) messages ----
    for dst, cs in meta.items():
        r = [r for r in sc["routes"] if r["dst"] == dst][0]
        links = []
        for ln in r["links"]:
            l = [l for l in sc["links"] if l["name"] == ln][0]
            links.append({"name": ln, "policy": l["policy"], "bw": step_for(sc, steps, ln, "bw"), "lat": step_for(sc, steps, ln, "lat"),
                          "state": step_for(sc, steps, ln, "lstate")})
        w = 0.0 if exact else W
        obs = {}
        for c in cs:
            if c["id"] in lg.ce:
                clock, status, st_, ft_ = lg.ce[c["id"]]
                obs[c["id"]] = (status, clock)
                if status == "ok" and ft_ != clock:
                    ctx.violation("C22:comm:timestamps", "comm %s: wait() returned at %r but get_finish_time() = %r" % (c["id"], clock, ft_), w0)
        forced_at = {}
        verdict = isolate(lambda forced: orc.simulate_route(links, cs, capped=False, w=w, horizon=end + 1e6, forced=forced), cs, obs, forced_at)
        for c in cs:
            pr = verdict[c["id"]]
            lat0 = sum(k["lat"].at(c["start"]) for k in links)
            if c["id"] not in obs:
                cls = "plain"
                for l in links:
                    for d, v in l["lat"].changes_in(c["start"], end):
                        if sum(k["lat"].at(d) for k in links) == 0:
                            cls = "latency-point-leaves-route-latency-at-0"
                for l in links:
                    if [1 for d, v in l["lat"].changes_in(c["start"], c["start"] + lat0) if d > c["start"] or c["start"] == 0]:
                        cls = "latency-point-while-paying-latency"
                ctx.violation("C22:comm:never-returned:%s" % cls, "comm %r over %r never returned (reference: %s at %r); simulation ended at %r; "
                              "latency profiles %r" % (c, r["links"], pr.status, pr.time, end, [p for p in sc["profiles"] if p["res"] in r["links"] and p["kind"] == "lat"]), w0)
                continue
            status, clock = obs[c["id"]]
            ctx.evaluation()
            if pr.unjudged:
                ctx.count("comms.unjudged")
                continue
            ctx.count("comms.judged")
            if any(l[k].changes_in(c["start"], clock) for l in links for k in ("bw", "lat", "state")):
                ctx.count("comms.judged.spanning_profile_points")
                nontrivial = True
            if accepts(pr, status, clock):
                if pr.time != orc.INF:
                    ctx.maximum("comms.worst_abs_error", abs(clock - pr.time))
                continue
            # name the deviation: the same history (messages reported before leave when SimGrid said) under the non-documented variants
            fz = forced_at.get(c["id"], {})
            variants = [orc.simulate_route(links, cs, capped=m, w=w, horizon=end + 1e6, forced=fz)[c["id"]] for m in ((1, 2, 3) if w > 0 else (1,))]
            cp = variants[0]
            cls = "plain"
            for l in links:
                for d, v in l["lat"].changes_in(c["start"], max(clock, pr.time if pr.time != orc.INF else clock)):
                    if d > c["start"] and sum(k["lat"].at(d) for k in links) == 0:
                        cls = "latency-point-leaves-route-latency-at-0"
            if "lat-points-in-latency-phase" in pr.tags:
                cls = "latency-point-while-paying-latency"
            if "zero" in pr.tags:
                cls = "zero-bandwidth"
            elif any(accepts(v, status, clock) for v in variants):
                cls = "bandwidth-raised-after-start"
            elif any("zero" in v.tags and v.time != pr.time for v in variants):
                cls = "bandwidth-raised-after-start+zero-bandwidth"
            key = "C22:comm-finish:%s" % cls
            if cls == "plain" and c["start"] == 0 and sc["via"] == "api" and any(l[k].changes_in(0, 0) for l in links for k in ("bw", "lat", "state")):
                key = "C22:point-at-date-0:api:comm-finish"
            ctx.violation(key,
                          "message %s of %r bytes started at %r towards %s over %r: reference %s at %r%s, observed %s at %r (a flow limited for ever "
                          "to the smallest bandwidth its route had when it started would give %s at %r); profiles %r; other messages %r"
                          % (c["id"], c["size"], c["start"], dst, [(l["name"], l["policy"]) for l in links], pr.status, pr.time,
                             " (or %r)" % pr.alts if pr.alts else "", status, clock, cp.status, cp.time,
                             [p for p in sc["profiles"] if p["res"] in r["links"]], [(y["id"], y["start"], obs.get(y["id"])) for y in cs if y is not c]), w0)
    if nontrivial:
        sig = dict(sc)
        ctx.nontrivial(sig)
    return nontrivial


# ---------------------------------------------------------------------------------------------------------------- directed cases
def _base(mode="exact", via="api", ti=False, extra_flags=()):
    flags = (["--cfg=cpu/optim:TI"] if ti else []) + list(extra_flags) + ["--cfg=network/model:CM02", "--cfg=network/TCP-gamma:0", "--cfg=network/crosstraffic:0"]
    return {"mode": mode, "via": via, "flags": flags, "hflags": ["--no-load", "--avail-only-profiled"] if ti else [], "plugins": [], "eps": 2.0 ** -6, "step": 0.5,
            "hosts": [{"name": "obs", "cores": 1, "speeds": [1.0]}], "links": [], "routes": [], "profiles": [], "actors": []}


def directed():
    out = []
    # D1: the examples of XML_reference.rst (availability 1 0.5 / 2 0.2 / 5 1 / LOOPAFTER 5; state 1 0 / 2 1 / LOOPAFTER 8;
    #     bandwidth 4 40000000 / 8 60000000 / LOOPAFTER 12; latency 1 0.001 / 3 0.1 / LOOPAFTER 5), through XML files and through the API
    for via in ("xml", "api"):
        sc = _base("decimal", via)
        sc["eps"] = 1e-3
        sc["hosts"] += [{"name": "h1", "cores": 1, "speeds": [100.0]}, {"name": "h2", "cores": 2, "speeds": [100.0]}, {"name": "n1", "cores": 1, "speeds": [1.0]}]
        sc["links"] = [{"name": "l1a", "bw": 5e7, "lat": 0.01, "policy": "SHARED"}]
        sc["routes"] = [{"src": "obs", "dst": "n1", "links": ["l1a"]}]
        how = "xml" if via == "xml" else "str"
        sc["profiles"] = [
            {"kind": "speed", "res": "h1", "pts": [[1.0, 0.5], [2.0, 0.2], [5.0, 1.0]], "loop": ["LOOPAFTER", 5.0], "how": how},
            {"kind": "hstate", "res": "h2", "pts": [[1.0, 0.0], [2.0, 1.0]], "loop": ["LOOPAFTER", 8.0], "how": how if via == "xml" else "file"},
            {"kind": "bw", "res": "l1a", "pts": [[4.0, 4e7], [8.0, 6e7]], "loop": ["LOOPAFTER", 12.0], "how": how},
            {"kind": "lat", "res": "l1a", "pts": [[1.0, 0.001], [3.0, 0.1]], "loop": ["LOOPAFTER", 5.0], "how": how}]
        sc["actors"] = [{"name": "w0", "host": "obs", "ops": [["until", 0.5], ["exec", "x1", "h1", 1000.0, 0.0, 1.0, 1], ["exec", "x2", "h2", 1000.0, 0.0, 1.0, 1]]},
                        {"name": "w1", "host": "obs", "ops": [["until", 3.5], ["comm", "c1", "obs", "n1", 600000000]]}]
        out.append(("doc-examples:" + via, sc))
    # D2: exact ties: exec ending exactly at a profile date, starting at a profile date, host switched off at the end date
    sc = _base()
    sc["hosts"] += [{"name": "h1", "cores": 2, "speeds": [8.0]}]
    sc["profiles"] = [{"kind": "speed", "res": "h1", "pts": [[1.0, 0.5], [2.0, 0.25], [4.0, 1.0]], "loop": ["PERIODICITY", 6.0], "how": "strarg"},
                      {"kind": "hstate", "res": "h1", "pts": [[20.0, 0.0], [21.0, 1.0]], "loop": None, "how": "str"}]
    sc["actors"] = [{"name": "w0", "host": "obs", "ops": [["until", 1.0], ["xstart", "x1", "h1", 8.0, 0.0, 1.0, 1], ["xstart", "x2", "h1", 12.0, 0.0, 1.0, 1],
                                                          ["xstart", "x3", "h1", 4.0, 2.0, 1.0, 1], ["xwait", "x1"], ["xwait", "x2"], ["xwait", "x3"],
                                                          ["until", 19.0], ["exec", "x4", "h1", 100.0, 0.0, 1.0, 1], ["until", 20.5], ["exec", "x5", "h1", 1.0, 0.0, 1.0, 1],
                                                          ["until", 21.0], ["exec", "x6", "h1", 8.0, 0.0, 1.0, 1]]}]
    out.append(("ties:cpu", sc))
    # D3: link going off / on at tied dates, message starting while off, two links, fatpipe
    sc = _base()
    sc["hosts"] += [{"name": "n1", "cores": 1, "speeds": [1.0]}]
    sc["links"] = [{"name": "l1a", "bw": 16.0, "lat": 0.25, "policy": "SHARED"}, {"name": "l1b", "bw": 8.0, "lat": 0.25, "policy": "FATPIPE"}]
    sc["routes"] = [{"src": "obs", "dst": "n1", "links": ["l1a", "l1b"]}]
    sc["profiles"] = [{"kind": "bw", "res": "l1a", "pts": [[1.0, 8.0], [3.0, 4.0]], "loop": ["PERIODICITY", 4.0], "how": "str"},
                      {"kind": "lstate", "res": "l1b", "pts": [[10.0, 0.0], [11.0, 1.0], [11.0, 0.0], [12.0, 0.0], [12.0, 1.0]], "loop": None, "how": "file"}]
    sc["actors"] = [{"name": "w0", "host": "obs", "ops": [["cstart", "c1", "obs", "n1", 32], ["cstart", "c2", "obs", "n1", 16], ["cwait", "c1"], ["cwait", "c2"],
                                                          ["until", 9.5], ["comm", "c3", "obs", "n1", 1000], ["until", 10.5], ["comm", "c4", "obs", "n1", 1],
                                                          ["until", 11.0], ["comm", "c5", "obs", "n1", 1], ["until", 12.0], ["comm", "c6", "obs", "n1", 8]]}]
    out.append(("ties:link", sc))
    # D4 (finding): zero availability / zero bandwidth must stall the running activity
    sc = _base()
    sc["hosts"] += [{"name": "h1", "cores": 1, "speeds": [8.0]}]
    sc["profiles"] = [{"kind": "speed", "res": "h1", "pts": [[1.0, 0.0], [2.0, 0.5]], "loop": None, "how": "str"}]
    sc["actors"] = [{"name": "w0", "host": "obs", "ops": [["exec", "x1", "h1", 16.0, 0.0, 1.0, 1]]}]
    out.append(("zero:speed", sc))
    sc = _base()
    sc["hosts"] += [{"name": "n1", "cores": 1, "speeds": [1.0]}]
    sc["links"] = [{"name": "l1a", "bw": 16.0, "lat": 0.0, "policy": "SHARED"}]
    sc["routes"] = [{"src": "obs", "dst": "n1", "links": ["l1a"]}]
    sc["profiles"] = [{"kind": "bw", "res": "l1a", "pts": [[1.0, 0.0], [2.0, 8.0]], "loop": None, "how": "str"}]
    sc["actors"] = [{"name": "w0", "host": "obs", "ops": [["comm", "c1", "obs", "n1", 32]]}]
    out.append(("zero:bw", sc))
    sc = _base()
    sc["hosts"] += [{"name": "h1", "cores": 1, "speeds": [8.0]}]
    sc["profiles"] = [{"kind": "speed", "res": "h1", "pts": [[1.0, 0.0], [2.0, 0.5]], "loop": None, "how": "str"}]
    sc["actors"] = [{"name": "w0", "host": "obs", "ops": [["until", 1.5], ["exec", "x1", "h1", 16.0, 0.0, 1.0, 1]]}]
    out.append(("zero:exec-started-meanwhile", sc))
    # D4b (finding): a latency point (even one that repeats the current value) while a message is in flight
    for opt in ("Lazy", "Full"):
        sc = _base(extra_flags=["--cfg=network/optim:%s" % opt])
        sc["hosts"] += [{"name": "n1", "cores": 1, "speeds": [1.0]}, {"name": "n2", "cores": 1, "speeds": [1.0]}]
        sc["links"] = [{"name": "l1a", "bw": 16.0, "lat": 0.0, "policy": "SHARED"}, {"name": "l2a", "bw": 16.0, "lat": 1.0, "policy": "SHARED"}]
        sc["routes"] = [{"src": "obs", "dst": "n1", "links": ["l1a"]}, {"src": "obs", "dst": "n2", "links": ["l2a"]}]
        sc["profiles"] = [{"kind": "lat", "res": "l1a", "pts": [[1.0, 0.0]], "loop": None, "how": "str"},
                          {"kind": "lat", "res": "l2a", "pts": [[0.5, 1.0]], "loop": None, "how": "str"}]
        sc["actors"] = [{"name": "c_n1", "host": "obs", "ops": [["comm", "c1", "obs", "n1", 64]]},
                        {"name": "c_n2", "host": "obs", "ops": [["comm", "c2", "obs", "n2", 64]]}]
        out.append(("latency-point:" + opt, sc))
    # D5 (finding): a bandwidth that raises while a message is in flight
    sc = _base()
    sc["hosts"] += [{"name": "n1", "cores": 1, "speeds": [1.0]}]
    sc["links"] = [{"name": "l1a", "bw": 8.0, "lat": 0.0, "policy": "SHARED"}]
    sc["routes"] = [{"src": "obs", "dst": "n1", "links": ["l1a"]}]
    sc["profiles"] = [{"kind": "bw", "res": "l1a", "pts": [[1.0, 16.0]], "loop": None, "how": "str"}]
    sc["actors"] = [{"name": "w0", "host": "obs", "ops": [["comm", "c1", "obs", "n1", 64]]}]
    out.append(("raised:bw", sc))
    # D6 (finding): points at date 0 through the C++ API and through XML
    for via in ("api", "xml"):
        sc = _base(via=via)
        sc["hosts"] += [{"name": "h1", "cores": 1, "speeds": [8.0]}, {"name": "h2", "cores": 1, "speeds": [8.0]}]
        sc["profiles"] = [{"kind": "speed", "res": "h1", "pts": [[0.0, 0.5], [2.0, 1.0]], "loop": None, "how": "xml" if via == "xml" else "str"},
                          {"kind": "hstate", "res": "h2", "pts": [[0.0, 0.0], [1.0, 1.0]], "loop": None, "how": "xml" if via == "xml" else "str"}]
        sc["actors"] = [{"name": "w0", "host": "obs", "ops": [["exec", "x1", "h1", 16.0, 0.0, 1.0, 1]]}]
        out.append(("date0:" + via, sc))
    # D7 (findings): cpu/optim:TI
    sc = _base(ti=True)
    sc["hosts"] += [{"name": "h1", "cores": 1, "speeds": [8.0]}]
    sc["profiles"] = [{"kind": "speed", "res": "h1", "pts": [[0.0, 1.0], [1.0, 0.5], [2.0, 0.25]], "loop": ["LOOPAFTER", 1.0], "how": "str"}]
    sc["actors"] = [{"name": "w0", "host": "obs", "ops": [["until", 0.5], ["exec", "x1", "h1", 32.0, 0.0, 1.0, 1]]}]
    out.append(("TI:first-date=0", sc))
    sc = _base(ti=True)
    sc["hosts"] += [{"name": "h1", "cores": 1, "speeds": [8.0]}]
    sc["profiles"] = [{"kind": "speed", "res": "h1", "pts": [[1.0, 0.5], [2.0, 0.25]], "loop": ["LOOPAFTER", 1.0], "how": "str"}]
    sc["actors"] = [{"name": "w0", "host": "obs", "ops": [["until", 0.5], ["exec", "x1", "h1", 32.0, 0.0, 1.0, 1]]}]
    out.append(("TI:first-date>0", sc))
    sc = _base(ti=True)
    sc["hflags"] = ["--no-load"]           # get_available_speed() on a host without speed profile
    sc["hosts"] += [{"name": "h1", "cores": 1, "speeds": [8.0]}]
    sc["profiles"] = [{"kind": "speed", "res": "h1", "pts": [[0.0, 1.0], [1.0, 0.5]], "loop": ["LOOPAFTER", 1.0], "how": "str"}]
    sc["actors"] = [{"name": "w0", "host": "obs", "ops": [["until", 0.5], ["exec", "x1", "h1", 8.0, 0.0, 1.0, 1]]}]
    out.append(("TI:get_available_speed", sc))
    sc = _base(ti=True)
    sc["hosts"] += [{"name": "h1", "cores": 1, "speeds": [8.0]}]
    sc["profiles"] = [{"kind": "speed", "res": "h1", "pts": [[0.0, 1.0]], "loop": ["PERIODICITY", 2.0], "how": "str"}]
    sc["actors"] = [{"name": "w0", "host": "obs", "ops": [["until", 0.5], ["exec", "x1", "h1", 8.0, 0.0, 1.0, 1]]}]
    out.append(("TI:get_available_speed:one-point", sc))
    return out


def run(ctx):
    build.ensure("hooks")
    build.harness("avail.cpp", "hooks")
    n = ctx.size(quick=170, thorough=9000)
    nti = ctx.size(quick=30, thorough=1200)
    nasan = max(2, n // 10)
    cases = []
    for name, sc in directed():
        finalize(sc, random.Random(7))
        cases.append(("directed:" + name, sc, "hooks"))
    for i in range(n):
        rng = ctx.sub_rng("c", i)
        r = rng.random()
        sc, _ = gen.c22_scenario(rng, zero=r < 0.12, many=0.12 <= r < 0.22)
        finalize(sc, rng)
        cases.append(("gen%d" % i, sc, "hooks"))
    for i in range(nti):
        rng = ctx.sub_rng("ti", i)
        sc, _ = gen.c22_scenario(rng, ti=True, many=rng.random() < 0.1)
        finalize(sc, rng)
        cases.append(("ti%d" % i, sc, "hooks"))
    if nasan:
        build.ensure("asan")
        build.harness("avail.cpp", "asan")
        for i in range(nasan):
            rng = ctx.sub_rng("a", i)
            r = rng.random()
            sc, _ = gen.c22_scenario(rng, ti=r > 0.85, zero=r < 0.15, many=0.15 <= r < 0.3)
            # no link failure under ASan: the exception paths (NetworkFailureException, HostFailureException) call libstdc++'s uninstrumented demangler on a context
            # stack, which ASan reports as a stack-buffer-overflow (sanitizer artefact, not SimGrid's)
            sc["profiles"] = [p for p in sc["profiles"] if p["kind"] not in ("lstate", "hstate")]
            finalize(sc, rng)
            cases.append(("asan%d" % i, sc, "asan"))

    def one(chunk):
        flavour = chunk[0][2]
        results = run_cases([c[1] for c in chunk], flavour, budget=120 if flavour == "hooks" else 300)
        for (name, sc, _), res in zip(chunk, results):
            nt = judge(ctx, sc, flavour, res)
            ctx.count("cases." + flavour)
            ctx.count("cases." + ("TI" if is_ti(sc) else sc["via"]))
            ctx.count("cases." + sc["mode"])
            if nt and name.startswith("gen"):
                ctx.sample({"case": name, "profiles": sc["profiles"][:3], "flags": sc["flags"], "log_excerpt": res.out.splitlines()[:6]})
    chunks = []
    for fl in ("hooks", "asan"):
        mine = [c for c in cases if c[2] == fl]
        size = 12 if fl == "hooks" else 4
        chunks += [mine[i:i + size] for i in range(0, len(mine), size)]
    ctx.pmap(one, chunks)


def replay(ctx, witness):
    sc = witness["scenario"]
    res = run_case(sc, witness.get("flavour", "hooks"))
    judge(ctx, sc, witness.get("flavour", "hooks"), res)
