"""C46 File system accounting is consistent."""
from verif import build, proc

META = {
    "id": "C46", "engine": "E1 s4u harness (file ops)", "engine_path": "harness/fs.cpp",
    "engine_kind": "S4U program executing generated operation scripts on the real engine, python log checker",
    "level": "exploration",
    "technique": "conservation checker over the recorded operation log: disk used size == initial + sum of the sizes the file API itself reports; read bound; unlink gives back the reported size; reopened size == size at close",
    "level_text": "Generated scripts (<=40 operations on <=4 files of a mounted disk, new and pre-existing): open, appending / truncating-from-"
                  "the-middle / in-place writes, seeks (SET/CUR/END, also past the end), reads (short, exact, beyond the end), moves inside the "
                  "mount point, unlinks, close + reopen. After every operation the harness prints the handle's size()/tell() and the disk's "
                  "used size; the offline checker requires used == initial + sum over files of (last reported size - size when first opened), "
                  "read() <= size-position (and == min(requested, size-position)), unlink to decrease used by exactly size(), and a reopened "
                  "file to report the size it had when closed. The oracle uses only what the API reports, not a model of write semantics.",
    "level_note": "One handle per path at a time (two handles on one path cache independent sizes by design); a third of the scripts run again on a nearly full disk (0..150000 bytes of room: writes are cut short, refused, or cross the capacity); remote "
                  "files (other host) are not exercised. Plain and ASan+UBSan flavours.",
    "rule": "case = one script; non-trivial = distinct scripts containing at least one write at a position strictly inside a file or one unlink, fully checked",
    "ready": True,
}

PLATFORM = "/repo/examples/platforms/hosts_with_disks.xml"
EXISTING = ["/scratch/doc/simgrid/examples/cxx/autoDestination/Main.cxx", "/scratch/doc/simgrid/examples/cxx/autoDestination/Slave.cxx"]


def gen(rng):
    """Generate a script respecting API preconditions, tracking only what is needed to respect them (open handles, rough sizes)."""
    ops = []
    paths = ["/scratch/v/f%d" % i for i in range(3)] + [rng.choice(EXISTING)]
    handle = {}      # h -> path
    est = {}         # path -> rough size (only to place seeks inside files; the checker does not use it)
    inter = False
    nmove = 0
    for _ in range(rng.randint(8, 40)):
        free = [p for p in paths if p not in handle.values()]
        r = rng.random()
        if (not handle or r < 0.15) and free and len(handle) < 3:
            h = min(set(range(4)) - set(handle))
            p = rng.choice(free)
            handle[h] = p
            est.setdefault(p, 0 if "/v/" in p else 500)
            ops.append("o %d %s" % (h, p))
            continue
        if not handle:
            continue
        h = rng.choice(sorted(handle))
        p = handle[h]
        if r < 0.45:
            n = rng.choice([1, 10, 100, 4096, rng.randint(1, 100000)])
            inside = 1 if rng.random() < 0.35 else 0
            ops.append("w %d %d %d" % (h, n, inside))
            est[p] = max(est[p], n)
        elif r < 0.62:
            sz = max(est[p], 1)
            kind = rng.random()
            if kind < 0.6:
                off = rng.randint(0, sz)
                ops.append("s %d %d 0" % (h, off))
                if 0 < off < sz:
                    inter = True
            elif kind < 0.8:
                # SEEK_END with offset >= 0 only: the generator does not know the exact size (it may have been truncated) and
                # seeking before the start of a file is outside the API contract (asserts)
                ops.append("s %d %d 2" % (h, rng.choice([0, 0, 7])))
            else:
                ops.append("s %d %d 1" % (h, rng.randint(0, 20)))
        elif r < 0.80:
            ops.append("r %d %d" % (h, rng.choice([1, 50, 100000, 10 ** 9])))
        elif r < 0.86 and nmove < 3:
            nmove += 1
            np_ = "/scratch/v/moved%d" % nmove
            ops.append("m %d %s" % (h, np_))
            ops.append("c %d" % h)       # the handle keeps the old path: close it, the file now lives under the new path
            paths[paths.index(p)] = np_
            est[np_] = est.pop(p)
            del handle[h]
        elif r < 0.92:
            ops.append("u %d" % h)
            ops.append("c %d" % h)
            del handle[h]
            est[p] = 0
            inter = True
        else:
            ops.append("c %d" % h)
            del handle[h]
    return ops, inter


def check(ctx, ops, out_lines, w):
    """Offline checker over the recorded log. Returns True when fully checked."""
    init = out_lines[0].split()
    used0 = int(init[1])
    stored = {}     # path -> last reported size (files we touched)
    first = {}      # path -> size when first opened (pre-existing content)
    handle = {}     # h -> [path, last size, last pos]
    prev_used = used0
    for i, (op, l) in enumerate(zip(ops, out_lines[1:])):
        t = op.split()
        f = l.split()
        ret, size, tell, used = int(f[1]), int(f[2]), int(f[3]), int(f[4])
        h = int(t[1])
        kind = t[0]
        ctx.count("ops." + kind)
        if kind == "o":
            p = t[2]
            if p in stored and size != stored[p]:
                ctx.violation("C46:reopen-size", "op #%d %r: reopened file reports size %d, it had %d when last seen (script %r)" % (i, op, size, stored[p], ops[:i + 1]), w)
                return False
            first.setdefault(p, size)
            stored[p] = size
            handle[h] = [p, size, tell]
        elif kind == "c":
            handle.pop(h, None)
        else:
            p, osize, opos = handle[h]
            if kind == "r":
                req = int(t[2])
                avail = osize - opos
                if ret > max(avail, 0):
                    ctx.violation("C46:read-beyond-end", "op #%d %r returned %d with only %d bytes between position %d and end %d" % (i, op, ret, avail, opos, osize), w)
                    return False
                if ret != min(req, max(avail, 0)):
                    ctx.violation("C46:short-read", "op #%d %r returned %d, expected min(%d, %d)" % (i, op, ret, req, avail), w)
                    return False
            if kind == "u":
                if ret != 0 or prev_used - used != osize:
                    ctx.violation("C46:unlink-gives-back", "op #%d %r on a file of size %d: rc=%d, used went %d -> %d (script %r)" % (i, op, osize, ret, prev_used, used, ops[:i + 1]), w)
                    return False
                stored[p] = 0         # the file is gone: it now contributes -(its size when first seen)
                handle[h] = [p, 0, tell]
                size = 0
            elif kind == "m":
                np_ = t[2]
                stored[np_] = stored.pop(p)
                first[np_] = first.pop(p)
                handle[h][0] = np_
                handle[h][1:] = [size, tell]
            else:
                stored[p] = size
                handle[h][1:] = [size, tell]
        expect = used0 + sum(stored[p] - first[p] for p in stored)
        if used != expect:
            ctx.violation("C46:used-size-drift:after-%s" % ("w-truncating" if kind == "w" and t[3] == "0" else kind),
                          "after op #%d %r the disk reports %d used bytes but the files add up to %d (initial %d; reported sizes %r; script %r)"
                          % (i, op, used, expect, used0, stored, ops[:i + 1]), w)
            return False
        prev_used = used
    return True


def run_one(ctx, fl, ops, slack=None):
    """slack=None: the shipped platform (500GiB disk that never fills); otherwise a copy of it whose disk has room for
    `slack` more bytes than its initial content, so that writes hit (and cross) the capacity"""
    import os
    import tempfile
    exe = build.harness("fs.cpp", fl)
    plat = PLATFORM
    tmp = None
    if slack is not None:
        if not _USED0:
            r0 = proc.run([exe, PLATFORM, "--log=root.thres:error"], stdin="\n", timeout=120)
            _USED0.append(int(r0.out.split()[1]))
        tmp = tempfile.mkdtemp(prefix="verif-C46-")
        plat = os.path.join(tmp, "small_disk.xml")
        with open(PLATFORM) as f:
            xml = f.read()
        assert xml.count('value="500GiB"') == 1
        with open(plat, "w") as f:
            f.write(xml.replace('value="500GiB"', 'value="%dB"' % (_USED0[0] + slack)))
    try:
        res = proc.run([exe, plat, "--log=root.thres:error", "--cfg=path:" + os.path.dirname(PLATFORM)],
                       stdin="\n".join(ops) + "\n", timeout=120)
    finally:
        if tmp:
            import shutil
            shutil.rmtree(tmp, ignore_errors=True)
    return res


_USED0 = []


def run(ctx):
    n = ctx.size(200, 10000)
    scripts = []
    directed = ["o 0 /scratch/v/x", "w 0 100 0", "s 0 20 0", "w 0 30 0", "s 0 10 0", "w 0 5 1", "s 0 0 0", "r 0 1000", "c 0", "o 1 /scratch/v/x", "u 1", "c 1"]
    scripts.append((directed, True))
    for i in range(n):
        scripts.append(gen(ctx.sub_rng(i)))
    ctx.sample({"script": directed})
    ctx.sample({"script": scripts[1][0]})
    for fl in ("hooks", "asan"):
        build.harness("fs.cpp", fl)
    # a third of the scripts also run on a disk with little room left (0 .. 150000 bytes above its initial content): writes are
    # cut short or refused, appends cross the capacity; the oracle is the same (it only adds up what the API reports)
    slacks = [0, 1, 99, 100, 4096, 5000, 50000, 150000]
    directed_full = ["o 0 /scratch/v/a", "w 0 300 0", "o 1 /scratch/v/b", "w 1 900 0", "s 0 100 0", "w 0 50 0", "c 0", "o 0 /scratch/v/a",
                     "u 0", "c 0", "u 1", "c 1"]
    jobs = [("hooks", s, None) for s in scripts] + [("asan", s, None) for s in scripts[: max(10, n // 10)]] + \
           [("hooks", s, slacks[i % len(slacks)]) for i, s in enumerate(scripts[: max(20, n // 3)])] + \
           [("hooks", (directed_full, True), 1000), ("asan", (directed_full, True), 1000)]

    def one(j):
        fl, (ops, inter), slack = j
        res = run_one(ctx, fl, ops, slack)
        ctx.evaluation()
        w = {"flavour": fl, "ops": ops, "slack": slack}
        if slack is not None:
            ctx.count("runs_on_a_nearly_full_disk")
        if res.timed_out:
            ctx.inconclusive("fs harness watchdog")
            return
        lines = [l for l in res.out.splitlines() if l and (l[0].isdigit() or l.startswith("INIT"))]
        if res.rc != 0 or len(lines) != len(ops) + 1 or "END" not in res.out:
            idx = max(0, len(lines) - 1)
            ctx.violation("C46:crash:%s" % (ops[min(idx, len(ops) - 1)].split()[0]), "fs harness died rc=%s at op #%d %r: %s"
                          % (res.rc, idx, ops[min(idx, len(ops) - 1)], proc.sanitizer_reports(res.err)[:1] or res.err[-300:]), w)
            return
        if slack is not None and any(l.split()[1] == "0" and o.startswith("w ") and o.split()[2] != "0" for l, o in zip(lines[1:], ops)):
            ctx.count("writes_refused_because_the_disk_is_full")
        if check(ctx, ops, lines, w) and inter:
            ctx.nontrivial([ops, slack])
    ctx.pmap(one, jobs)


def replay(ctx, w):
    res = run_one(ctx, w["flavour"], w["ops"], w.get("slack"))
    ctx.evaluation()
    lines = [l for l in res.out.splitlines() if l and (l[0].isdigit() or l.startswith("INIT"))]
    if len(lines) == len(w["ops"]) + 1:
        check(ctx, w["ops"], lines, w)
