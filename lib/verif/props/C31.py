"""C31 Predefined reduction operators compute MPI results."""
from verif import build, proc
from verif.gen import mpi

META = {
    "id": "C31", "engine": "E5 smpi programs", "engine_path": "harness/mpi/ops.c",
    "engine_kind": "self-checking MPI C programs run under the real smpirun/SMPI",
    "level": "exploration",
    "technique": "element-wise C reference loops from the MPI definitions vs MPI_Reduce_local for every allowed (operator, datatype) pair, counts 0..17, extreme values, guard elements beyond count",
    "level_text": "All pairs MPI allows among MAX/MIN/SUM/PROD/LAND/LOR/LXOR/BAND/BOR/BXOR x 18 C integer types (incl. fixed width), float/double/"
                  "long double, C_BOOL (logical), BYTE (bitwise) and MINLOC/MAXLOC x the 6 pair types: random and extreme operands "
                  "(type min/max, 0, all-ones; overflow-free for signed SUM/PROD), counts 0,1,2,3,10,17; each output element must equal "
                  "the reference computed with the C type of the MPI datatype (so a wrong width/signedness mapping shows), elements beyond "
                  "count must be untouched, MINLOC/MAXLOC ties must keep the lowest index (values drawn from 5 levels so ties abound). "
                  "Three pairs MPI forbids are applied too and must not crash (an error class or any result is accepted).",
    "level_note": "MPI_REPLACE and MPI_NO_OP are defined by MPI for RMA accumulate calls only; MPI_Reduce_local rejects them here "
                  "(MPI_ERR_OP), which is compliant, so they are not judged (their RMA use belongs to C34, not built). Complex types and "
                  "Fortran types are not exercised. Hooks flavour only (see C33).",
    "rule": "case = (operator, datatype) pair x seed, each driven over 6 counts; non-trivial = distinct (operator, datatype) pairs whose every "
            "output element was compared",
    "ready": True,
}


def judge(ctx, res, seed):
    lines = res.out.splitlines()
    w = {"seed": seed}
    for c in [l for l in lines if l.startswith("CRASH")]:
        ctx.violation("C31:crash:%s:%s" % (c.split("op=")[1].split()[0], c.split("type=")[1].split()[0]), "seed %d: %s" % (seed, c), w)
        return
    seen = set()
    for b in [l for l in lines if l.startswith("BAD ")]:
        t = b.split()
        key = "C31:%s:%s:%s" % ("rejected" if "rejected" in b else "beyond-count" if "(beyond count)" in b else "wrong-value", t[1], t[2])
        if key not in seen:
            seen.add(key)
            ctx.violation(key, "seed %d: %s" % (seed, b), w)
    summ = next((l for l in lines if l.startswith("SUM ")), None)
    if res.rc != 0 or summ is None:
        ctx.violation("C31:abort", "seed %d: smpirun rc=%s without SUM line: %s" % (seed, res.rc, res.err[-300:]), w)
        return
    ctx.count("reduce_local_calls_checked", int(summ.split()[1].split("=")[1]))
    for l in lines:
        if l.startswith("PAIR "):
            ctx.evaluation()
            if l.endswith(" ok"):
                ctx.nontrivial(" ".join(l.split()[1:3]))
        if l.startswith("FORBIDDEN"):
            ctx.count("forbidden_pairs_no_crash")


def run(ctx):
    exe = build.smpicc("mpi/ops.c", "hooks")
    seeds = [ctx.sub_seed(i) % 1000003 for i in range(ctx.size(16, 400))]
    ctx.sample({"seed": seeds[0], "rounds": 3, "pairs": "10 ops x 18 integer types, 4 ops x 3 fp types, 3 logical ops x C_BOOL, 3 bitwise x BYTE, MINLOC/MAXLOC x 6 pair types"})

    def one(seed):
        res = mpi.smpirun(exe, 1, [seed, 3])
        if res.timed_out:
            ctx.inconclusive("smpirun watchdog")
            return
        judge(ctx, res, seed)
    try:
        ctx.pmap(one, seeds)
    finally:
        mpi.cleanup()


def replay(ctx, w):
    exe = build.smpicc("mpi/ops.c", "hooks")
    try:
        res = mpi.smpirun(exe, 1, [w["seed"], 3])
        judge(ctx, res, w["seed"])
    finally:
        mpi.cleanup()
