"""C38 - the reductions of the model checker are sound.

For every generated program the exploration *without* reduction (DFS, no strategy, max-errors:-1) gives the reference
set of terminal outcomes; every (reduction x explorer x strategy) configuration of the statement is then run on the
same program and must reach exactly the same set, print an error report iff a failure is reachable, and end with
a matching exit status.  The outcomes are logged by the application itself (harness/mc_vm2.cpp) from the
SIMGRID_VERIF hooks inside the verified process, so what is compared is what the program really did in each
explored execution, not what the checker believes.
"""
import os
import shutil
import tempfile
import threading

from verif import core
from verif.gen import mcprog2
from verif.oracles import mc_red
from verif.oracles.sync_sem import Ref

META = {
    "id": "C38",
    "engine": "E6 mc_diff",
    "engine_path": "harness/mc_vm2.cpp",
    "level": "exploration",
    "technique": "differential exploration: outcome sets logged by the application under each reduction/explorer/strategy "
                 "against reduction:none (and against a state-based reference interpreter for the core programs)",
    "level_text": "Each generated program is explored exhaustively without reduction; every reduced configuration must reach "
                  "the same set of program-visible terminal outcomes (observation vectors, deadlocked configurations, failing "
                  "assertions), report failures iff reachable and exit with the matching status. Exhaustive per program, "
                  "sampled over programs: the right level for a soundness claim that quantifies over all programs.",
    "level_note": "Trusted base: the VM harness/mc_vm2.cpp (observations are functions of the Mazurkiewicz trace only: "
                  "per-object counters touched under their lock, results of visible transitions), the exploration without "
                  "reduction as ground truth (cross-checked with the Python reference oracles/sync_sem.py on the core "
                  "population), hooks flavour only (simgrid-mc forks: sanitizer flavours are too slow). Mailbox iprobe is "
                  "not exercised: IprobeSimcall dereferences an smpi::Request, it is reachable from SMPI only. sthread "
                  "programs are not generated. reduction:none enumerates interleavings, so programs are kept to <= ~100 "
                  "(quick) / ~1500 (thorough) maximal interleavings.",
    "rule": "core programs from gen/mcprog.py (2-4 actors, mutex/semaphore/condvar/barrier/mailbox/create/join/MC_random/"
            "MC_assert) sized exactly by the reference interpreter; comm programs (put_async/get_async + one of wait, "
            "test, wait_any, test_any) sized by a static bound; directed minimal programs. Non-trivial: the reference "
            "has >= 2 distinct terminal outcomes or a reachable failure.",
    "assumptions": ["reduction:none with the DFS explorer and no strategy enumerates every maximal execution",
                    "a fired watchdog is inconclusive; a hang is only reported when a run exceeds twice a budget of "
                    "max(90 s, 8 x wall time of the unreduced exploration of the same program), then three times that"],
    "ready": True,
}

# Directed programs: (name, spec, pinned uniform-strategy configurations (reduction, explorer, rand-seed)).
# Directed cases are run with strategy none for every reduction x explorer, plus the pinned configurations: they do
# not depend on VERIF_SEED.  The first ones are the minimal witnesses of the open findings (so that the KNOWN-FINDING
# lines are deterministic and disappear once fixed); the others pin behaviours that are right today.
U = "uniform"
DIRECTED = [
    # two independent MC_random: 4 outcomes
    ("random-2x2", "actor Q0.1\nactor Q0.1\n", [("none", "BeFS", 1), ("dpor", "BeFS", 1), ("sdpor", "BeFS", 1), ("odpor", "BeFS", 1)]),
    # three critical sections: 3! orders
    ("mutex-3", "mutex 1\nactor L0 O0 U0\nactor L0 O0 U0\nactor L0 O0 U0\n",
     [("none", "BeFS", 1), ("dpor", "DFS", 1), ("sdpor", "DFS", 7), ("dpor", "BeFS", 2), ("odpor", "BeFS", 1), ("odpor", "BeFS", 3), ("none", "DFS", 1), ("odpor", "DFS", 1)]),
    # notify against a timed wait: signalled (w0=0) iff the waiter registered before the notification
    ("cond-timedwait-vs-notify", "mutex 1\ncond 1\nactor N0\nactor L0 w0.0 U0\n", []),
    ("cond-timedwait-vs-notify-assert", "mutex 1\ncond 1\nactor N0\nactor L0 w0.0 E0 U0\n", []),
    # lost wake-up: deadlock iff the notification comes first (found first), and the other way round
    ("cond-lost-wakeup", "mutex 1\ncond 1\nactor N0\nactor L0 W0.0 U0\n", []),
    ("cond-lost-wakeup-rev", "mutex 1\ncond 1\nactor L0 W0.0 U0\nactor N0\n", []),
    # receive posted then tested by its owner while the peer sends: t=0 and t=1 are both reachable
    ("test-vs-send", "mbox 1\nactor s0.1 c0\nactor r0 t0\n", []),
    ("test-vs-send-assert", "mbox 1\nactor s0.1 c0\nactor r0 t0 E0\n", []),
    # wait_any over two communications that can both be ready: a=0 then a=1, or a=1 then a=0
    ("waitany-2", "mbox 1\nactor s0.1 s0.2 a a\nactor r0 r0 c0 c1\n", []),
    # test_any over a set whose only activity is ready (the checker itself dies, whatever the reduction)
    ("testany-ready", "mbox 1\nactor s0.1 y c0\nactor r0 c0\n", []),
    # lock-order inversion and an assertion on a counter: deadlock and assertion failure both reachable
    ("deadlock+assert", "mutex 2\nactor L0 O0 L1 U1 U0\nactor L1 L0 O0 E1 U0 U1\n", []),
    ("lock-order", "mutex 2\nactor L0 L1 U1 U0\nactor L1 L0 U0 U1\n", []),
    # try_lock racing with a lock whose owner then fails an assertion (exploration after a soft-locked state)
    ("trylock-assert", "mutex 1\nactor T0 I2 O0 U0 L0 O0 U0\nactor Y L0 O0 E0\n", [("sdpor", "DFS", 868)]),
    # MC_random next to a join (odpor: "don't execute disabled transitions", bogus crash report)
    ("random-join", "actor Q0.1 Q0.1\nactor J0 Q0.1\n", []),
    ("recv-unmatched", "mbox 1\nactor G0\nactor Y\n", []),
    ("mbox-2to1", "mbox 1\nactor S0.1\nactor S0.2\nactor G0 G0\n", []),
    ("sem-handover", "sem 0 1b\nactor P0 P1 o1 V1\nactor P1 o1 V1 V0\n", []),
    ("cond-signal", "mutex 1\ncond 1\nactor L0 W0.0 O0 U0\nactor L0 O0 N0 U0\n", []),
    ("barrier-2of3", "mutex 1\nbarrier 2\nactor R0 L0 O0 U0\nactor R0 L0 O0 U0\nactor L0 O0 U0\n", []),
    ("trylock", "mutex 1\nactor T0 I2 O0 U0\nactor L0 O0 U0\n", []),
    ("create-join", "mutex 1\nactor K2 L0 O0 U0 J2\nactor L0 O0 U0\ndyn L0 O0 U0\n", []),
    ("async-wait", "mbox 2\nactor s0.1 s1.2 c1 c0\nactor r1 r0 c0 c1\n", []),
]

# the quick tier keeps one witness per open finding and a few programs that are right today
QUICK_DIRECTED = {"random-2x2", "mutex-3", "cond-timedwait-vs-notify-assert", "cond-lost-wakeup", "test-vs-send", "waitany-2",
                  "testany-ready", "trylock-assert", "random-join", "recv-unmatched", "mbox-2to1", "async-wait", "lock-order"}

REDUCTIONS = ("dpor", "sdpor", "odpor")


def configs(prog, rng, tier, nref, pinned=None):
    """The configurations of the statement for one program (the unreduced DFS exploration is the reference)."""
    nseed = 1 if tier == "quick" else 3
    out = []
    if pinned is not None:          # directed case: strategy none everywhere + the pinned uniform configurations
        for red in REDUCTIONS:
            for ex in mc_red.EXPLORERS:
                out.append(mc_red.Config(red, ex, "none", 0))
        out.append(mc_red.Config("none", "BeFS", "none", 0))
        for red, ex, seed in pinned:
            out.append(mc_red.Config(red, ex, "uniform", seed))
        if mcprog2.udpor_ok(prog):
            out.append(mc_red.Config("udpor"))
        return out
    for red in REDUCTIONS:
        for ex in mc_red.EXPLORERS:
            out.append(mc_red.Config(red, ex, "none", 0))
            for _ in range(nseed):
                out.append(mc_red.Config(red, ex, "uniform", rng.randrange(1, 10000)))
    # reduction none under the other explorer / strategy: as expensive as the reference, only on small programs
    if nref <= (40 if tier == "quick" else 400):
        out.append(mc_red.Config("none", "BeFS", "none", 0))
        out.append(mc_red.Config("none", "DFS", "uniform", rng.randrange(1, 10000)))
        out.append(mc_red.Config("none", "BeFS", "uniform", rng.randrange(1, 10000)))
    if mcprog2.udpor_ok(prog):
        out.append(mc_red.Config("udpor"))
    return out


def default_configs(prog):
    out = [mc_red.Config(red, ex, "none", 0) for red in ("none",) + REDUCTIONS for ex in mc_red.EXPLORERS]
    if mcprog2.udpor_ok(prog):
        out.append(mc_red.Config("udpor"))
    return out


def key_of(rule, detail, cfg, feat, rc):
    return "C38:%s:%s:cfg=%s:f=%s:ref=%s" % (rule, detail, cfg.name(), feat, rc)


def python_reference(prog):
    """Outcome set of the state-based reference interpreter, in the format of McResult.outcomes()."""
    r = Ref(prog).explore(max_states=200000)
    if not r["complete"]:
        return None
    out = set(("END", f) for f in r["end"]) | set(("DEADLOCK", f) for f in r["deadlock"])
    out |= set(("ASSERT", mc_red.assert_part(f)) for f in r["assert"])
    return out


class Evaluator:
    def __init__(self, ctx, vm, mc, workdir, selftest=None):
        self.ctx, self.vm, self.mc, self.workdir = ctx, vm, mc, workdir
        self.selftest = selftest          # (config name, mutate function): corrupt the log of that configuration
        self.t_ref = 300 if ctx.tier == "quick" else 1800
        self.keys = set()                 # every violation key of the run with the case that produced it (evidence)
        self.lock = threading.Lock()

    def report(self, rule, detail, text, cfg, case, feat, rc, max_errors, extra=None):
        w = {"name": case["name"], "spec": case["spec"], "pop": case["pop"], "config": cfg.to_json(),
             "max_errors": max_errors, "rule": rule, "detail": detail}
        if extra:
            w.update(extra)
        what = "%s [%s, max-errors:%d] on program '%s' (%s): %s\n%s" % (
            rule, cfg.tag(), max_errors, case["name"], feat, text, case["spec"].rstrip())
        key = key_of(rule, detail, cfg, feat, rc)
        with self.lock:
            self.keys.add("%s  [%s]" % (key, case["name"]))
        self.ctx.violation(key, what, w)

    def evaluate(self, case, only=None):
        """Reference + every configuration on one program. `only`: restrict to one configuration (replay)."""
        ctx = self.ctx
        prog = mcprog2.parse(case["spec"])
        feat = mcprog2.feature(prog)
        run = mc_red.Runner(self.vm, self.mc, self.workdir, case["name"], case["spec"])
        refcfg = mc_red.Config("none")
        ref, _ = run.run_confirmed(refcfg, self.t_ref)
        if ref.timed_out:
            ctx.inconclusive("watchdog:reference:%s" % case["pop"])
            return
        ctx.evaluation()
        ctx.count("reference.executions", len(ref.complete()))
        ctx.maximum("reference.executions_max", len(ref.complete()))
        rcl = "unknown"
        issues = mc_red.self_consistency(ref)
        if issues and issues[0][0] == "abort":
            # the unreduced exploration itself dies: nothing to compare with, but that is a failure of the checker
            self.report("abort", issues[0][1], issues[0][2], refcfg, case, feat, rcl, -1)
            ctx.count("reference.aborted")
            ctx.nontrivial(case["spec"])
            return
        rcl = mc_red.refclass(ref)
        for rule, detail, text in issues:
            self.report(rule, detail, text, refcfg, case, feat, rcl, -1)
        ro = ref.outcomes()
        ctx.count("reference.outcomes", len(ro))
        ctx.count("programs.%s" % case["pop"])
        ctx.count("programs.ref=%s" % rcl)
        if len(ro) >= 2 or rcl != "clean":
            ctx.nontrivial(case["spec"])
        if len(ctx.samples) < ctx.max_samples:
            ctx.sample({"program": case["spec"], "feature": feat, "reference_executions": len(ref.complete()),
                        "reference_outcomes": sorted("%s %s" % o for o in ro)[:6]})
        # the reference semantics of the statement: state-based interpreter (core population only)
        if case["pop"] != "comm" and not (mcprog2.ops_used(prog) & set("srctay")):
            pr = python_reference(prog)
            if pr is None:
                ctx.count("pyref.too_big")
            else:
                ctx.count("pyref.compared")
                if pr != ro:
                    lost, inv = pr - ro, ro - pr
                    ex = sorted(lost or inv)[0]
                    self.report("ref", "lost" if lost else "invented",
                                "the exploration without reduction and the reference interpreter disagree: %d outcome(s) only "
                                "in the reference, %d only in simgrid-mc (e.g. %s %s)" % (len(lost), len(inv), ex[0], ex[1]),
                                refcfg, case, feat, rcl, -1)
        rng = ctx.sub_rng("cfg", case["name"], case["spec"])
        cfgs = configs(prog, rng, ctx.tier, len(ref.complete()), case.get("pinned"))
        if only is not None:
            cfgs = [only] if only.reduction != "none" or only.explorer != "DFS" or only.strategy != "none" else []
        budget = max(90.0, 8.0 * ref.wall)
        if only is None or case.get("max_errors", -1) == -1:
            for cfg in cfgs:
                mut = self.selftest[1] if self.selftest and self.selftest[0] == cfg.name() else None
                res, hang = run.run_confirmed(cfg, budget, mutate=mut)
                if res.timed_out:
                    if hang:
                        self.report("hang", "watchdog-twice", "no answer within %.0f s then %.0f s (the unreduced exploration of "
                                    "the same program took %.1f s)" % (budget, 3 * budget, ref.wall), cfg, case, feat, rcl, -1)
                    else:
                        ctx.inconclusive("watchdog:%s" % cfg.name())
                    continue
                ctx.evaluation()
                ctx.count("runs.%s" % cfg.reduction)
                ctx.count("executions.%s" % cfg.reduction, len(res.complete()))
                if cfg.reduction == "udpor" and res.rc not in (0, 2) and res.aborted and "no specialized computation" in res.log:
                    ctx.count("udpor.refused")        # documented refusal of an unsupported transition type
                    continue
                if (cfg.explorer == "BeFS" or cfg.reduction == "udpor") and mc_red.cut_short(res):
                    ctx.count("cut_short.%s" % ("udpor" if cfg.reduction == "udpor" else cfg.explorer))
                    inv = res.outcomes() - ro
                    if inv:
                        ex = sorted(inv)[0]
                        self.report("invented", "+".join(sorted(set(k for k, _ in inv))), "%d outcome(s) never reached without "
                                    "reduction (e.g. %s %s)" % (len(inv), ex[0], ex[1]), cfg, case, feat, rcl, -1)
                    continue
                issues = mc_red.self_consistency(res)
                for rule, detail, text in issues:
                    self.report(rule, detail, text, cfg, case, feat, rcl, -1)
                if issues and issues[0][0] == "abort":
                    continue
                for rule, detail, text in mc_red.compare(ref, res):
                    self.report(rule, detail, text, cfg, case, feat, rcl, -1)
                if len(res.complete()) < len(ref.complete()):
                    ctx.count("reduced_runs_smaller_than_reference")
        # default settings (max-errors:0): the verdict a user gets.  Only informative when a failure is reachable.
        if rcl != "clean" and (only is None or case.get("max_errors", -1) == 0):
            dcfgs = default_configs(prog) if only is None else [only]
            for cfg in dcfgs:
                res, hang = run.run_confirmed(cfg, budget, max_errors=0)
                if res.timed_out:
                    if hang:
                        self.report("hang", "watchdog-twice", "no answer within %.0f s then %.0f s" % (budget, 3 * budget),
                                    cfg, case, feat, rcl, 0)
                    else:
                        ctx.inconclusive("watchdog:default:%s" % cfg.name())
                    continue
                ctx.evaluation()
                ctx.count("runs.default_mode")
                if cfg.reduction == "udpor" and res.rc not in (0, 1, 2) and "no specialized computation" in res.log:
                    ctx.count("udpor.refused")
                    continue
                for rule, detail, text in mc_red.default_mode_rules(ref, res):
                    self.report(rule, detail, text, cfg, case, feat, rcl, 0)


def generate(ctx):
    """The cases of one run: directed + core + comm, all derived from the seed."""
    quick = ctx.tier == "quick"
    cases = [{"name": "d-" + n, "spec": s, "pop": "directed", "pinned": pin} for n, s, pin in DIRECTED
             if not quick or n in QUICK_DIRECTED]
    ncore = ctx.size(quick=4, thorough=160)
    ncomm = ctx.size(quick=3, thorough=120)
    max_paths = 80 if quick else 1200
    bound = 120 if quick else 2500
    for i in range(ncore):
        rng = ctx.sub_rng("core", i)
        kw = {}
        if i % 2 == 0:
            kw["clean"] = True                  # half of the programs without any reachable failure, >= 2 outcomes
        p, _ = mcprog2.core(rng, max_paths, **kw)
        cases.append({"name": "core%d" % i, "spec": mcprog2.text(p), "pop": "core"})
    exts = ["wait", "test", "waitany", "wait", "testany", "wait", "test", "waitany"]
    for i in range(ncomm):
        rng = ctx.sub_rng("comm", i)
        p, _ = mcprog2.comm(rng, exts[i % len(exts)], bound)
        cases.append({"name": "comm%d" % i, "spec": mcprog2.text(p), "pop": "comm"})
    only = os.environ.get("VERIF_C38_ONLY")        # development aid: restrict to some populations / case names
    if only:
        keep = set(only.split(","))
        cases = [c for c in cases if c["pop"] in keep or c["name"] in keep]
    return cases


def run(ctx):
    vm, mc = mc_red.binaries("hooks")
    wd = tempfile.mkdtemp(prefix="verif-C38-")
    try:
        ev = Evaluator(ctx, vm, mc, wd, selftest=_selftest_from_env())
        cases = generate(ctx)
        ctx.pmap(ev.evaluate, cases)
        ctx.extra["violation_keys"] = sorted(ev.keys)
    finally:
        shutil.rmtree(wd, ignore_errors=True)


def replay(ctx, witness):
    vm, mc = mc_red.binaries("hooks")
    wd = tempfile.mkdtemp(prefix="verif-C38-")
    try:
        ev = Evaluator(ctx, vm, mc, wd)
        case = {"name": witness.get("name", "replay"), "spec": witness["spec"], "pop": witness.get("pop", "core"),
                "max_errors": witness.get("max_errors", -1)}
        ev.evaluate(case, only=mc_red.Config.from_json(witness["config"]))
    finally:
        shutil.rmtree(wd, ignore_errors=True)


# ---------------------------------------------------------------------------------------------------------------------
def _selftest_from_env():
    """Oracle self-test (tools/oracle_selftest.md): VERIF_C38_SELFTEST=<mode> corrupts the *observed log* of the
    dpor/DFS/none configuration before it is compared, never SimGrid.
      drop    remove every record of one terminal outcome        -> lost
      forge   rewrite one observation value in one record        -> invented (+ lost)
      hide    turn the DEADLOCK records into END records         -> lost/invented + verdict
    """
    mode = os.environ.get("VERIF_C38_SELFTEST")
    if not mode:
        return None

    def mutate(text):
        lines = [l for l in text.splitlines() if l.startswith("T ")]
        if not lines:
            return text
        if mode == "drop":
            fp = lines[-1].split(" | ")[1]
            lines = [l for l in lines if l.split(" | ")[1] != fp]
        elif mode == "forge":
            parts = lines[0].split(" | ")
            parts[1] = parts[1].replace("=", "=9", 1) if "=" in parts[1] else parts[1] + "x"
            lines[0] = " | ".join(parts)
        elif mode == "hide":
            lines = [l.replace("T DEADLOCK ", "T END ", 1) for l in lines]
        else:
            raise core.HarnessFailure("unknown VERIF_C38_SELFTEST mode " + mode)
        return "\n".join(lines) + "\n"
    return ("dpor/DFS/none", mutate)
