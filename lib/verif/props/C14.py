"""C14 - Real runs conform to the reference interleaving semantics.

Generated synchronisation-only programs (<=5 actors x <=12 ops over FIFO mutexes, semaphores, condition variables,
barriers, mailboxes, actor create/join) are explored exhaustively by the Python reference semantics (oracles/cex_ref.py:
all interleavings, states memoised): set of reachable terminal observation vectors, set of reachable deadlock
configurations (who is blocked where, with which observations).  The same program is then run by the real simulator
*without* the model checker, many times, each time under another legal scheduling perturbation that the untimed reference
cannot see: context factory (raw, thread, boost; parallel raw/thread contexts for programs without create/join), start order
of the actors (= pid order, which breaks every same-date tie), hidden 0-3 ms sleeps before each operation (seeded; moves
actors relatively to each other, many exact ties), 1 or 3 hosts with different speeds and link latencies, hooks / asan
flavours.  Every run must
  * end in a state of the reference's terminal set (final per-actor positions + observations),
  * print "Deadlock detected" and fire Engine::on_deadlock exactly once iff that state is a reference deadlock, with the
    on_deadlock-time configuration equal to the final one, and list exactly the blocked actors in its status dump,
  * when an MC_assert of the program fails (plain xbt_assert natively) do so at a position / with observations of the
    failing actor that the reference can reach,
  * not end in any other way (crash, sanitizer report, abort).
"""
import hashlib
import os
import shutil
import tempfile
import threading

from verif import build
from verif.gen import mcprog_cex
from verif.oracles import cex_ref, mc_cex

META = {
    "id": "C14",
    "engine": "E1 native runs of generated programs + reference of E6",
    "engine_path": "harness/mc_vm_cex.cpp",
    "level": "exploration",
    "technique": "membership of every native run's final state / deadlock report in the exhaustively explored outcome set "
                 "of an independent reference semantics, under legal scheduling perturbations",
    "level_text": "Each program is decided exactly by the reference (complete exploration of all interleavings, bounded "
                  "state count); the real scheduler is sampled along the perturbation axes that exist natively (factory, "
                  "pid order, timing jitter with ties, platform, flavour).  Exploration over programs and schedules is the "
                  "right level: the program space is unbounded and the native scheduler offers no exhaustive control.",
    "level_note": "The reference is the two-step (request/wait) semantics also used against simgrid-mc in C41, a superset "
                  "of the single-simcall native behaviours (a timed condition wait may time out at any moment, a signalled "
                  "waiter may re-queue on its mutex later than natively), which is what the statement asks: membership, not "
                  "equality.  Programs whose reference exploration exceeds the state bound are skipped.  Natively an "
                  "assertion failure stops the process in the middle of a scheduling round: only the failing actor's own "
                  "position and observations are compared then.  asan flavour on ~10 % of the programs (thread factory).",
    "rule": "a case = (program, perturbation); non-trivial when the program has >=2 reachable terminal states or a reachable "
            "deadlock and the native run produced a result line; distinct by program text + perturbation",
    "assumptions": [
        "the VM only makes valid S4U calls (guards on unlock / cond wait / binary-semaphore release / join / create)",
        "observations are taken only under the object they describe, so they are a function of the interleaving",
    ],
    "ready": True,
}


def _short(text, n=3000):
    return text if len(text) <= n else text[:n // 2] + "\n...[cut]...\n" + text[-n // 2:]


def fam_key(prog):
    f = [x for x in mcprog_cex.families_of(prog).split("+") if x and x not in ("assert", "sleep", "exit", "random")]
    return "+".join(f) or "none"


def variants(prog, rng, tier, asan):
    """Perturbations for one program: list of dicts(factory, nthreads, jitter, order, hosts, flavour)."""
    ninit = [i for i, (dyn, _) in enumerate(prog.actors) if not dyn]
    has_cj = any(k in "KJ" for _, ops in prog.actors for k, _, _ in ops)

    def perm():
        o = list(ninit)
        rng.shuffle(o)
        return o

    base = {"factory": None, "nthreads": None, "jitter": None, "order": None, "hosts": None, "flavour": "hooks"}
    out = [dict(base), dict(base, factory="thread"), dict(base, factory="boost")]
    nj = 3 if tier == "quick" else 8
    for _ in range(nj):
        out.append(dict(base, factory=rng.choice([None, None, "thread", "boost"]), jitter=rng.randrange(1, 1 << 30)))
    for _ in range(2 if tier == "quick" else 5):
        out.append(dict(base, order=perm(), jitter=rng.choice([None, rng.randrange(1, 1 << 30)])))
    out.append(dict(base, order=list(reversed(ninit))))
    out.append(dict(base, hosts=3, jitter=rng.randrange(1, 1 << 30), factory=rng.choice([None, "thread"])))
    out.append(dict(base, hosts=3, order=perm()))
    if not has_cj:
        out.append(dict(base, factory="thread", nthreads=2, jitter=rng.choice([None, rng.randrange(1, 1 << 30)])))
        out.append(dict(base, factory="raw", nthreads=3, order=perm()))
    if asan:
        out.append(dict(base, factory="thread", flavour="asan"))
        out.append(dict(base, factory="thread", flavour="asan", jitter=rng.randrange(1, 1 << 30), order=perm()))
    return out


def judge(refres, nat):
    """Oracle on one native run (dict of mc_cex.run_native). Returns (rule, what) or None."""
    terminal = refres["end_n"] | refres["deadlock_n"]
    if nat["asserted"] is not None:
        segs = [x for x in nat["asserted"].split("|") if len(x.split(":")) > 1 and x.split(":")[1][:1] == "B"
                and x.split(":")[1][1:].isdigit()]
        if len(segs) != 1 or segs[0] not in refres["assert_own"]:
            return ("assert-unreachable", "the run fails an assertion at %s; the reference only has %s"
                    % (nat["asserted"], sorted(refres["assert_own"])[:8]))
        if nat["rc"] not in (134, -6):
            return ("abnormal-exit", "assertion failure ends with status %s instead of an abort" % nat["rc"])
        return None
    if nat["rc"] != 0 or nat["final"] is None:
        return ("abnormal-exit", "the run ends with status %s, %s result line, after%s deadlock report; stderr tail: %s"
                % (nat["rc"], "no" if nat["final"] is None else "a", "" if nat["oops"] else " no",
                   (nat["err"] or "").strip().splitlines()[-3:]))
    fin = nat["final"]
    if fin not in terminal:
        return ("final-unreachable%s" % ("+deadlock-reported" if nat["oops"] else ""),
                "the run ends in %s which the reference cannot reach (%d terminal + %d deadlock states reachable, e.g. %s)"
                % (fin, len(refres["end_n"]), len(refres["deadlock_n"]), sorted(terminal)[:3]))
    if fin in refres["deadlock_n"]:
        if nat["oops"] != 1 or nat["n_deadlock"] != 1:
            return ("deadlock-not-reported", "the run ends in the reference deadlock %s but 'Deadlock detected' was printed "
                    "%d time(s) and on_deadlock fired %d time(s)" % (fin, nat["oops"], nat["n_deadlock"]))
        if nat["deadlock"] != fin:
            return ("deadlock-configuration", "on_deadlock fired in configuration %s but the run ended in %s" % (nat["deadlock"], fin))
        nb = sum(1 for x in fin.split("|") if x.split(":")[1][:1] == "B")
        if nat["blocked"] and len(nat["blocked"]) != nb:
            return ("deadlock-status-dump", "the deadlock report lists %d blocked actors (%s), the final state has %d"
                    % (len(nat["blocked"]), sorted(nat["blocked"].items()), nb))
    else:
        if nat["oops"] or nat["n_deadlock"]:
            return ("deadlock-false", "the run terminated normally in %s but a deadlock was reported (%d message(s), %d signal(s))"
                    % (fin, nat["oops"], nat["n_deadlock"]))
    if nat["n_final"] != 1:
        return ("abnormal-exit", "%d result lines" % nat["n_final"])
    return None


def self_relock(prog):
    """Static over-approximation: some actor may execute L<m> while it holds m (skips ignored)."""
    for _, ops in prog.actors:
        held = set()
        for k, a, b in ops:
            if k == "L":
                if a in held:
                    return True
                held.add(a)
            elif k == "T":
                held.add(a)
            elif k == "U":
                held.discard(a)
    return False


def classify_crash(prog, nat):
    """Stable feature of an abnormal exit, for the key."""
    err = nat["err"] or ""
    # (under UBSan the null dereference that segfaults the plain build is reported as a member call on a null pointer)
    sig = "SIGSEGV" if ("Segmentation fault" in err or nat["rc"] in (139, -11)
                        or (nat["rc"] == 87 and "on null pointer" in err)) else \
        "abort" if nat["rc"] in (134, -6) else "asan" if nat["rc"] == 86 else "ubsan" if nat["rc"] == 87 else "rc%s" % nat["rc"]
    when = "after-deadlock-report" if nat["oops"] else "no-deadlock-report"
    feat = ""
    if nat["oops"] and nat["deadlock"]:
        # which kinds of objects were the actors blocked on when the kernel cleaned up?
        kinds = set()
        for seg in nat["deadlock"].split("|"):
            f = seg.split(":")
            if f[1][:1] == "B" and f[1][1:].isdigit():
                i, pc = int(f[0]), int(f[1][1:])
                ops = prog.actors[i][1]
                kinds.add({"L": "mutex", "P": "sem", "W": "cond", "w": "cond", "R": "barrier", "S": "mbox", "G": "mbox",
                           "J": "join"}.get(ops[pc][0], "end") if pc < len(ops) else "end")
        feat = ":barrier-waiter" if "barrier" in kinds else ":" + "+".join(sorted(kinds))
    return "%s:%s%s" % (sig, when, feat)


def evaluate(ctx, env, item, corrupt=None):
    prog, text, refres, var, name = item
    h = hashlib.sha1(text.encode()).hexdigest()[:12]
    spec = os.path.join(env["wd"], "p-%s.spec" % h)
    if not os.path.exists(spec):
        with open(spec + ".tmp%d" % id(var), "w") as f:
            f.write(text)
        os.replace(spec + ".tmp%d" % id(var), spec)
    vm = env["vm"][var["flavour"]]
    nat = mc_cex.run_native(vm, spec, factory=var["factory"], nthreads=var["nthreads"], jitter=var["jitter"],
                            order=var["order"], hosts=var["hosts"],
                            timeout=env["timeout"] * (3 if var["flavour"] == "asan" else 1))
    if nat["timed_out"]:
        ctx.inconclusive("watchdog:native:%s" % var["flavour"])
        return None
    if corrupt:
        corrupt(nat)
    ctx.evaluation()
    ctx.count("native.runs")
    ctx.count("native.runs.%s%s.%s" % (var["factory"] or "default", "-par" if var["nthreads"] else "", var["flavour"]))
    for k in ("jitter", "order", "hosts"):
        if var[k]:
            ctx.count("native.runs.with_" + k)
    nterm = len(refres["end_n"]) + len(refres["deadlock_n"])
    if (nterm >= 2 or refres["deadlock_n"]) and (nat["final"] is not None or nat["asserted"] is not None):
        ctx.nontrivial([text, sorted((k, str(v)) for k, v in var.items())])
    bad = judge(refres, nat)
    if bad is None:
        if nat["asserted"] is not None:
            ctx.count("native.outcome.assert_reachable")
        elif nat["final"] in refres["deadlock_n"]:
            ctx.count("native.outcome.deadlock_confirmed")
            ctx.count("native.deadlock.blocked_actors_listed", len(nat["blocked"]))
        else:
            ctx.count("native.outcome.end_reachable")
        return nat["final"] or nat["asserted"]
    rule, what = bad
    if rule == "abnormal-exit":
        key = "C14:abnormal-exit:%s" % classify_crash(prog, nat)
    else:
        key = "C14:%s:%s" % (rule, fam_key(prog))
    if "RELOCK " in (nat["out"] or "") and (rule != "abnormal-exit" or nat["rc"] in (134, -6)):
        # The run went through "the owner locks its non-recursive mutex again" and came back from it (a run that blocks
        # there, as documented, ends in a reachable deadlock and never gets here): known defect; from then on the kernel
        # holds a stale queued acquisition of the owner, so whatever follows is attributed to it.
        key = "C14:mutex-relock-by-owner-does-not-block"
        what = "an actor locks a non-recursive mutex it already owns and goes on instead of deadlocking with itself " \
               "(Mutex.hpp: 'if an actor tries to lock the same object twice, it deadlocks with itself'; simgrid-mc does " \
               "block it): " + what
    ctx.violation(key, "%s\nprogram (%s):\n%sperturbation: %s" % (what, name, text, var),
                  {"spec": text, "variant": var, "name": name, "stdout": _short(nat["out"]), "stderr": _short(nat["err"]),
                   "cmd": nat["cmd"], "env": nat["env"]})
    return None


def _gen(args):
    seed, max_states, want_multi = args
    import random
    rng = random.Random(seed)
    for _ in range(300):
        p, fam = mcprog_cex.generate(rng, max_actors=5, max_ops=12, want_failure=None)
        r = cex_ref.Ref(p).explore(max_states=max_states)
        if not r["complete"] or r["states"] < 6:
            continue
        nterm = len(r["end_n"]) + len(r["deadlock_n"])
        if want_multi and nterm < 2 and not (r["deadlock_n"] and r["assert_own"]):
            continue
        if self_relock(p) and rng.random() < 0.8:      # open known finding (directed case "relock"): keep only a few of them
            continue
        return p.text(), _slim(r)
    return None


def _slim(r):
    return {k: r[k] for k in ("end_n", "deadlock_n", "assert_own", "states", "paths")}


# programs run on every execution (besides gen/mcprog_cex.DIRECTED): the second one pins the open known finding
EXTRA_DIRECTED = [
    ("producer-consumer", "mutex 1\ncond 1\nsem 0\nactor L0 O0 N0 U0 V0 L0 O0 A0 U0\nactor L0 W0.0 O0 U0 P0\nactor L0 w0.0 O0 U0\n"),
    ("barrier-never-full", "barrier 2\nactor R0\n"),
    ("relock", "mutex 1\nactor L0 O0 L0 O0 U0\nactor Y L0 O0 U0\n"),
    ("barrier-reuse", "barrier 2 3\nmutex 1\nactor R0 L0 O0 U0 R1 R0\nactor R0 R1 L0 O0 U0 R0\nactor L0 O0 U0 R1\n"),
    ("ring", "mbox 3\nactor S0.1 G2\nactor G0 S1.2\nactor G1 S2.3\n"),
    ("sem-pingpong", "sem 0 0\nmutex 1\nactor V0 P1 L0 O0 U0 V0 P1\nactor P0 L0 O0 U0 V1 P0 V1\n"),
    ("fifo-handoff", "mutex 1\nactor L0 O0 Y U0 L0 O0 U0\nactor Y L0 O0 U0\nactor Y Y L0 O0 U0\nactor L0 O0 U0 Y L0 O0 U0\n"),
]


def make_env(ctx):
    env = {"vm": {"hooks": mc_cex.binaries("hooks")[0]}, "wd": tempfile.mkdtemp(prefix="verif-C14-"), "timeout": 120,
           "lock": threading.Lock()}
    try:
        env["vm"]["asan"] = build.harness("mc_vm_cex.cpp", flavour="asan", internal=True)
    except build.BuildError:
        ctx.assume("asan flavour not available")
    return env


def run(ctx):
    env = make_env(ctx)
    try:
        progs = []
        for name, prog in mcprog_cex.directed() + [(n, cex_ref.parse(t)) for n, t in EXTRA_DIRECTED]:
            r = cex_ref.Ref(prog).explore(max_states=60000)
            if not r["complete"]:
                raise RuntimeError("directed program %s does not fit the reference bound" % name)
            progs.append((name, prog, prog.text(), _slim(r)))
        n = ctx.size(quick=80, thorough=3000)
        import multiprocessing as mp
        bound = 6000 if ctx.tier == "quick" else 40000
        jobs = [(ctx.sub_seed("g", i), bound, i % 4 != 0) for i in range(n)]
        workers = max(1, min(int(os.environ.get("VERIF_JOBS", "16")), 16))
        with mp.Pool(workers) as pool:
            gen = pool.map(_gen, jobs, chunksize=2)
        for i, g in enumerate(gen):
            if g is None:
                ctx.count("generator.gave_up")
                continue
            progs.append(("g%d" % i, cex_ref.parse(g[0]), g[0], g[1]))
        items = []
        for j, (name, prog, text, r) in enumerate(progs):
            ctx.count("programs")
            nterm = len(r["end_n"]) + len(r["deadlock_n"])
            ctx.count("reference.terminal_states", nterm)
            ctx.count("programs.with_reachable_deadlock" if r["deadlock_n"] else "programs.deadlock_free")
            if r["deadlock_n"] and r["end_n"]:
                ctx.count("programs.deadlock_only_on_some_schedules")
            ctx.maximum("reference.states_max", r["states"])
            asan = "asan" in env["vm"] and (j % 10 == 0)
            for var in variants(prog, ctx.sub_rng("v", name, text), ctx.tier, asan):
                items.append((prog, text, r, var, name))
        finals = ctx.pmap(lambda it: evaluate(ctx, env, it), items)
        seen = {}
        for it, f in zip(items, finals):
            if f is not None:
                seen.setdefault(it[1], set()).add(f)
        ctx.count("native.distinct_outcomes_observed", sum(len(v) for v in seen.values()))
        ctx.count("programs.with_several_native_outcomes", sum(1 for v in seen.values() if len(v) > 1))
        for name, prog, text, r in progs[:3]:
            ctx.sample({"program": text, "reference_terminal": sorted(r["end_n"])[:4], "reference_deadlock": sorted(r["deadlock_n"])[:4],
                        "native_outcomes": sorted(seen.get(text, []))[:6]})
    finally:
        shutil.rmtree(env["wd"], ignore_errors=True)


def replay(ctx, witness):
    env = make_env(ctx)
    try:
        prog = cex_ref.parse(witness["spec"])
        r = cex_ref.Ref(prog).explore(max_states=200000)
        if not r["complete"]:
            ctx.inconclusive("reference bound")
            return
        evaluate(ctx, env, (prog, prog.text(), _slim(r), witness["variant"], witness.get("name", "replay")))
    finally:
        shutil.rmtree(env["wd"], ignore_errors=True)
