"""C45 Random draws are in range, unbiased and portable.

Monitor: the real xbt generator (default implementation) is driven with generated (seed, min, max) requests; every draw is
(a) range-checked, (b) compared with an independent Python MT19937 + rejection-sampling reference (the algorithm SimGrid
documents as its own, so the sequence cannot depend on the C++ standard library), (c) pooled into chi-square uniformity
tests for small ranges with a very conservative threshold.
"""
import math

from verif import build, proc
from verif.core import HarnessFailure

META = {
    "id": "C45", "engine": "E4 unit harness", "engine_path": "harness/rng.cpp",
    "engine_kind": "C++ drivers linked to the real libsimgrid, python reference models",
    "level": "exploration",
    "technique": "range monitor + exact differential against an independent MT19937/rejection-sampling reference + chi-square on small ranges",
    "level_text": "Every draw of generated (seed,min,max) requests - boundary ranges (single value, 2^k, 2^k+-1, INT_MIN..INT_MAX, "
                  "negative spans) and random ones - is checked for range and for bit-equality with a reference that uses nothing "
                  "but the MT19937 recurrence and SimGrid's documented rejection rule; uniformity is tested statistically. "
                  "Sampled over ranges/seeds; the universal claim over all 2^32 ranges is not proved.",
    "level_note": "Trusts the Python MT19937 transcription (self-tested against the published 10000th output 4123659995) and reads "
                  "'fixed by SimGrid's own code' as the anchored rejection-sampling algorithm over raw mt19937 outputs.",
    "rule": "case = (kind, seed, min, max, n draws); non-trivial = distinct (kind, range class, seed) with >=1 draw; range classes: "
            "single, pow2, pow2+-1, full, huge(>2^31), negative, random",
    "ready": True,
}

M32 = 0xFFFFFFFF


class MT:
    def __init__(self, seed):
        self.mt = [0] * 624
        self.mt[0] = seed & M32
        for i in range(1, 624):
            self.mt[i] = (1812433253 * (self.mt[i - 1] ^ (self.mt[i - 1] >> 30)) + i) & M32
        self.idx = 624

    def next(self):
        if self.idx >= 624:
            mt = self.mt
            for i in range(624):
                y = (mt[i] & 0x80000000) | (mt[(i + 1) % 624] & 0x7FFFFFFF)
                mt[i] = mt[(i + 397) % 624] ^ (y >> 1) ^ (0x9908B0DF if y & 1 else 0)
            self.idx = 0
        y = self.mt[self.idx]
        self.idx += 1
        y ^= y >> 11
        y ^= (y << 7) & 0x9D2C5680
        y ^= (y << 15) & 0xEFC60000
        y ^= y >> 18
        return y & M32


def ref_int(g, mn, mx):
    rng = (mx - mn)
    if rng == M32:
        v = (g.next() + mn) & M32
        return v - (1 << 32) if v >= (1 << 31) else v
    rng += 1
    limit = M32 - M32 % rng
    while True:
        v = g.next()
        if v < limit:
            break
    return v % rng + mn


def ref_real(g, mn, mx):
    while True:
        num = g.next()
        if num != M32:
            break
    return mn + (mx - mn) * float(num) / float(M32)


def klass(mn, mx):
    r = mx - mn + 1
    if r == 1:
        return "single"
    if r == 1 << 32:
        return "full"
    if r > 1 << 31:
        return "huge"
    if r & (r - 1) == 0:
        return "pow2"
    if (r + 1) & r == 0 or (r - 1) & (r - 2) == 0:
        return "pow2pm1"
    if mn < 0:
        return "negative"
    return "random"


def gen(ctx, nreq, ndraw):
    rng = ctx.rng
    IMIN, IMAX = -(1 << 31), (1 << 31) - 1
    reqs = []
    directed = [(0, 0), (5, 5), (IMIN, IMIN), (IMAX, IMAX), (0, 1), (0, 2), (0, 3), (0, 6), (1, 6), (-1, 1), (0, 255), (0, 256), (0, 254),
                (IMIN, IMAX), (IMIN, IMAX - 1), (IMIN + 1, IMAX), (0, IMAX), (IMIN, 0), (IMIN, -1), (-(1 << 30), 1 << 30),
                (0, (1 << 31) - 2), (-3, 1 << 30), (0, 3 * (1 << 29)) if False else (0, (1 << 30) + (1 << 29)), (IMIN, (1 << 30)),
                (0, 99), (1, 100), (-50, 49), (0, 9), (0, 4)]
    for mn, mx in directed:
        reqs.append(("I", rng.randint(0, IMAX), ndraw, mn, mx))
    for _ in range(nreq):
        a, b = rng.randint(IMIN, IMAX), rng.randint(IMIN, IMAX)
        if rng.random() < 0.5:
            a = rng.randint(-1000, 1000)
            b = a + rng.randint(0, 1 << rng.randint(0, 31))
            b = min(b, IMAX)
        mn, mx = min(a, b), max(a, b)
        reqs.append(("I", rng.choice([0, 1, 42, IMAX, -1, rng.randint(IMIN, IMAX)]), ndraw, mn, mx))
    for _ in range(max(10, nreq // 3)):
        mn = rng.choice([0.0, -1.0, 1e-9, rng.uniform(-1e6, 1e6)])
        mx = mn + rng.choice([0.0, 1.0, 1e-12, rng.uniform(0, 1e9)])
        reqs.append(("R", rng.randint(0, IMAX), ndraw, mn, mx))
    return reqs


def check(ctx, exe, reqs, fl):
    inp = ""
    for r in reqs:
        if r[0] == "I":
            inp += "I %d %d %d %d\n" % (r[1], r[2], r[3], r[4])
        else:
            inp += "R %d %d %s %s\n" % (r[1], r[2], r[3].hex(), r[4].hex())
    res = proc.run([exe], stdin=inp, timeout=600)
    if res.timed_out:
        ctx.inconclusive("rng harness watchdog")
        return
    lines = res.out.splitlines()
    if res.rc != 0 or len(lines) != len(reqs):
        r = reqs[min(len(lines), len(reqs) - 1)]
        ctx.violation("C45:crash:%s:%s" % (r[0], klass(r[3], r[4]) if r[0] == "I" else "real"),
                      "generator crashed/aborted (rc=%s) on request %r: %s" % (res.rc, r, (proc.sanitizer_reports(res.err)[:1] or res.err[-300:])),
                      {"req": r, "flavour": fl})
        return
    pools = {}
    for r, line in zip(reqs, lines):
        ctx.evaluation()
        toks = line.split()[1:]
        g = MT(r[1] & M32)
        if r[0] == "I":
            mn, mx = r[3], r[4]
            cl = klass(mn, mx)
            vals = [int(t) for t in toks]
            bad = [v for v in vals if not (mn <= v <= mx)]
            if bad:
                ctx.violation("C45:out-of-range:int:%s" % cl, "uniform_int(%d,%d) seed %d returned %d" % (mn, mx, r[1], bad[0]), {"req": r})
                continue
            exp = [ref_int(g, mn, mx) for _ in vals]
            if exp != vals:
                i = next(i for i in range(len(vals)) if vals[i] != exp[i])
                ctx.violation("C45:sequence-differs:int:%s" % cl, "uniform_int(%d,%d) seed %d: draw #%d is %d, reference MT19937+rejection gives %d"
                              % (mn, mx, r[1], i, vals[i], exp[i]), {"req": r})
                continue
            ctx.count("draws.int", len(vals))
            ctx.nontrivial("I|%s|%d" % (cl, r[1]))
            if mx - mn + 1 <= 16 and mx > mn:
                p = pools.setdefault((mn, mx), {})
                for v in vals:
                    p[v] = p.get(v, 0) + 1
        else:
            mn, mx = r[3], r[4]
            vals = [float.fromhex(t) for t in toks]
            bad = [v for v in vals if not (mn <= v <= mx)]
            if bad:
                ctx.violation("C45:out-of-range:real", "uniform_real(%r,%r) seed %d returned %r" % (mn, mx, r[1], bad[0]), {"req": r})
                continue
            exp = [ref_real(g, mn, mx) for _ in vals]
            dif = [i for i in range(len(vals)) if abs(vals[i] - exp[i]) > 4 * math.ulp(max(abs(exp[i]), abs(mn), abs(mx), 5e-324))]
            if dif:
                i = dif[0]
                ctx.violation("C45:sequence-differs:real", "uniform_real(%r,%r) seed %d: draw #%d is %r, reference gives %r" % (mn, mx, r[1], i, vals[i], exp[i]), {"req": r})
                continue
            ctx.count("draws.real", len(vals))
            ctx.nontrivial("R|%d" % r[1])
    # chi-square on pooled small ranges (threshold far in the tail: df<=15, chi2 > 80 has p < 1e-10)
    for (mn, mx), p in pools.items():
        k = mx - mn + 1
        n = sum(p.values())
        if n < 50 * k:
            continue
        e = n / k
        chi = sum((p.get(v, 0) - e) ** 2 / e for v in range(mn, mx + 1))
        ctx.maximum("chi2_max", round(chi, 2))
        ctx.count("chi2_tests")
        if chi > 80:
            ctx.violation("C45:biased:int:k=%d" % k, "uniform_int(%d,%d): chi2=%.1f over %d draws, counts %r" % (mn, mx, chi, n, p), {"range": [mn, mx]})


def run(ctx):
    g = MT(5489)
    for _ in range(9999):
        g.next()
    if g.next() != 4123659995:
        raise HarnessFailure("python MT19937 self-test failed")
    reqs = gen(ctx, ctx.size(150, 6000), ctx.size(400, 3000))
    ctx.sample({"kind": "I", "seed": reqs[0][1], "n": reqs[0][2], "min": reqs[0][3], "max": reqs[0][4]})
    ctx.sample({"kind": reqs[-1][0], "seed": reqs[-1][1], "n": reqs[-1][2], "min": reqs[-1][3], "max": reqs[-1][4]})
    for fl in ["hooks", "asan"]:
        check(ctx, build.harness("rng.cpp", fl), reqs, fl)
        ctx.count("flavour." + fl)


def replay(ctx, w):
    r = w.get("req")
    if r:
        check(ctx, build.harness("rng.cpp", "hooks"), [tuple(r)], "hooks")
