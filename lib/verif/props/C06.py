"""C06 Condition variable semantics (S4U leg, real scheduler)."""
from verif.gen import sync as G
from verif.oracles import sync as O

META = {
    "id": "C06", "engine": "E1 s4u harness (condition-variable scripts)", "engine_path": "harness/sync.cpp",
    "engine_kind": "S4U program executing generated per-actor scripts on the real kernel, python sequential model over the recorded history",
    "level": "exploration",
    "technique": "boundary-recorded call/return history of wait/wait_for/wait_until/notify_one/notify_all (+lock/unlock of the paired mutex) checked "
                 "against a sequential condition-variable model (FIFO waiters with deadlines) replayed in request order, plus mutex hold intervals",
    "level_text": "2-5 actors run generated scripts on 1-2 condition variables, each with its own mutex: wait, wait_for (0 / 1e-12 s / 1-4 time units / "
                  "negative), wait_until (dates in the past, present and future), notify_one and notify_all with and without the mutex held, lock, "
                  "unlock, sleeps of 1-3 units, yields. The time unit is 2^-10 s so notifications fall exactly on deadlines, in the same scheduling "
                  "round or one round apart. Calls are logged before the call and after the return, with Mutex::get_owner()==caller sampled right "
                  "after each return. The kernel is sequential, so the request lines are in the order the kernel handled them; the model replays them: "
                  "a wait joins the FIFO with its deadline, notify_one marks the longest waiter notified (or is lost), notify_all marks everyone "
                  "waiting at that moment, a waiter whose deadline passed leaves. Every return of a wait is checked: no_timeout only if the model "
                  "notified exactly this waiter, timeout only if it was not notified by its deadline and not before the deadline, the caller owns the "
                  "mutex, and nobody else holds it (hold intervals from the log: from a return of lock/wait to the next unlock/wait of that actor). "
                  "At the end every blocked actor must be an untimed waiter the model never notified.",
    "level_note": "S4U API only: the model-checker leg of the design is not built. A notification exactly at a deadline is a tie the statement leaves "
                  "open: the model takes the answer the call gave and requires the rest of the history to agree. The order in which woken waiters "
                  "re-acquire the mutex is not judged (C04 covers mutex hand-off); only that each return happens with the mutex exclusively held. "
                  "Actors hold at most one mutex at a time; killing waiters is not generated (a waiter killed while re-locking stays in the mutex "
                  "queue, which is about C04/C12, not about this statement).",
    "rule": "case = one scenario (number of condvars + per-actor scripts); non-trivial = distinct scenarios, fully checked, in which a notification "
            "reached a waiter or a timed wait timed out",
    "ready": True,
}

DIRECTED = [
    {"mode": "cv", "ncv": 1, "scripts": [["F0:0", "U0"]]},                                        # F2: wait_for(0) must time out at once
    {"mode": "cv", "ncv": 1, "scripts": [["F0:0", "U0"], ["S1", "L0", "N0", "U0"]]},               # F2: ... and must not take a later notification
    {"mode": "cv", "ncv": 1, "scripts": [["S2", "G0:1", "U0"]]},                                   # F2 through wait_until(past date)
    {"mode": "cv", "ncv": 1, "scripts": [["F0:2", "U0"], ["S2", "N0"]]},                            # notify exactly at the deadline
    {"mode": "cv", "ncv": 1, "scripts": [["W0", "U0"], ["W0", "U0"], ["W0", "U0"], ["S1", "N0", "S1", "B0"]]},
    {"mode": "cv", "ncv": 1, "scripts": [["N0", "W0", "U0"], ["S1", "L0", "S1", "U0"]]},             # a notification without waiter is lost
    {"mode": "cv", "ncv": 1, "scripts": [["F0:2", "S1", "U0"], ["F0:2", "U0"], ["S1", "L0", "B0", "S3", "U0"], ["S2", "W0", "U0"]]},
    {"mode": "cv", "ncv": 2, "scripts": [["W0", "N1", "U0"], ["W1", "U1"], ["S1", "L0", "N0", "U0"], ["F1:t", "U1"]]},
    {"mode": "cv", "ncv": 1, "scripts": [["F0:2", "U0"], ["F0:t", "S2", "U0"]]},    # timed out at the deadline, mutex only free 1 ns later: returns late
]


def judge(ctx, fl, sc, res, out):
    w = {"flavour": fl, "scenario": sc}
    c = G.crashed(res)
    if c:
        ctx.violation("C06:crash", "condvar harness died: %s; history tail %r" % (c, out.splitlines()[-8:]), w)
        return
    f = O.check_cv(ctx, sc, out, w)
    if not f:
        return
    for k in ("notify_one.woke", "notify_one.lost", "notify_all.woke", "notify_all.calls", "timeouts", "ties", "waits", "returns_owner_checked"):
        if f[k]:
            ctx.count("events.%s" % k, f[k])
    ctx.maximum("max_woken_by_one_notify_all", f["max_woken_by_one_broadcast"])
    if f["forever"]:
        ctx.count("scenarios_ending_with_legitimately_blocked_actors")
    if f["ties"]:
        ctx.count("scenarios_with_notification_exactly_at_a_deadline")
    if f["notify_one.woke"] or f["notify_all.woke"] or f["timeouts"]:
        ctx.nontrivial(sc)


def run(ctx):
    n = ctx.size(600, 20000)
    scs = DIRECTED + [G.gen_cv(ctx.sub_rng(i)) for i in range(n)]
    ctx.sample(DIRECTED[4])
    ctx.sample(scs[len(DIRECTED)])
    for fl in ("hooks", "asan"):
        G.exe(fl)
    j = lambda fl, sc, res, out: judge(ctx, fl, sc, res, out)
    G.run_many(ctx, [("asan", scs[: len(DIRECTED) + max(60, n // 10)], 70), ("hooks", scs, 20)], j)


def replay(ctx, w):
    res, out = G.run_one(w["flavour"], w["scenario"])
    ctx.evaluation()
    print(out)
    judge(ctx, w["flavour"], w["scenario"], res, out)
