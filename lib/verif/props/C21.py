"""C21 Work is conserved and capacity is respected over time."""
import math
import os
import shutil
import tempfile

from verif import build, proc
from verif.gen import iso

META = {
    "id": "C21", "engine": "E1 s4u harness + on_time_advance / on_lmm_solved monitors", "engine_path": "harness/conserve.cpp",
    "engine_kind": "S4U program running generated concurrent actors on a generated platform; online sampler at every time advance; python log checker",
    "level": "exploration",
    "technique": "online sampling of every live activity and every loaded resource at every Engine::on_time_advance + offline invariants over the whole log "
                 "(monotone remaining, per-step and total integral of rate over time == work consumed, load <= current capacity, zero exactly at completion, "
                 "k-equal-execs closed form)",
    "level_text": "Generated workloads (3-8 actors running blocking and grouped asynchronous execs with bounds / priorities / several threads, direct comms "
                  "sharing links of generated routes, disk reads and writes sharing disks; activities suspended and resumed while they run; pstate changes "
                  "of loaded hosts; amounts sized so that activities overlap, plus 1-unit amounts and ties) run under 4 model configurations (Lazy and Full "
                  "update, LV08 / CM02 / raw). At every time advance the harness logs the remaining work (Activity::get_remaining) and the consumption "
                  "rate of every live activity, and the load and capacity of every loaded host, link and disk (Host::get_load, Link::get_load, the three "
                  "disk constraints). The checker demands, at every sample: remaining >= 0 and never above the previous sample, remaining decreased by "
                  "rate*dt (SimGrid's documented precisions), load <= capacity, the sum of the rates of the activities placed on a host / disk / link "
                  "(from the script and the route table, not from SimGrid's own load) <= its current capacity, an exec never above its bound nor above "
                  "threads * current speed; and for every completed activity: sum(rate*dt) == requested amount, remaining > 0 at every sample before the "
                  "finish date, == 0 at the finish date (which must be a sampled event date) and no progress afterwards. Directed family: k equal "
                  "single-core execs started together on a dedicated n-core host must each run at S*min(1,n/k) in every sample and finish at "
                  "W/(S*min(1,n/k)) while other actors generate events elsewhere (boundaries k=n, k=n+1, n=1 always present).",
    "level_note": "Reads the kernel action of an activity (-fno-access-control) to get its rate, and its stored remaining work once the action is finished but "
                  "not yet reported (the public getter xbt_asserts in that window under the Lazy update). Speed / bandwidth profiles, failures, "
                  "ptask_L07 and SMPI factors are not part of these workloads (constant bandwidth factor needed to recover link usage from rates). "
                  "Latency of suspended comms is not judged (the statement is about work).",
    "rule": "case = one workload under one configuration; non-trivial = distinct (workload, configuration) whose log has >= 1 sample with two or more "
            "activities sharing one resource, fully checked",
    "assumptions": ["a multi-threaded exec of c threads requests c*flops (HostCLM03Model::execute_thread, examples/cpp/exec-threads)"],
    "ready": True,
}

PREC_TIMING = 1e-9          # precision/timing
PREC_WORK = 1e-5            # precision/work-amount
KEY_RINT = "C21:integral:I:per-step-integer-rounding"

CONFIGS = [
    ("LV08:lazy", [], 0.97),
    ("LV08:full", ["--cfg=cpu/optim:Full", "--cfg=network/optim:Full"], 0.97),
    ("CM02:lazy", ["--cfg=network/model:CM02"], 1.0),
    ("raw:full", ["--cfg=network/model:raw", "--cfg=cpu/optim:Full", "--cfg=network/optim:Full"], 1.0),
]


# ------------------------------------------------------------------------------------------------- generator
def gen_activity(rng, p, rt, nid):
    r = rng.random()
    d = iso.logu(rng, 1e-3, 5.0)            # target duration alone: activities of one workload overlap
    if rng.random() < 0.08:
        d = None                             # 1-unit amount
    if r < 0.45:
        h = rng.choice(p["hosts"])
        sp = h["speeds"][0]
        fl = 1.0 if d is None else float("%.6g" % (d * sp))
        bound = -1.0
        if rng.random() < 0.25:
            bound = float("%.6g" % (sp * rng.choice([0.1, 0.5, 1.0, 2.0, iso.logu(rng, 0.05, 1.5)])))
        prio = 1.0
        if rng.random() < 0.3:
            prio = rng.choice([0.5, 2.0, 3.0, float("%.4g" % iso.logu(rng, 0.1, 10))])
        th = 1
        if h["cores"] > 1 and rng.random() < 0.3:
            th = rng.randint(2, h["cores"] + 2)
            bound = -1.0                      # a bound on a multi-thread exec is not part of the API
        return {"k": "E", "id": nid, "host": h["name"], "flops": fl, "bound": bound, "prio": prio, "threads": th}
    if r < 0.8:
        s, dd = rng.choice(sorted(rt))
        links = {l["name"]: l for l in p["links"]}
        bw = min(links[n]["bw"] for n, _ in rt[(s, dd)])
        sz = 1.0 if d is None else float(max(1, int(d * bw)))
        return {"k": "C", "id": nid, "src": s, "dst": dd, "size": sz}
    dk = rng.choice(p["disks"])
    rw = rng.choice("RW")
    bw = dk["rbw"] if rw == "R" else dk["wbw"]
    sz = 1 if d is None else max(1, int(d * bw))
    return {"k": "I", "id": nid, "disk": dk["name"], "rw": rw, "size": sz}


def act_text(a):
    if a["k"] == "E":
        return "E %d %s %r %r %r %d" % (a["id"], a["host"], a["flops"], a["bound"], a["prio"], a["threads"])
    if a["k"] == "C":
        return "C %d %s %s %r" % (a["id"], a["src"], a["dst"], a["size"])
    return "I %d %s %s %d" % (a["id"], a["disk"], a["rw"], a["size"])


def gen_workload(rng, extras=True):
    p = iso.platform(rng, small_lat=rng.random() < 0.5)
    rt = iso.route_tables(p)
    multi = [h for h in p["hosts"] if len(h["speeds"]) > 1]
    actors = []
    nid = 0
    for ai in range(rng.randint(3, 8)):
        script = []
        for _ in range(rng.randint(2, 6)):
            r = rng.random()
            if r < 0.12:
                script.append(("S", float("%.4g" % iso.logu(rng, 1e-4, 1.0))))
            elif r < 0.2 and extras and multi:
                h = rng.choice(multi)
                script.append(("P", h["name"], rng.randrange(len(h["speeds"]))))
            elif r < 0.55:
                a = gen_activity(rng, p, rt, nid)
                nid += 1
                script.append(("one", a))
            else:
                grp = []
                base = gen_activity(rng, p, rt, nid)
                tie = rng.random() < 0.3
                for _ in range(rng.randint(2, 4)):
                    a = dict(base, id=nid) if tie else gen_activity(rng, p, rt, nid)
                    nid += 1
                    grp.append(a)
                zs = []
                if extras and rng.random() < 0.4:
                    for _ in range(rng.randint(1, 2)):
                        a = rng.choice(grp)
                        zs.append((a["id"], float("%.4g" % iso.logu(rng, 1e-4, 1.0)), float("%.4g" % iso.logu(rng, 1e-4, 1.0))))
                script.append(("grp", grp, zs))
        actors.append({"name": "a%d" % ai, "host": rng.choice(p["hosts"])["name"], "script": script})
    return {"platform": p, "actors": actors, "keq": None}


def add_keq(w, n, k, sp, dur):
    """k equal single-core execs started together on a dedicated n-core host; the other actors make events elsewhere."""
    w["platform"]["hosts"].append({"name": "hk", "cores": n, "speeds": [sp]})
    fl = float("%.6g" % (dur * sp))
    ids = []
    for i in range(k):
        a = {"k": "E", "id": 1000 + i, "host": "hk", "flops": fl, "bound": -1.0, "prio": 1.0, "threads": 1}
        w["actors"].append({"name": "k%d" % i, "host": "hk", "script": [("one", a)]})
        ids.append(1000 + i)
    w["keq"] = {"n": n, "k": k, "speed": sp, "flops": fl, "ids": ids}
    return w


def gen_keq(rng):
    w = gen_workload(rng)
    n = rng.choice([1, 2, 3, 4, 16])
    k = rng.randint(1, 2 * n + 3) if n < 16 else rng.choice([1, 5, 16, 17, 24, 40])
    return add_keq(w, n, k, iso.nice(rng, 1e3, 1e12), iso.logu(rng, 1e-2, 5.0))


def workload_text(w):
    out = iso.platform_text(w["platform"])
    for a in w["actors"]:
        out.append("A %s %s" % (a["name"], a["host"]))
        for item in a["script"]:
            kind = item[0]
            if kind == "S":
                out.append("S %r" % item[1])
            elif kind == "P":
                out.append("P %s %d" % (item[1], item[2]))
            elif kind == "one":
                out.append(act_text(item[1]))
            else:
                zs = item[2] if len(item) > 2 else []
                out.append("G %d %d" % (len(item[1]), len(zs)))
                out.extend(act_text(y) for y in item[1])
                out.extend("Z %d %r %r" % tuple(z) for z in zs)
    return "\n".join(out) + "\n"


def all_acts(w):
    acts = {}
    for a in w["actors"]:
        for item in a["script"]:
            if item[0] == "one":
                acts[item[1]["id"]] = item[1]
            elif item[0] == "grp":
                for y in item[1]:
                    acts[y["id"]] = y
    return acts


def amount(a):
    if a["k"] == "E":
        return a["flops"] * a["threads"]
    return float(a["size"])


# ------------------------------------------------------------------------------------------------- checker
def check(ctx, w, cfgname, bf, out, witness, corrupt=None):
    """Offline checker over the log of one run. Returns (fully checked, saw sharing, samples)."""
    p = w["platform"]
    acts = all_acts(w)
    hosts = {h["name"]: h for h in p["hosts"]}
    links = {l["name"]: l for l in p["links"]}
    disks = {d["name"]: d for d in p["disks"]}
    speed = {h["name"]: h["speeds"][0] for h in p["hosts"]}      # current speed of one core (pstate 0 at start)
    rt = iso.route_tables(p)
    st = {}          # id -> state
    ok = True
    sharing = False
    viol = [0]

    def bad(key, what):
        viol[0] += 1
        ctx.violation(key, "%s [configuration %s]" % (what, cfgname), witness)

    lines = out.splitlines()
    if corrupt:
        lines = corrupt(lines)
    now = 0.0
    delta = 0.0
    sample = []      # A records of the current T
    samples = 0

    def close_sample():
        nonlocal sharing
        if not sample:
            return
        # independent capacity check: rates of the activities placed on each resource (script + route table)
        use = {}
        for aid, rem, rate in sample:
            a = acts[aid]
            if rate <= 0:
                continue
            if a["k"] == "E":
                use.setdefault(("H", a["host"]), []).append(rate)
            elif a["k"] == "I":
                use.setdefault(("DR" if a["rw"] == "R" else "DW", a["disk"]), []).append(rate)
                use.setdefault(("DT", a["disk"]), []).append(rate)
            else:
                for n, d in rt[(a["src"], a["dst"])]:
                    use.setdefault(("L", n if d == "N" else n + ":" + d), []).append(rate / bf)
        for (kind, name), rates in use.items():
            if len(rates) > 1:
                sharing = True
            if kind == "H":
                cap = speed[name] * hosts[name]["cores"]
                tot = sum(rates)
            elif kind == "L":
                l = links[name.split(":")[0]]
                cap = l["bw"]
                tot = max(rates) if l["pol"] == "F" else sum(rates)
            else:
                d = disks[name]
                cap = d["rbw"] if kind == "DR" else d["wbw"] if kind == "DW" else max(d["rbw"], d["wbw"])
                tot = sum(rates)
            ctx.count("checks.capacity_from_rates")
            if tot > cap * (1 + PREC_WORK) + PREC_WORK:
                bad("C21:capacity-from-rates:%s" % kind, "at t=%r the activities placed on %s %s progress at %r in total (rates %r), its capacity is %r"
                    % (now, kind, name, tot, rates, cap))

    for ln in lines:
        f = ln.split()
        if not f:
            continue
        if f[0] not in ("A", "U") and sample:
            close_sample()
            sample = []
        if f[0] == "T":
            now, delta = float(f[1]), float(f[2])
            samples += 1
            ctx.count("samples.time_advance")
            ctx.count("samples.lmm_solves", int(f[3]))
            if delta < 0:
                bad("C21:negative-time-step", "time advanced by %r at t=%r" % (delta, now))
        elif f[0] == "A":
            aid, rem, rate = int(f[1]), float(f[2]), float(f[3])
            s = st[aid]
            a = acts[aid]
            amt = amount(a)
            sample.append((aid, rem, rate))
            ctx.count("samples.activity")
            if s["susp"]:
                ctx.count("samples.activity_while_suspended")
            if rem < 0 or math.isnan(rem):
                bad("C21:remaining-negative:%s" % a["k"], "activity %r has remaining %r at t=%r" % (a, rem, now))
            if rem > s["prev"] + PREC_WORK:
                bad("C21:remaining-increased:%s" % a["k"], "activity %r: remaining went %r -> %r at t=%r" % (a, s["prev"], rem, now))
            if rate < 0 or math.isnan(rate):
                bad("C21:rate-negative:%s" % a["k"], "activity %r consumes at rate %r at t=%r" % (a, rate, now))
            # work consumed during this step == rate * dt
            step = s["prev"] - rem
            steptol = PREC_WORK + 2 * PREC_TIMING * rate + 4 * math.ulp(amt) + 4 * math.ulp(now) * rate
            ctx.count("checks.step_conservation")
            if abs(step - rate * delta) > steptol:
                if a["k"] == "I" and abs(step - rate * delta) <= 0.5 + steptol and step == math.floor(step):
                    ctx.count("checks.io_steps_rounded_to_integer")
                    if not s["rint"]:
                        s["rint"] = True
                        bad(KEY_RINT, "I/O %r progressed by %r bytes during a step of %r s at %r B/s (= %r bytes) ending at t=%r: the disk model rounds "
                            "the progress of every time step to an integer number of bytes" % (a, step, delta, rate, rate * delta, now))
                else:
                    bad("C21:step:%s" % a["k"], "activity %r: remaining went %r -> %r (%r) during the step of %r s ending at t=%r while it was served "
                        "at rate %r (= %r)" % (a, s["prev"], rem, step, delta, now, rate, rate * delta))
            if a["k"] == "E" and rate > 0:
                lim = a["threads"] * speed[a["host"]]
                if a["bound"] > 0:
                    lim = min(lim, a["bound"])
                ctx.count("checks.exec_rate_bound")
                if rate > lim * (1 + PREC_WORK) + PREC_WORK:
                    bad("C21:exec-rate-over-bound:%s" % ("user-bound" if a["bound"] > 0 and a["bound"] < a["threads"] * speed[a["host"]] else "cores"),
                        "exec %r progresses at %r at t=%r, above min(bound, threads * speed %r) = %r" % (a, rate, now, speed[a["host"]], lim))
            s["prev"] = rem
            s["integral"] += rate * delta
            s["maxrate"] = max(s["maxrate"], rate)
            s["steps"] += 1 if rate > 0 else 0
            s["trace"].append((now, rem, rate))
        elif f[0] == "U":
            kind, name, load, cap = f[1], f[2], float(f[3]), float(f[4])
            ctx.count("samples.resource_load")
            if load > cap * (1 + PREC_WORK) + PREC_WORK or load < 0:
                bad("C21:load-over-capacity:%s" % kind, "at t=%r %s %s reports a load of %r, its capacity is %r" % (now, kind, name, load, cap))
        elif f[0] == "B":
            aid = int(f[1])
            st[aid] = {"start": float(f[2]), "prev": amount(acts[aid]), "integral": 0.0, "maxrate": 0.0, "trace": [], "steps": 0, "susp": False,
                       "rint": False}
        elif f[0] == "Z":
            st[int(f[1])]["susp"] = True
            ctx.count("events.suspend")
        elif f[0] == "R":
            st[int(f[1])]["susp"] = False
        elif f[0] == "P":
            speed[f[1]] = hosts[f[1]]["speeds"][int(f[2])]
            ctx.count("events.pstate_change")
        elif f[0] == "F":
            aid, clock, stt, ft = int(f[1]), float(f[2]), float(f[3]), float(f[4])
            s = st[aid]
            a = acts[aid]
            amt = amount(a)
            s["done"] = True
            s["ft"] = ft
            ctx.count("activities.completed." + a["k"])
            tol = PREC_WORK + 2 * PREC_TIMING * s["maxrate"] + 1e-12 * amt + 4 * math.ulp(ft) * s["maxrate"] * max(1, len(s["trace"]))
            err = s["integral"] - amt
            ctx.maximum("worst_integral_error_over_tolerance." + a["k"], abs(err) / tol)
            if abs(err) > tol:
                if a["k"] == "I" and abs(err) <= 0.5 * s["steps"] + tol:
                    if not s["rint"]:
                        bad(KEY_RINT, "I/O %r received sum(rate*dt) = %r bytes for %r requested (error %r, %d samples while running): "
                            "the disk model rounds the progress of every step to an integer number of bytes" % (a, s["integral"], amt, err, s["steps"]))
                else:
                    bad("C21:integral:%s" % a["k"], "activity %r completed at %r having received sum(rate*dt) = %r for %r requested (error %r, tolerance %r); "
                        "samples (t, remaining, rate): %r" % (a, ft, s["integral"], amt, err, tol, s["trace"][-6:]))
            # zero exactly at completion: > 0 before the finish date, 0 in the last sample of the finish date, nothing afterwards
            at_ft = [x for x in s["trace"] if x[0] == ft]
            for (t, rem, rate) in s["trace"]:
                if t < ft - PREC_TIMING and rem <= 0 and amt > 0:
                    bad("C21:zero-before-completion:%s" % a["k"], "activity %r shows remaining %r at t=%r, it completes at %r" % (a, rem, t, ft))
                    break
                if t > ft and (rem > 0 or rate > 0):
                    bad("C21:work-after-completion:%s" % a["k"], "activity %r completed at %r but shows remaining %r and rate %r at t=%r" % (a, ft, rem, rate, t))
                    break
            if not at_ft:
                bad("C21:finish-date-not-sampled:%s" % a["k"], "activity %r reports finish time %r, which is no date of a time advance where it was live "
                    "(samples: %r)" % (a, ft, s["trace"][-4:]))
            elif at_ft[-1][1] > 0:
                bad("C21:nonzero-at-completion:%s" % a["k"], "activity %r completes at %r with remaining %r" % (a, ft, at_ft[-1][1]))
            if ft < s["start"] or clock < ft or stt != s["start"]:
                bad("C21:finish-date-order", "activity %r: started %r (reports %r), finish time %r, seen by its actor at %r" % (a, s["start"], stt, ft, clock))
        elif f[0] == "END":
            pass
    missing = [i for i in acts if i not in st or not st[i].get("done")]
    if missing or not any(l.startswith("END") for l in lines):
        ok = False
    # k equal execs on n cores
    kq = w.get("keq")
    if kq and ok:
        n, k, sp, fl = kq["n"], kq["k"], kq["speed"], kq["flops"]
        share = sp * min(1.0, n / k)
        for i in kq["ids"]:
            s = st[i]
            ctx.count("checks.keq_exec")
            exp = s["start"] + fl / share
            if abs(s["ft"] - exp) > PREC_TIMING + 1e-12 * max(exp, 1.0):
                bad("C21:k-equal-execs:finish:%s" % ("k<=n" if k <= n else "k>n"), "%d equal execs of %r flops on a %d-core host of speed %r: exec %d "
                    "finished at %r, expected W/(S*min(1,n/k)) = %r" % (k, fl, n, sp, i, s["ft"], exp))
            for (t, rem, rate) in s["trace"]:
                if rate and abs(rate - share) > 1e-9 * share:
                    bad("C21:k-equal-execs:rate:%s" % ("k<=n" if k <= n else "k>n"), "%d equal execs on a %d-core host of speed %r: exec %d progresses at %r "
                        "at t=%r, expected S*min(1,n/k) = %r" % (k, n, sp, i, rate, t, share))
                    break
    return ok, sharing or bool(kq and kq["k"] > 1), samples


# ------------------------------------------------------------------------------------------------- running
def exe_of(flavour):
    return build.harness("conserve.cpp", flavour, internal=True, deps=["plat.hpp"])


def run_batch(ctx, batch, flavour, corrupt=None):
    """batch = list of (workload, cfg): one harness process, one forked child per case."""
    text = []
    for i, (w, cfg) in enumerate(batch):
        text.append("CASE %d %s" % (i, " ".join(cfg[1])))
        text.append(workload_text(w).rstrip("\n"))
        text.append("ENDCASE")
    res = proc.run([exe_of(flavour), "--log=root.thres:critical"], stdin="\n".join(text) + "\n", timeout=120 + 60 * len(batch),
                   env={"C21_CASE_BUDGET": "120"})
    ctx.count("processes." + flavour)
    if os.environ.get("C21_DEBUG"):
        print("[C21 debug] %s batch of %d: %.1fs" % (flavour, len(batch), res.wall), flush=True)
    logs = {}
    cur = None
    for ln in res.out.splitlines():
        if ln.startswith("CASE "):
            cur = int(ln.split()[1])
            logs[cur] = {"lines": [], "done": None}
        elif ln.startswith("DONE "):
            f = ln.split()
            logs[int(f[1])]["done"] = (int(f[2]), int(f[3]))
            cur = None
        elif cur is not None:
            logs[cur]["lines"].append(ln)
    for i, (w, cfg) in enumerate(batch):
        name, flags, bf = cfg
        ctx.evaluation()
        ctx.count("cases." + flavour)
        wit = {"workload": w, "cfg": list(cfg), "flavour": flavour}
        lg = logs.get(i)
        if lg is None or lg["done"] is None:
            if res.timed_out:
                ctx.inconclusive("conserve harness watchdog (batch)")
            else:
                ctx.violation("C21:crash:batch", "conserve harness died rc=%s before/while running a case under %s: %s"
                              % (res.rc, name, res.err[-500:]), wit)
            continue
        code, sig = lg["done"]
        if sig == 14:
            ctx.inconclusive("conserve harness watchdog (case)")
            continue
        out = "\n".join(lg["lines"])
        if code != 0 or sig != 0 or not any(l.startswith("END") for l in lg["lines"]):
            san = proc.sanitizer_reports(res.err)
            ctx.violation("C21:crash:%s" % name.split(":")[1], "conserve harness died (exit %s, signal %s) under %s: %s"
                          % (code, sig, name, san[:1] or res.err[-500:]), wit)
            continue
        full, sharing, samples = check(ctx, w, name, bf, out, wit, corrupt)
        if full and sharing and samples >= 3:
            ctx.nontrivial([workload_text(w), name])


# directed witnesses -----------------------------------------------------------------------------------------
def directed_rint(tick, n):
    """One 1000-byte read on a 1000 B/s disk (1 s alone) while an unrelated actor sleeps n times for `tick` seconds:
    tick=0.0004 -> 0.4 byte per step is rounded to 0, the read is starved while the other actor sleeps;
    tick=0.0006 -> 0.6 byte per step is rounded to 1: the disk delivers 1667 B/s, above its bandwidth."""
    p = {"hosts": [{"name": "h0", "cores": 1, "speeds": [1e9]}, {"name": "h1", "cores": 1, "speeds": [1e9]}],
         "links": [{"name": "l0", "bw": 1e6, "lat": 0.0, "pol": "S"}], "routes": [{"src": "h0", "dst": "h1", "sym": 1, "links": [("l0", "N")]}],
         "disks": [{"host": "h0", "name": "d0", "rbw": 1000.0, "wbw": 1000.0}]}
    a0 = {"k": "I", "id": 0, "disk": "d0", "rw": "R", "size": 1000}
    return {"platform": p, "keq": None, "actors": [{"name": "reader", "host": "h0", "script": [("one", a0)]},
                                                    {"name": "ticker", "host": "h1", "script": [("S", tick)] * n}]}


def directed_basic():
    """Deterministic small workload: sharing, a suspension, a pstate change, a bound, threads."""
    p = {"hosts": [{"name": "h0", "cores": 2, "speeds": [1e9, 5e8]}, {"name": "h1", "cores": 1, "speeds": [1e9]}],
         "links": [{"name": "l0", "bw": 1e6, "lat": 1e-3, "pol": "S"}, {"name": "l1", "bw": 2e6, "lat": 0.0, "pol": "F"},
                   {"name": "l2", "bw": 1e6, "lat": 1e-4, "pol": "D"}],
         "routes": [{"src": "h0", "dst": "h1", "sym": 1, "links": [("l0", "N"), ("l1", "N"), ("l2", "U")]}],
         "disks": [{"host": "h0", "name": "d0", "rbw": 1e8, "wbw": 5e7}]}

    def ex(i, fl, bound=-1.0, prio=1.0, th=1, host="h0"):
        return {"k": "E", "id": i, "host": host, "flops": fl, "bound": bound, "prio": prio, "threads": th}
    g1 = [ex(0, 1e9), ex(1, 1e9), ex(2, 5e8, bound=2.5e8), ex(3, 1e9, th=3)]
    g2 = [{"k": "C", "id": 4, "src": "h0", "dst": "h1", "size": 1e6}, {"k": "C", "id": 5, "src": "h1", "dst": "h0", "size": 5e5},
          {"k": "C", "id": 6, "src": "h0", "dst": "h1", "size": 1.0}]
    g3 = [{"k": "I", "id": 7, "disk": "d0", "rw": "R", "size": 100000000}, {"k": "I", "id": 8, "disk": "d0", "rw": "W", "size": 50000000},
          {"k": "I", "id": 9, "disk": "d0", "rw": "R", "size": 1}]
    return {"platform": p, "keq": None, "actors": [
        {"name": "a0", "host": "h0", "script": [("grp", g1, [(0, 0.3, 0.5), (3, 0.1, 0.25)]), ("one", ex(10, 1.0))]},
        {"name": "a1", "host": "h1", "script": [("S", 0.45), ("P", "h0", 1), ("S", 1.0), ("P", "h0", 0), ("one", ex(11, 2e9, prio=2.0))]},
        {"name": "a2", "host": "h1", "script": [("grp", g2, [(4, 0.2, 0.4)]), ("one", ex(12, 1e9, host="h1"))]},
        {"name": "a3", "host": "h0", "script": [("grp", g3, [(7, 0.5, 0.5)])]}]}


def directed_keq():
    out = []
    for (n, k, sp, dur) in [(1, 1, 1e9, 1.0), (1, 2, 1e9, 1.0), (2, 2, 2.5e8, 0.5), (2, 3, 1e9, 1.0), (4, 4, 1e6, 2.0), (4, 5, 1e9, 1.0), (16, 17, 1e12, 0.1),
                            (3, 7, 3e9, 0.7)]:
        p = {"hosts": [{"name": "h0", "cores": 1, "speeds": [1e9]}, {"name": "h1", "cores": 1, "speeds": [1e9]}],
             "links": [{"name": "l0", "bw": 1e6, "lat": 0.0, "pol": "S"}], "routes": [{"src": "h0", "dst": "h1", "sym": 1, "links": [("l0", "N")]}], "disks": []}
        w = {"platform": p, "keq": None, "actors": [{"name": "ticker", "host": "h0", "script": [("S", 0.013)] * 20}]}
        out.append(add_keq(w, n, k, sp, dur))
    return out


def plan(ctx):
    """(hooks cases, asan cases): lists of (workload, cfg)."""
    n = ctx.size(26, 700)
    nk = ctx.size(14, 300)
    hooks = [(directed_rint(0.0004, 500), CONFIGS[0]), (directed_rint(0.0006, 1000), CONFIGS[1])]
    asan = []
    for cfg in CONFIGS:
        hooks.append((directed_basic(), cfg))
    asan.append((directed_basic(), CONFIGS[0]))
    for i, w in enumerate(directed_keq()):
        hooks.append((w, CONFIGS[i % 2]))
    for i in range(n):
        w = gen_workload(ctx.sub_rng("w", i), extras=i % 4 != 3)       # one workload in four without suspensions / pstate changes
        for cfg in CONFIGS:
            hooks.append((w, cfg))
        if i % 8 == 0:
            asan.append((w, CONFIGS[i // 8 % len(CONFIGS)]))
    for i in range(nk):
        w = gen_keq(ctx.sub_rng("k", i))
        hooks.append((w, CONFIGS[i % 2]))      # the CPU model is the same under the network variants: Lazy and Full
    return hooks, asan


def chunks(cases, flavour, size):
    return [(cases[i:i + size], flavour) for i in range(0, len(cases), size)]


def run(ctx):
    tmp = tempfile.mkdtemp(prefix="verif-C21-")
    try:
        for fl in ("hooks", "asan"):
            exe_of(fl)
        hooks, asan = plan(ctx)
        ctx.sample({"workload": workload_text(hooks[-1][0]).splitlines(), "k_equal": hooks[-1][0]["keq"], "cfg": hooks[-1][1][0]})
        ctx.sample({"workload": workload_text(directed_basic()).splitlines(), "cfg": "all four"})
        jobs = int(os.environ.get("VERIF_JOBS", "16"))
        per = max(2, min(12, -(-len(hooks) // (3 * jobs))))
        batches = chunks(asan, "asan", 3 if ctx.tier == "quick" else 6) + chunks(hooks, "hooks", per)
        ctx.pmap(lambda b: run_batch(ctx, b[0], b[1]), batches)
    finally:
        shutil.rmtree(tmp, ignore_errors=True)


def _untuple(w):
    for r in w["platform"]["routes"]:
        r["links"] = [tuple(x) for x in r["links"]]
    for a in w["actors"]:
        sc = []
        for x in a["script"]:
            x = list(x)
            if x[0] == "grp" and len(x) > 2:
                x[2] = [tuple(z) for z in x[2]]
            sc.append(tuple(x))
        a["script"] = sc
    return w


def replay(ctx, wit):
    run_batch(ctx, [(_untuple(wit["workload"]), tuple(wit["cfg"]))], wit["flavour"])
