"""C21 Work is conserved and capacity is respected over time."""
import math
import shutil
import tempfile

from verif import build, proc
from verif.gen import iso

META = {
    "id": "C21", "engine": "E1 s4u harness + on_time_advance / on_lmm_solved monitors", "engine_path": "harness/conserve.cpp",
    "engine_kind": "S4U program running generated concurrent actors on a generated platform; online sampler at every time advance; python log checker",
    "level": "exploration",
    "technique": "online sampling of every live activity and every loaded resource at every Engine::on_time_advance + offline invariants over the whole log "
                 "(monotone remaining, load <= capacity, integral of rate over time == requested amount, zero exactly at completion, k-equal-execs closed form)",
    "level_text": "Generated workloads (3-8 actors running blocking and grouped asynchronous execs with bounds / priorities / several threads, direct comms "
                  "sharing links of generated routes, disk reads and writes sharing disks; amounts sized so that activities overlap, plus 1-unit amounts and "
                  "ties) run under 4 model configurations (Lazy and Full update, LV08 / CM02 / raw). At every time advance the harness logs the remaining "
                  "work (Activity::get_remaining) and the consumption rate of every live activity, and the load and capacity of every loaded host, link and "
                  "disk (Host::get_load, Link::get_load, the three disk constraints). The checker demands, at every sample: remaining >= 0 and never "
                  "above the previous sample (+ precision/work-amount), load <= capacity (relative precision 1e-5), the sum of the rates of the activities "
                  "placed on a host / disk / link (from the script and the route table, not from SimGrid's own load) <= capacity; and for every completed "
                  "activity: sum(rate*dt) == requested amount (precision/work-amount + precision/timing*rate), remaining > 0 at every sample before the "
                  "finish date and == 0 at the finish date. Directed family: k equal single-core execs started together on a dedicated n-core host must "
                  "each run at S*min(1,n/k) in every sample and finish at W/(S*min(1,n/k)) while other actors generate events elsewhere.",
    "level_note": "Reads the kernel action of an activity (-fno-access-control) to get its rate, and its stored remaining work once the action is finished but "
                  "not yet reported (the public getter aborts in that window, see the report). Suspend/resume, pstate changes, profiles, failures and "
                  "ptask_L07 are not part of these workloads. SMPI factors are not used (constant bandwidth factor needed to recover link usage from rates).",
    "rule": "case = one workload under one configuration; non-trivial = distinct (workload, configuration) whose log has >= 1 sample with two or more "
            "activities sharing one resource, fully checked",
    "assumptions": ["a multi-threaded exec of c threads requests c*flops (as in examples/cpp/exec-threads)"],
    "ready": False,
}

PREC_TIMING = 1e-9
PREC_WORK = 1e-5

CONFIGS = [
    ("LV08:lazy", [], 0.97),
    ("LV08:full", ["--cfg=cpu/optim:Full", "--cfg=network/optim:Full"], 0.97),
    ("CM02:lazy", ["--cfg=network/model:CM02"], 1.0),
    ("raw:full", ["--cfg=network/model:raw", "--cfg=cpu/optim:Full", "--cfg=network/optim:Full"], 1.0),
]


# ------------------------------------------------------------------------------------------------- generator
def gen_activity(rng, p, rt, nid):
    r = rng.random()
    d = iso.logu(rng, 1e-3, 5.0)            # target duration alone: activities of one workload overlap
    if rng.random() < 0.08:
        d = None                             # 1-unit amount
    if r < 0.45:
        h = rng.choice(p["hosts"])
        sp = h["speeds"][0]
        fl = 1.0 if d is None else float("%.6g" % (d * sp))
        bound = -1.0
        if rng.random() < 0.25:
            bound = float("%.6g" % (sp * rng.choice([0.1, 0.5, 1.0, 2.0, iso.logu(rng, 0.05, 1.5)])))
        prio = 1.0
        if rng.random() < 0.3:
            prio = rng.choice([0.5, 2.0, 3.0, float("%.4g" % iso.logu(rng, 0.1, 10))])
        th = 1
        if h["cores"] > 1 and rng.random() < 0.3:
            th = rng.randint(2, h["cores"] + 2)
            bound = -1.0                      # a bound on a multi-thread exec is not part of the API
        return {"k": "E", "id": nid, "host": h["name"], "flops": fl, "bound": bound, "prio": prio, "threads": th}
    if r < 0.8:
        s, dd = rng.choice(sorted(rt))
        links = {l["name"]: l for l in p["links"]}
        bw = min(links[n]["bw"] for n, _ in rt[(s, dd)])
        sz = 1.0 if d is None else float(max(1, int(d * bw)))
        return {"k": "C", "id": nid, "src": s, "dst": dd, "size": sz}
    dk = rng.choice(p["disks"])
    rw = rng.choice("RW")
    bw = dk["rbw"] if rw == "R" else dk["wbw"]
    sz = 1 if d is None else max(1, int(d * bw))
    return {"k": "I", "id": nid, "disk": dk["name"], "rw": rw, "size": sz}


def act_text(a):
    if a["k"] == "E":
        return "E %d %s %r %r %r %d" % (a["id"], a["host"], a["flops"], a["bound"], a["prio"], a["threads"])
    if a["k"] == "C":
        return "C %d %s %s %r" % (a["id"], a["src"], a["dst"], a["size"])
    return "I %d %s %s %d" % (a["id"], a["disk"], a["rw"], a["size"])


def gen_workload(rng):
    p = iso.platform(rng, small_lat=rng.random() < 0.5)
    # fewer resources than iso's default: more sharing
    rt = iso.route_tables(p)
    acts = {}
    actors = []
    nid = 0
    for ai in range(rng.randint(3, 8)):
        script = []
        for _ in range(rng.randint(2, 6)):
            r = rng.random()
            if r < 0.12:
                script.append(("S", float("%.4g" % iso.logu(rng, 1e-4, 1.0))))
            elif r < 0.55:
                a = gen_activity(rng, p, rt, nid)
                nid += 1
                acts[a["id"]] = a
                script.append(("one", a))
            else:
                grp = []
                base = gen_activity(rng, p, rt, nid)
                tie = rng.random() < 0.3
                for _ in range(rng.randint(2, 4)):
                    a = dict(base, id=nid) if tie else gen_activity(rng, p, rt, nid)
                    nid += 1
                    acts[a["id"]] = a
                    grp.append(a)
                script.append(("grp", grp))
        actors.append({"name": "a%d" % ai, "host": rng.choice(p["hosts"])["name"], "script": script})
    return {"platform": p, "actors": actors, "keq": None}


def gen_keq(rng):
    """k equal single-core execs started together on a dedicated n-core host; other actors make events elsewhere."""
    w = gen_workload(rng)
    p = w["platform"]
    n = rng.choice([1, 2, 3, 4, 16])
    k = rng.randint(1, 2 * n + 3) if n < 16 else rng.choice([1, 5, 16, 17, 24, 40])
    sp = iso.nice(rng, 1e3, 1e12)
    p["hosts"].append({"name": "hk", "cores": n, "speeds": [sp]})
    dur = iso.logu(rng, 1e-2, 5.0)
    fl = float("%.6g" % (dur * sp))
    nid = 1000
    ids = []
    for i in range(k):
        a = {"k": "E", "id": nid + i, "host": "hk", "flops": fl, "bound": -1.0, "prio": 1.0, "threads": 1}
        w["actors"].append({"name": "k%d" % i, "host": "hk", "script": [("one", a)]})
        ids.append(nid + i)
    w["keq"] = {"n": n, "k": k, "speed": sp, "flops": fl, "ids": ids}
    return w


def workload_text(w):
    out = iso.platform_text(w["platform"])
    for a in w["actors"]:
        out.append("A %s %s" % (a["name"], a["host"]))
        for kind, x in a["script"]:
            if kind == "S":
                out.append("S %r" % x)
            elif kind == "one":
                out.append(act_text(x))
            else:
                out.append("G %d" % len(x))
                out.extend(act_text(y) for y in x)
    return "\n".join(out) + "\n"


def all_acts(w):
    acts = {}
    for a in w["actors"]:
        for kind, x in a["script"]:
            if kind == "one":
                acts[x["id"]] = x
            elif kind == "grp":
                for y in x:
                    acts[y["id"]] = y
    return acts


def amount(a):
    if a["k"] == "E":
        return a["flops"] * a["threads"]
    return float(a["size"])


# ------------------------------------------------------------------------------------------------- checker
def check(ctx, w, cfgname, bf, out, witness, corrupt=None):
    """Offline checker over the log of one run. Returns (fully checked, saw sharing)."""
    p = w["platform"]
    acts = all_acts(w)
    hosts = {h["name"]: h for h in p["hosts"]}
    links = {l["name"]: l for l in p["links"]}
    disks = {d["name"]: d for d in p["disks"]}
    rt = iso.route_tables(p)
    st = {}          # id -> state
    ok = True
    sharing = False
    viol = [0]

    def bad(key, what):
        viol[0] += 1
        ctx.violation(key, "%s [configuration %s]" % (what, cfgname), witness)

    lines = out.splitlines()
    if corrupt:
        lines = corrupt(lines)
    now = 0.0
    delta = 0.0
    sample = []      # A records of the current T
    samples = 0

    def close_sample():
        nonlocal sharing
        if not sample:
            return
        # independent capacity check: rates of the activities placed on each resource (script + route table)
        use = {}
        for aid, rem, rate in sample:
            a = acts[aid]
            if rate <= 0:
                continue
            if a["k"] == "E":
                use.setdefault(("H", a["host"]), []).append(rate)
            elif a["k"] == "I":
                use.setdefault(("DR" if a["rw"] == "R" else "DW", a["disk"]), []).append(rate)
                use.setdefault(("DT", a["disk"]), []).append(rate)
            else:
                for n, d in rt[(a["src"], a["dst"])]:
                    use.setdefault(("L", n if d == "N" else n + ":" + d), []).append(rate / bf)
        for (kind, name), rates in use.items():
            if len(rates) > 1:
                sharing = True
            if kind == "H":
                cap = hosts[name]["speeds"][0] * hosts[name]["cores"]
                tot = sum(rates)
            elif kind == "L":
                l = links[name.split(":")[0]]
                cap = l["bw"]
                tot = max(rates) if l["pol"] == "F" else sum(rates)
            else:
                d = disks[name]
                cap = d["rbw"] if kind == "DR" else d["wbw"] if kind == "DW" else max(d["rbw"], d["wbw"])
                tot = sum(rates)
            ctx.count("checks.capacity_from_rates")
            if tot > cap * (1 + PREC_WORK) + PREC_WORK:
                bad("C21:capacity-from-rates:%s" % kind, "at t=%r the activities placed on %s %s progress at %r in total (rates %r), its capacity is %r"
                    % (now, kind, name, tot, rates, cap))

    for ln in lines:
        f = ln.split()
        if not f:
            continue
        if f[0] == "T":
            close_sample()
            sample = []
            now, delta = float(f[1]), float(f[2])
            samples += 1
            ctx.count("samples.time_advance")
            ctx.count("samples.lmm_solves", int(f[3]))
        elif f[0] == "A":
            aid, rem, rate = int(f[1]), float(f[2]), float(f[3])
            s = st[aid]
            a = acts[aid]
            sample.append((aid, rem, rate))
            ctx.count("samples.activity")
            if rem < 0 or math.isnan(rem):
                bad("C21:remaining-negative:%s" % a["k"], "activity %r has remaining %r at t=%r" % (a, rem, now))
            if rem > s["prev"] + PREC_WORK:
                bad("C21:remaining-increased:%s" % a["k"], "activity %r: remaining went %r -> %r at t=%r" % (a, s["prev"], rem, now))
            if rate < 0:
                bad("C21:rate-negative:%s" % a["k"], "activity %r consumes at rate %r at t=%r" % (a, rate, now))
            s["prev"] = rem
            s["integral"] += rate * delta
            s["maxrate"] = max(s["maxrate"], rate)
            s["steps"] += 1 if rate > 0 else 0
            s["trace"].append((now, rem, rate))
        elif f[0] == "U":
            kind, name, load, cap = f[1], f[2], float(f[3]), float(f[4])
            ctx.count("samples.resource_load")
            if load > cap * (1 + PREC_WORK) + PREC_WORK or load < 0:
                bad("C21:load-over-capacity:%s" % kind, "at t=%r %s %s reports a load of %r, its capacity is %r" % (now, kind, name, load, cap))
        elif f[0] == "B":
            aid = int(f[1])
            st[aid] = {"start": float(f[2]), "prev": amount(acts[aid]), "integral": 0.0, "maxrate": 0.0, "trace": [], "steps": 0}
        elif f[0] == "F":
            aid, clock, stt, ft = int(f[1]), float(f[2]), float(f[3]), float(f[4])
            s = st[aid]
            a = acts[aid]
            amt = amount(a)
            s["done"] = True
            s["ft"] = ft
            ctx.count("activities.completed." + a["k"])
            tol = PREC_WORK + 2 * PREC_TIMING * s["maxrate"] + 1e-12 * amt
            err = s["integral"] - amt
            ctx.maximum("worst_integral_error_over_tolerance." + a["k"], abs(err) / tol)
            if abs(err) > tol:
                if a["k"] == "I" and abs(err) <= 0.5 * s["steps"] + tol:
                    bad("C21:integral:I:within-rint-rounding", "I/O %r received sum(rate*dt) = %r bytes for %r requested (error %r, %d samples while running): "
                        "the disk model rounds the progress of every step to an integer number of bytes" % (a, s["integral"], amt, err, s["steps"]))
                else:
                    bad("C21:integral:%s" % a["k"], "activity %r completed at %r having received sum(rate*dt) = %r for %r requested (error %r, tolerance %r); "
                        "samples (t, remaining, rate): %r" % (a, ft, s["integral"], amt, err, tol, s["trace"][-6:]))
            # zero exactly at completion
            for (t, rem, rate) in s["trace"]:
                if t < ft - PREC_TIMING and rem <= 0 and amt > 0:
                    bad("C21:zero-before-completion:%s" % a["k"], "activity %r shows remaining %r at t=%r, it completes at %r" % (a, rem, t, ft))
                    break
                if abs(t - ft) <= 0 and rem > PREC_WORK:
                    bad("C21:nonzero-at-completion:%s" % a["k"], "activity %r completes at %r with remaining %r" % (a, ft, rem))
                    break
            if ft < s["start"] or clock < ft:
                bad("C21:finish-date-order", "activity %r: started %r, finish time %r, seen by its actor at %r" % (a, s["start"], ft, clock))
        elif f[0] == "END":
            close_sample()
            sample = []
    missing = [i for i in acts if i not in st or not st[i].get("done")]
    if missing or not any(l.startswith("END") for l in lines):
        ok = False
    # k equal execs on n cores
    kq = w.get("keq")
    if kq and ok:
        n, k, sp, fl = kq["n"], kq["k"], kq["speed"], kq["flops"]
        share = sp * min(1.0, n / k)
        for i in kq["ids"]:
            s = st[i]
            ctx.count("checks.keq_exec")
            exp = s["start"] + fl / share
            if abs(s["ft"] - exp) > PREC_TIMING + 1e-12 * max(exp, 1.0):
                bad("C21:k-equal-execs:finish:%s" % ("k<=n" if k <= n else "k>n"), "%d equal execs of %r flops on a %d-core host of speed %r: exec %d "
                    "finished at %r, expected W/(S*min(1,n/k)) = %r" % (k, fl, n, sp, i, s["ft"], exp))
            for (t, rem, rate) in s["trace"]:
                if rate and abs(rate - share) > 1e-9 * share:
                    bad("C21:k-equal-execs:rate:%s" % ("k<=n" if k <= n else "k>n"), "%d equal execs on a %d-core host of speed %r: exec %d progresses at %r "
                        "at t=%r, expected S*min(1,n/k) = %r" % (k, n, sp, i, rate, t, share))
                    break
    return ok and viol[0] == 0, sharing or bool(kq and kq["k"] > 1), samples


def run_one(flavour, flags, w, timeout=300):
    exe = build.harness("conserve.cpp", flavour, internal=True, deps=["plat.hpp"])
    return proc.run([exe, "--log=root.thres:critical"] + flags, stdin=workload_text(w), timeout=timeout)


def evaluate(ctx, w, cfg, flavour, corrupt=None):
    name, flags, bf = cfg
    res = run_one(flavour, flags, w)
    ctx.evaluation()
    ctx.count("processes." + flavour)
    wit = {"workload": w, "cfg": list(cfg), "flavour": flavour}
    if res.timed_out:
        ctx.inconclusive("conserve harness watchdog")
        return
    if res.rc != 0 or "END" not in res.out:
        san = proc.sanitizer_reports(res.err)
        ctx.violation("C21:crash:%s" % name.split(":")[1], "conserve harness died rc=%s under %s: %s" % (res.rc, name, san[:1] or res.err[-500:]), wit)
        return
    full, sharing, samples = check(ctx, w, name, bf, res.out, wit, corrupt)
    if full and sharing and samples >= 3:
        ctx.nontrivial([workload_text(w), name])


# directed witnesses -----------------------------------------------------------------------------------------
def directed_rint():
    """One 2e8-byte read at 1e8 B/s next to an exec ending at t=1.4727742268: the read finishes 3.2 ns early."""
    p = {"hosts": [{"name": "h0", "cores": 4, "speeds": [1e9]}], "links": [{"name": "l0", "bw": 1e6, "lat": 0.01, "pol": "S"}], "routes": [],
         "disks": [{"host": "h0", "name": "d0", "rbw": 1e8, "wbw": 5e7}]}
    a0 = {"k": "I", "id": 0, "disk": "d0", "rw": "R", "size": 200000000}
    a1 = {"k": "E", "id": 1, "host": "h0", "flops": 1472774226.8, "bound": -1.0, "prio": 1.0, "threads": 1}
    return {"platform": p, "keq": None, "actors": [{"name": "a0", "host": "h0", "script": [("one", a0)]}, {"name": "a1", "host": "h0", "script": [("one", a1)]}]}


def run(ctx):
    n = ctx.size(26, 700)
    nk = ctx.size(14, 300)
    tmp = tempfile.mkdtemp(prefix="verif-C21-")
    try:
        for fl in ("hooks", "asan"):
            build.harness("conserve.cpp", fl, internal=True, deps=["plat.hpp"])
        jobs = [(directed_rint(), CONFIGS[0], "hooks")]
        for i in range(n):
            w = gen_workload(ctx.sub_rng("w", i))
            for cfg in CONFIGS:
                jobs.append((w, cfg, "hooks"))
            if i % 10 == 0:
                jobs.append((w, CONFIGS[i // 10 % len(CONFIGS)], "asan"))
        for i in range(nk):
            w = gen_keq(ctx.sub_rng("k", i))
            jobs.append((w, CONFIGS[i % 2], "hooks"))      # the CPU model is the same under the network variants: Lazy and Full
        ctx.sample({"workload": workload_text(jobs[1][0]).splitlines(), "cfg": jobs[1][1][0]})
        ctx.sample({"k_equal": jobs[-1][0]["keq"], "cfg": jobs[-1][1][0]})
        ctx.pmap(lambda j: evaluate(ctx, j[0], j[1], j[2]), jobs)
    finally:
        shutil.rmtree(tmp, ignore_errors=True)


def _untuple(w):
    for r in w["platform"]["routes"]:
        r["links"] = [tuple(x) for x in r["links"]]
    for a in w["actors"]:
        a["script"] = [tuple(x) for x in a["script"]]
    return w


def replay(ctx, wit):
    evaluate(ctx, _untuple(wit["workload"]), tuple(wit["cfg"]), wit["flavour"])
