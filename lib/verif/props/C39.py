"""C39 Declared-independent transitions commute; the dependency relation is symmetric.

Two legs, both on the real checker-side classes (harness/cm_chk.cpp, linked with SimGrid's private headers):

* algebraic: real Transition objects of every kind the checker deserialises, built through Channel::reinject +
  deserialize_transition with every parameter-equality pattern that a dependency rule looks at (same / other mutex, semaphore,
  barrier, condvar, mailbox, comm; owner / sender / receiver / join target / created child equal to the other actor or not;
  timeouts; TestAny / WaitAny of 1-2 sub-transitions), for several pairs of actor ids: Transition::dispatch_depends (the
  entry point every explorer uses) must answer the same in both directions for every pair, and "dependent" for one actor.

* semantic: generated programs (mutex / semaphore / condvar / barrier / mailbox sync+async / test / wait_any / test_any /
  iprobe / actor create-join-exit-sleep / MC_random) run by harness/cm_app.cpp under a checker built on the real
  mc::RemoteApp: at every state of random walks, pairs of enabled transitions (aid, times_considered) of different actors are
  executed in both orders from a fork of that state. The checker's answers to the dependency questions its explorers ask
  about the two (as executed from the same state: sleep sets; as executed one after the other, in both orders: race
  detection) are recorded; when one of them is "independent", the second transition must still be enabled after the first
  (both ways) and the two orders must reach the same state: actors' enabledness, number of alternatives and pending
  transitions as the checker decodes them, and on the application side every actor's position and observation vector (results
  of try_lock / test / test_any / wait_any / iprobe / receives / MC_random / timeouts), owner + FIFO queue of every mutex, value
  and queue of every semaphore, waiters of every condvar and barrier, queue of every mailbox, pending comm slots (comm ids up
  to renaming).
"""
import hashlib
import os
import shutil
import tempfile

from verif import core, proc
from verif.gen import cmprog
from verif.oracles import cm_judge as J
from verif.oracles import cm_run as R

META = {
    "id": "C39", "engine": "E6 mc_diff + E4 unit harness", "engine_path": "harness/cm_chk.cpp",
    "engine_kind": "checker-side driver on the real mc::RemoteApp / Transition classes + program VM (harness/cm_app.cpp) with "
                   "SIMGRID_VERIF hooks; Python judge",
    "level": "exploration",
    "technique": "both-order execution of co-enabled transition pairs from forked real program states, compared on checker-visible "
                 "and application-visible state; exhaustive kind x parameter-pattern symmetry of dispatch_depends",
    "level_text": "Every pair tried is executed for real, in both orders, from a fork of a real application state reached by the "
                  "real checker protocol, and the resulting states are compared on everything the application and the checker can "
                  "observe; the dependency answers are those of the real dispatch_depends on the real executed Transition objects "
                  "(the three questions the explorers ask: sleep-set filtering, race detection in either order). Programs are small "
                  "(2-5 actors, <= ~10 calls each) and dense in ties on few objects; states come from random walks, so the "
                  "exploration is a sample, not a proof. The symmetry leg is exhaustive over kind pairs x the parameter equalities "
                  "the rules read.",
    "level_note": "Trusted: the fingerprint of harness/cm_app.cpp (reads kernel objects through private members), comm ids "
                  "compared up to renaming, the creation side and RUNNING/DONE state of a matched comm ignored (artefacts of the "
                  "MC mode). Programs stay inside the API contract (a condvar always with the same mutex, a barrier for n actors "
                  "used by <= n actors, no recursive mutex). hooks flavour only for the walks (the application is forked hundreds "
                  "of times per program); the symmetry leg also runs under ASan+UBSan. MUTEX_TEST cannot be issued by an "
                  "application (no S4U call): it is covered by the algebraic leg only. Dependencies computed from *pending* "
                  "transition descriptions (UDPOR) are recorded but not judged.",
    "rule": "case = one pair of co-enabled transitions of different actors at one reached state; non-trivial = the pair was declared "
            "independent by at least one view and both orders ran to completion (distinct by program, state and pair)",
    "assumptions": ["a transition is identified by (actor, times_considered), as in the checker's replay and sleep sets",
                    "states equal up to a renaming of comm ids are the same state"],
    "ready": True,
}

# ----------------------------------------------------------------------------------------------------------------------
# algebraic leg


def variants(me, other, third):
    """All transition descriptions (grammar of cm_chk sym mode) of actor `me` over the parameter patterns the rules read."""
    out = []
    for k in ("ML", "MW", "MU", "MT", "Mt"):
        for m in (0, 1):
            for owner in (me, other, -1):
                out.append((me, 0, k, m, owner))
    for k in ("SL", "SU", "SW"):
        for s in (0, 1):
            for granted in (0, 1):
                for cap in (0, 1):
                    out.append((me, 0, k, s, granted, cap))
    for k in ("BL", "BW"):
        for b in (0, 1):
            out.append((me, 0, k, b))
    for c in (0, 1):
        for m in (0, 1):
            out.append((me, 0, "CL", c, m))
            for granted in (0, 1):
                for to in (0, 1):
                    out.append((me, 0, "CW", c, m, granted, to))
        out.append((me, 0, "CS", c))
        out.append((me, 0, "CB", c))
    for comm in (1, 2):
        for mb in (0, 1):
            out.append((me, 0, "RV", comm, mb, 0))
            out.append((me, 0, "SD", comm, mb, 0))
    for mb in (0, 1):
        for snd in (0, 1):
            out.append((me, 0, "IP", mb, snd, 0))
    parties = [(me, other), (other, me), (-1, me), (me, -1), (third, me), (me, third)]
    tests, waits = [], []
    for comm in (1, 2):
        for s, d in parties:
            for mb in (0, 1):
                tests.append((comm, s, d, mb))
                out.append((me, 0, "TS") + tests[-1])
                for to in (0, 1):
                    waits.append((to, comm, s, d, mb))
                    out.append((me, 0, "WT") + waits[-1])
    for target in (other, third):
        for to in (0, 1):
            out.append((me, 0, "AJ", target, to))
        out.append((me, 0, "AC", target))
    out.append((me, 0, "AE"))
    out.append((me, 0, "AS"))
    for tc in (0, 1):
        out.append((me, tc, "RN", 0, 1))
    # TestAny / WaitAny: 1 and 2 sub-transitions; times_considered inside the ranges both deserialisers accept
    picks = [tests[0], tests[1], tests[5], tests[12], tests[14]]
    for t in picks:
        out.append((me, 0, "TA", 1) + t)
    for a in picks[:3]:
        for b in picks[2:]:
            for tc in (0, 1):
                out.append((me, tc, "TA", 2) + a + b)
    en = [w for w in waits if w[2] >= 0 and w[3] >= 0]
    dis = [w for w in waits if w[2] < 0 or w[3] < 0]
    wp = [en[0], en[1], en[5], en[9], en[14]]
    for w in wp:
        out.append((me, 0, "WA", 1) + w)
    for a in wp[:3]:
        for b in wp[2:]:
            for tc in (0, 1):
                out.append((me, tc, "WA", 2) + a + b)
        out.append((me, 0, "WA", 2) + dis[0] + a)        # first sub-wait not enabled: times_considered 0 is the second one
        out.append((me, 0, "WA", 2) + a + dis[3])
    return out


KIND_NAMES = {"ML": "MUTEX_ASYNC_LOCK", "MW": "MUTEX_WAIT", "MU": "MUTEX_UNLOCK", "MT": "MUTEX_TRYLOCK", "Mt": "MUTEX_TEST",
              "SL": "SEM_ASYNC_LOCK", "SU": "SEM_UNLOCK", "SW": "SEM_WAIT", "BL": "BARRIER_ASYNC_LOCK", "BW": "BARRIER_WAIT",
              "CL": "CONDVAR_ASYNC_LOCK", "CW": "CONDVAR_WAIT", "CS": "CONDVAR_SIGNAL", "CB": "CONDVAR_BROADCAST",
              "RV": "COMM_ASYNC_RECV", "SD": "COMM_ASYNC_SEND", "IP": "COMM_IPROBE", "TS": "COMM_TEST", "WT": "COMM_WAIT",
              "AJ": "ACTOR_JOIN", "AE": "ACTOR_EXIT", "AS": "ACTOR_SLEEP", "AC": "ACTOR_CREATE", "RN": "RANDOM",
              "TA": "TESTANY", "WA": "WAITANY"}


def sym_groups(rng, ngroups):
    groups = [(1, 2, 3), (2, 1, 3), (0, 30, 15)]
    while len(groups) < ngroups:
        a, b, c = rng.sample(range(0, 31), 3)
        groups.append((a, b, c))
    return groups[:ngroups]


def check_symmetry(ctx, chk, flavour, groups, corrupt=False):
    text, metas = "", []
    for gi, (a, b, c) in enumerate(groups):
        ta, tb = variants(a, b, c), variants(b, a, c)
        metas.append((ta, tb))
        text += "G %d\n" % gi + "".join(" ".join(str(x) for x in t) + "\n" for t in ta + tb) + "M\n"
    res = R.run_sym(chk, text, timeout=600)
    if res.timed_out:
        ctx.inconclusive("watchdog:sym")
        return
    other = [(k, l) for k, l in proc.sanitizer_reports(res.err) if not ("Channel.hpp" in l and "misaligned address" in l)]
    if other:
        ctx.violation("C39:sanitizer:dispatch_depends:" + other[0][0], "sanitizer report while building transitions / computing "
                      "dependencies (%s flavour): %s" % (flavour, other[0][1]), {"leg": "sym-san", "flavour": flavour})
        return
    if res.rc not in (0, 87) or "DONE" not in res.out:
        raise core.HarnessFailure("cm_chk sym mode failed (%s, rc=%s): %s" % (flavour, res.rc, res.brief()))
    rows, gi = {}, None
    for line in res.out.split("\n"):
        f = line.split()
        if not f:
            continue
        if f[0] == "M":
            gi = int(f[1])
            rows[gi] = []
        elif f[0] == "R":
            rows[gi].append(f[2])
    for gi, (ta, tb) in enumerate(metas):
        m = rows.get(gi)
        n = len(ta) + len(tb)
        if m is None or len(m) != n or any(len(r) != n for r in m):
            raise core.HarnessFailure("cm_chk sym mode: malformed matrix for group %d" % gi)
        if corrupt:                       # oracle self-test: flip one answer
            r = list(m[3])
            r[len(ta) + 5] = "1" if r[len(ta) + 5] == "0" else "0"
            m[3] = "".join(r)
        alltr = ta + tb
        seen_kinds = {}
        for i in range(len(ta)):
            for j in range(len(ta), n):
                x, y = m[i][j], m[j][i]
                ctx.evaluation()
                kp = "+".join(sorted([KIND_NAMES[alltr[i][2]], KIND_NAMES[alltr[j][2]]]))
                seen_kinds.setdefault(kp, set()).add(x)
                if x != y or x not in "01":
                    ctx.violation("C39:asymmetric:" + kp,
                                  "dispatch_depends is not symmetric (%s flavour): [%s].depends([%s]) = %s but the converse = %s"
                                  % (flavour, " ".join(map(str, alltr[i])), " ".join(map(str, alltr[j])), x, y),
                                  {"leg": "sym", "flavour": flavour, "a": list(alltr[i]), "b": list(alltr[j])})
        for i in range(n):               # one actor: always dependent
            for j in range(n):
                if (i < len(ta)) == (j < len(ta)) and m[i][j] != "1":
                    ctx.violation("C39:same-actor-independent:" + KIND_NAMES[alltr[i][2]] + "+" + KIND_NAMES[alltr[j][2]],
                                  "two transitions of one actor declared independent: [%s] [%s]"
                                  % (" ".join(map(str, alltr[i])), " ".join(map(str, alltr[j]))),
                                  {"leg": "sym", "flavour": flavour, "a": list(alltr[i]), "b": list(alltr[j])})
        ctx.count("sym.pairs." + flavour, len(ta) * len(tb))
        ctx.count("sym.kind_pairs_with_both_answers", sum(1 for v in seen_kinds.values() if len(v) == 2) if gi == 0 else 0)
        if gi == 0:
            ctx.maximum("sym.kind_pairs", len(seen_kinds))
            if len(seen_kinds) != 26 * 27 // 2:
                raise core.HarnessFailure("symmetry leg: %d kind pairs instead of %d" % (len(seen_kinds), 26 * 27 // 2))


# ----------------------------------------------------------------------------------------------------------------------
# semantic leg

DIRECTED = [
    # name, spec, walks, depth, pairs, fixed seed
    ("test-vs-send", "mbox 1\nactor s0.5\nactor r0 t0\n", 6, 12, 12, 3),
    ("test-vs-recv", "mbox 1\nactor r0\nactor s0.5 t0\n", 6, 12, 12, 3),
    ("waitany-vs-send", "mbox 2\nactor s0.5 s1.6\nactor r1 r0 a a\n", 4, 20, 12, 3),
    ("waitany-vs-recv", "mbox 2\nactor r0 r1\nactor s1.5 s0.6 a a\n", 4, 20, 12, 5),
    ("testany-vs-send", "mbox 2\nactor s0.5 s1.6\nactor r0 r1 y y\n", 4, 20, 12, 3),
    ("testany-ready-list", "mbox 1\nsem 0\nactor r0 V0 y\nactor P0 s0.5\n", 4, 20, 12, 3),
    ("mutex-3", "mutex 1\nactor L0 U0\nactor L0 U0\nactor T0 I1 U0\n", 3, 20, 12, 3),
    ("mutex-2x2", "mutex 2\nactor L0 L1 U1 U0\nactor L1 L0 U0 U1\nactor T0 T1\n", 3, 24, 12, 3),
    ("sem-3", "sem 1 0\nactor P0 V1\nactor P1 V0\nactor P0 V0 p1\n", 3, 24, 12, 3),
    ("cond-3", "mutex 1\ncond 1\nactor L0 W0.0 U0\nactor L0 N0 U0\nactor L0 A0 U0 L0 w0.0 U0\n", 3, 30, 12, 3),
    ("barrier-3", "barrier 2 3\nactor R0 R1\nactor R0 R1\nactor R1\n", 3, 20, 12, 3),
    ("mbox-sync-3", "mbox 1\nactor S0.1 S0.2\nactor G0 b0.0\nactor G0 b0.1\n", 3, 24, 12, 3),
    ("actors", "mutex 1\nactor K2 J1 L0 U0\nactor Q0.2 I1 Y X\ndyn L0 U0 j0\n", 3, 24, 12, 3),
]


def judge_log(ctx, log, res, spec, params, tag, corrupt=None):
    """Applies the C39 rules to one run. corrupt: oracle self-test (see selftest)."""
    nb = 0
    if res.timed_out:
        ctx.inconclusive("watchdog:walk")
        return 0
    if res.rc == 127:                      # the dynamic loader failed: libsimgrid.so was being relinked by a concurrent build
        ctx.inconclusive("loader")
        return 0
    if log.errors or not log.ended or log.malformed:
        ctx.count("runs.harness_error")
        ctx.count("runs.harness_error." + (log.errors[0].split()[0] if log.errors else "incomplete"))
        ctx.sample({"harness_error": log.errors[:2] + log.malformed[:2], "rc": res.rc, "stderr": res.err[-400:], "spec": spec})
    ctx.count("runs")
    ctx.count("states", len(log.states))
    ctx.count("transitions_executed", len(log.execs))
    for pi, p in enumerate(log.pairs):
        if corrupt == "swap-obs" and len(p.b[2].states) >= 2 and p.b[2].states[-1].s:
            p.b[2].states[-1].s = p.b[2].states[-1].s.replace("a0:", "a0:B99:", 1)
        if corrupt == "flip-dep":
            p.deps = {k: ("00" if v not in ("-",) else v) for k, v in p.deps.items()}
        info, bad = J.judge_pair(p)
        ctx.evaluation()
        ctx.count("pairs")
        if any("x" in p.deps.get(v, "") for v in ("pend",) + J.VIEWS):
            ctx.count("pairs.depends_threw")           # judged by C43 (TestAny's current sub-transition)
        indep = bool(info["indep_views"])
        if indep:
            ctx.count("pairs.declared_independent")
            if info["complete"]:
                ctx.count("pairs.independent.both_orders_compared")
                ctx.nontrivial("%s:%s:%d" % (tag, hashlib.sha1(spec.encode()).hexdigest()[:10], pi))
            ctx.count("independent." + info["kinds"])
        else:
            ctx.count("pairs.declared_dependent")
            if info["commutes"] is False:
                ctx.count("pairs.dependent.really_not_commuting")
        if len(set(info["indep_views"])) not in (0, 3) and info["complete"]:
            ctx.count("pairs.views_disagree")
        for rule, kinds, detail in bad:
            if rule == "depends-throws":
                continue
            nb += 1
            key = "C39:%s:%s" % (rule, kinds)
            ctx.violation(key, "%s\nprogram:\n%s" % (detail, spec),
                          {"leg": "walk", "spec": spec, "params": params, "key": key, "pair": [p.a1, p.t1, p.a2, p.t2]})
    return nb


def run_program(ctx, bins, tmp, name, spec, seed, walks, depth, pairs, tag):
    res, log, _txt = R.run_walk(bins, tmp, name, spec, seed, walks, depth, pairs, timeout=900)
    params = {"seed": seed, "walks": walks, "depth": depth, "pairs": pairs}
    return judge_log(ctx, log, res, spec, params, tag)


def run(ctx):
    tmp = tempfile.mkdtemp(prefix="verif-C39-")
    try:
        bins = R.binaries()
        # algebraic leg
        ng = ctx.size(quick=4, thorough=40)
        check_symmetry(ctx, bins[0], "hooks", sym_groups(ctx.rng, ng))
        from verif import build
        chk_asan = build.harness("cm_chk.cpp", "asan", internal=True)
        check_symmetry(ctx, chk_asan, "asan", sym_groups(ctx.rng, max(1, ng // 4)))
        # semantic leg: directed programs (fixed seeds), then generated ones
        jobs = [("d-" + n, spec, seed, w, d, p, "directed") for n, spec, w, d, p, seed in DIRECTED]
        nprog = ctx.size(quick=24, thorough=900)
        walks = 1 if ctx.tier == "quick" else 2
        for i in range(nprog):
            rng = ctx.sub_rng("prog", i)
            p, fam = cmprog.generate(rng)
            jobs.append(("g%d" % i, cmprog.render(p), ctx.sub_seed("walk", i) % 100000, walks, 26, 3, "gen"))
            ctx.count("programs." + fam.split("+")[0])

        def one(job):
            name, spec, seed, w, d, p, tag = job
            return run_program(ctx, bins, tmp, name, spec, seed, w, d, p, tag)
        ctx.pmap(one, jobs)
        ctx.sample({"program": jobs[len(DIRECTED)][1], "walk_seed": jobs[len(DIRECTED)][2]})
    finally:
        shutil.rmtree(tmp, ignore_errors=True)


def replay(ctx, w):
    tmp = tempfile.mkdtemp(prefix="verif-C39-")
    try:
        bins = R.binaries()
        if w.get("leg") == "sym":
            a, b = w["a"], w["b"]
            text = "G 0\n%s\n%s\nM\n" % (" ".join(map(str, a)), " ".join(map(str, b)))
            from verif import build
            chk = bins[0] if w.get("flavour", "hooks") == "hooks" else build.harness("cm_chk.cpp", "asan", internal=True)
            res = R.run_sym(chk, text)
            rows = [l.split()[2] for l in res.out.split("\n") if l.startswith("R ")]
            ctx.evaluation()
            if len(rows) == 2 and rows[0][1] != rows[1][0]:
                ctx.violation("C39:asymmetric:" + "+".join(sorted([KIND_NAMES[a[2]], KIND_NAMES[b[2]]])),
                              "dispatch_depends still asymmetric on the witness pair", w)
            return
        p = w["params"]
        run_program(ctx, bins, tmp, "replay", w["spec"], p["seed"], p["walks"], p["depth"], p["pairs"], "replay")
    finally:
        shutil.rmtree(tmp, ignore_errors=True)
