"""C47 Paje traces are well formed."""
import hashlib
import os
import re
import shutil
import tempfile
import threading

from verif import build, core, proc
from verif.gen import tracegen
from verif.oracles import paje

META = {
    "id": "C47", "engine": "E1 s4u harness + E5 MPI programs, tracing on", "engine_path": "harness/trace.cpp",
    "engine_kind": "generated S4U scenarios (harness/trace.cpp) and seeded MPI programs (harness/mpi/tracemix.c under smpirun) run on the "
                   "real engine with tracing enabled; the trace file SimGrid writes is the observation",
    "level": "exploration",
    "technique": "offline Paje grammar/lifetime validator over every line of every produced trace file (header-driven parser + entity model)",
    "level_text": "Every trace file produced by a generated program x tracing option set is parsed through its own %EventDef header and replayed "
                  "through a model of the Paje entities: types/values/containers must be defined before any use (with the right kind, parents "
                  "alive), dates must be non-decreasing over the file, nothing may reference a destroyed container, PopState never pops an empty "
                  "(container, state type) stack (SetState/ResetState as Paje defines). S4U scenarios: generated hierarchical platforms (1-3 "
                  "zones, routers, split-duplex/fatpipe links, disks), speed/bandwidth/latency/state profiles, hosts and links failing and "
                  "rebooting, actors created/killed/suspended/migrating/auto-restarting, mailbox and host-to-host comms, maestro-started "
                  "activities, VMs (start/suspend/migrate/destroy), user categories, user variables, marks and user host states. MPI: seeded mixes "
                  "of p2p (blocking, non-blocking, persistent, probe), 14 collectives, communicator splits, RMA, compute/sleep, categories. "
                  "Option sets: categorized, uncategorized, platform, platform/topology, actor, vm, smpi, smpi/internals, smpi/computing, "
                  "smpi/sleeping, smpi/group, smpi/display-sizes, basic, precision, disable-destroy, disable_link, disable_power. A run that "
                  "aborts inside the tracing code (uncaught TracingError, assertion in src/instr) is reported too: no well-formed trace exists.",
    "level_note": "Judged clauses are exactly those of the statement (definition before use incl. kind and live parent, non-decreasing dates, "
                  "no use after destruction, no PopState on an empty stack); link-key pairing, field-count mismatches, states left open and "
                  "type/container-type consistency are counted, not judged. With tracing/disable-destroy no destruction is written, so the "
                  "use-after-destroy clause is vacuous there. A run that dies is charged to tracing only if the same program finishes without "
                  "any tracing option (differential baseline); deadlocking programs are discarded. 21 open known-finding entries (17 root causes) exist on this tree; "
                  "3 cases out of 4 ('tame') leave out the workload features that trigger the aborting ones (routers, sibling zones + "
                  "topology, speed/bandwidth changes without the resource variables, categories without uncategorized, maestro comms, actor "
                  "migration across zone levels, auto-restart, kills, tracing/vm) so that the rest of the tracing code is still observed; 1 "
                  "out of 4 ('wild') keeps everything, VERIF_C47_WILD=1 makes every case wild (use it once the fixes are in). Keys of "
                  "PopState/date violations carry the context features the open findings need, so the same rule in another context is a "
                  "new violation. MPI runs use the hooks flavour only (SMPI under ASan reports in the sigaltstack interceptor); S4U runs "
                  "use hooks plus a 10% ASan+UBSan leg (thread contexts). The validator is self-tested on every run: 7 corruptions of a "
                  "real clean trace must each be answered with the expected rule.",
    "rule": "case = (program, tracing option set); non-trivial = the run completed, its trace was validated to the last line, holds >= 20 events "
            "and reaches a date > 0; distinct by (program, options)",
    "assumptions": ["a trace line is judged only through the field names announced by the file's own header",
                    "container 0 / type 0 are the implicit Paje root"],
    "ready": True,
}

MPI_PLATFORMS = [
    ("/repo/examples/platforms/small_platform.xml", ["Tremblay", "Jupiter", "Fafard", "Ginette", "Bourassa"]),
    ("/repo/examples/platforms/cluster_backbone.xml", ["node-%d.simgrid.org" % i for i in range(6)]),
    ("/repo/examples/platforms/cluster_multi.xml", None),
]

BASE_LOG = "--log=root.thres:critical"
# VERIF_C47_WILD=1: no case avoids the triggers of the open known findings (to be used on a tree where they are fixed)
ALL_WILD = os.environ.get("VERIF_C47_WILD") == "1"
# VERIF_C47_NOASAN=1: development knob, skips the ASan+UBSan leg (e.g. on a scratch worktree whose asan flavour is not built)
NO_ASAN = os.environ.get("VERIF_C47_NOASAN") == "1"


def _norm_msg(m):
    m = re.sub(r"0x[0-9a-f]+", "PTR", m)
    m = re.sub(r"[0-9]+", "#", m)
    return m.strip()[:120]


def classify_abort(res):
    """Stable class of a run that did not finish: (class string, one-line description)."""
    err = res.err or ""
    reps = proc.sanitizer_reports(err)
    if reps:
        kind, line = reps[0]
        m = re.search(r"(AddressSanitizer|runtime error): ?(.*)", line)
        what = _norm_msg(m.group(2)) if m else "report"
        what = re.sub(r" on address.*", "", what)
        fr = re.search(r"#\d+ \S+ in (simgrid::instr::\S+|[A-Za-z_:]*instr[A-Za-z_:]*)", err)
        return "SAN:%s:%s%s" % (kind, what.replace(" ", "-")[:60], (":" + fr.group(1).split("(")[0]) if fr else ""), line
    m = re.search(r"Uncaught exception (\S+) by [^:]*: (.*)", err)
    if m:
        return "ABORT:%s:%s" % (m.group(1).replace("simgrid::", ""), _norm_msg(m.group(2)).replace(" ", "-")), m.group(0)[:300]
    m = re.search(r"\[[^\]]*/CRITICAL\] (.*)", err)
    if m:
        return "ABORT:critical:%s" % _norm_msg(m.group(1)).replace(" ", "-")[:80], m.group(0)[:300]
    if res.rc in (-11, 139):
        return "SIGSEGV", "segmentation fault"
    return "ABORT:rc=%s" % res.rc, (err[-300:] or "no stderr")


def context_features(w, v):
    """Features of the case that the open known findings need; a violation of the same rule without them is a different class."""
    text = w.get("text") or ""
    opts = w["opts"]
    f = []
    if v.rule == "POP_EMPTY":
        if "\nsendto" in text:
            f.append("sendto")
        if any(k in text for k in ("\nhostoff", "\nlinkoff", "\nP H ", "\nP K ")):
            f.append("failures")
        if "\nexecs " in text:
            f.append("async-exec")
    elif v.key.startswith("TIME_BACKWARDS:late=") and "Variable" in v.key:
        if tracegen.has(opts, "tracing/uncategorized") or tracegen.has(opts, "tracing/categorized"):
            f.append("utilization")
        if "\nvmcreate " in text and v.event == "PajeSetVariable":
            f.append("vm-created-late")
    return (":ctx=" + "+".join(f)) if f else ""


class Runner:
    def __init__(self, ctx):
        self.ctx = ctx
        self.tmp = tempfile.mkdtemp(prefix="verif-C47-")
        self.n = 0
        self.lock = threading.Lock()

    def close(self):
        shutil.rmtree(self.tmp, ignore_errors=True)

    def path(self, tag):
        with self.lock:
            self.n += 1
            n = self.n      # read under the lock: two worker threads must never get the same file name (their traces would interleave)
        return os.path.join(self.tmp, "%s-%d-%s.trace" % (tag, os.getpid(), hashlib.sha1(("%s/%d" % (tag, n)).encode()).hexdigest()[:10]))

    # ---- judge one trace -------------------------------------------------------------------------------------
    def judge(self, kind, witness, res, trace, finished, baseline=None, retry=None):
        """baseline(): re-runs the same program without any tracing option, returns True when that run finishes."""
        ctx = self.ctx
        ctx.evaluation()
        ctx.count("runs." + kind)
        if res.timed_out:
            ctx.inconclusive("%s watchdog" % kind)
            return None
        aborted = (res.rc != 0) or not finished
        if aborted:
            cls, line = classify_abort(res)
            if baseline is not None and ("TracingError" not in cls or "Deadlock detected" in (res.err or "")):
                ok = baseline()
                if ok is None:
                    ctx.inconclusive("%s watchdog (baseline without tracing)" % kind)
                    return None
                if not ok:
                    # the program dies without tracing too: whatever it is, it is not a tracing defect (other properties own it)
                    ctx.count("runs.dies_without_tracing_too")
                    return None
            ctx.count("runs.aborted")
            if "TracingError" not in cls:
                # crash without a specific message: key it by the known-finding triggers present in the case (none = a new class)
                cls += ":triggers=" + ("+".join(witness.get("triggers") or []) or "none")
            ctx.violation("C47:%s:%s" % (kind, cls), "%s run with %s did not finish (rc=%s): %s" % (kind, " ".join(witness["opts"]), res.rc, line),
                          dict(witness, stderr_tail=(res.err or "")[-1500:]))
        if not os.path.exists(trace):
            if not aborted:
                if retry is not None:
                    # the scratch directory may have been swept by somebody else's cleanup on this shared machine: run once more
                    ctx.count("runs.retried_missing_trace")
                    return retry()
                ctx.violation("C47:%s:NO_TRACE" % kind, "run finished but wrote no trace file (twice)", witness)
            return None
        rep, lines = paje.validate_file(trace)
        ctx.count("traces.validated")
        ctx.count("trace.lines", rep.nlines)
        for k, v in rep.counts.items():
            ctx.count("events." + k, v)
        for k, v in rep.notes.items():
            if v:
                ctx.count("notes." + k.split(":")[0], v)
        ctx.maximum("max_state_depth", rep.max_depth)
        ctx.maximum("max_events_in_a_trace", rep.nevents)
        ctx.maximum("max_containers_in_a_trace", rep.ncontainers)
        seen = set()
        for v in rep.violations:
            key = "C47:%s:%s" % (kind, v.key)
            if v.rule in ("POP_EMPTY", "TIME_BACKWARDS"):
                key += context_features(witness, v)
            if key in seen:
                continue
            seen.add(key)
            ctx.count("violations.lines." + v.rule)
            ctx.violation(key, "%s trace, options [%s], line %d: %s\n  line: %s\n  context:\n    %s" % (
                kind, " ".join(witness["opts"]), v.lineno, v.msg, v.line,
                "\n    ".join(l.rstrip("\n") for l in lines[max(0, v.lineno - 4):v.lineno + 1])), dict(witness, first=v.as_dict()))
        if not aborted and rep.nevents >= 20 and (rep.last_time or 0) > 0 and not rep.notes.get("truncated"):
            ctx.nontrivial(hashlib.sha1(repr((witness.get("text"), witness.get("mpi"), witness["opts"])).encode()).hexdigest())
            for o in witness["opts"]:
                ctx.count("option." + o.split(":")[0])
        try:
            os.unlink(trace)
        except OSError:
            pass
        return rep

    # ---- S4U -------------------------------------------------------------------------------------------------
    def run_s4u(self, text, opts, flavour="hooks", kind="s4u", second=False):
        exe = build.harness("trace.cpp", flavour)
        os.makedirs(self.tmp, exist_ok=True)
        trace = self.path("s")
        cmd = [exe, BASE_LOG, "--cfg=tracing:yes", "--cfg=tracing/filename:" + trace] + ["--cfg=" + o for o in opts]
        if flavour != "hooks":
            # raw contexts + exceptions under ASan = report inside the sanitizer's own sigaltstack interceptor (not SimGrid's)
            cmd.append("--cfg=contexts/factory:thread")
        res = proc.run(cmd, stdin=text, timeout=300)
        self.ctx.count("runs.flavour." + flavour)
        w = {"kind": "s4u", "text": text, "opts": list(opts), "flavour": flavour, "triggers": tracegen.triggers_in(text, opts)}

        def baseline():
            c2 = [c for c in cmd if not c.startswith("--cfg=tracing")]
            r2 = proc.run(c2, stdin=text, timeout=300)
            return None if r2.timed_out else (r2.rc == 0 and "END " in (r2.out or "") and "Deadlock detected" not in (r2.err or ""))
        return self.judge(kind, w, res, trace, "END " in (res.out or ""), baseline,
                          None if second else (lambda: self.run_s4u(text, opts, flavour, kind, True)))

    # ---- MPI -------------------------------------------------------------------------------------------------
    def hostfile(self, hosts, np_):
        p = os.path.join(self.tmp, "hf-%s" % hashlib.sha1(repr(hosts).encode()).hexdigest()[:8])
        with self.lock:
            if not os.path.exists(p):
                with open(p, "w") as f:
                    f.write("\n".join(hosts) + "\n")
        return p

    def run_mpi(self, m, opts, second=False):
        exe = build.smpicc("mpi/tracemix.c", "hooks")
        os.makedirs(self.tmp, exist_ok=True)
        plat, hosts = MPI_PLATFORMS[m["plat"]]
        if hosts is None:
            hosts = ["node-%d.1core.org" % i for i in range(3)] + ["node-%d.2cores.org" % i for i in range(3)]
        trace = self.path("m")
        cmd = [build.smpirun("hooks"), "-np", str(m["np"]), "-hostfile", self.hostfile(hosts, m["np"]), "-platform", plat,
               "--cfg=smpi/host-speed:1Gf", BASE_LOG, "--cfg=tracing:yes", "--cfg=tracing/filename:" + trace]
        cmd += ["--cfg=" + o for o in opts] + [exe, str(m["seed"]), str(m["nops"]), str(m["mask"])]
        res = proc.run(cmd, timeout=400, cwd=self.tmp)
        w = {"kind": "mpi", "mpi": m, "opts": list(opts),
             "triggers": [t for t in (["router"] if m["plat"] in (1, 2) else []) + (["siblings"] if m["plat"] == 2 else [])
                          if t in tracegen.known_triggers(opts)]}
        done = len(re.findall(r"^DONE \d+", res.out or "", re.M))

        def baseline():
            c2 = [c for c in cmd if not c.startswith("--cfg=tracing")]
            r2 = proc.run(c2, timeout=400, cwd=self.tmp)
            return None if r2.timed_out else (r2.rc == 0 and len(re.findall(r"^DONE \d+", r2.out or "", re.M)) == m["np"])
        return self.judge("mpi", w, res, trace, done == m["np"], baseline, None if second else (lambda: self.run_mpi(m, opts, True)))


def gen_mpi(rng, opts, tame):
    # clusters create routers, cluster_multi has sibling zones: both hit open known findings as soon as the platform is traced
    plats = [0] if tame and tracegen.needs_platform(opts) else [0, 0, 1, 2]
    return {"plat": rng.choice(plats), "np": rng.choice([2, 3, 4, 4, 5, 6]), "seed": rng.randrange(1, 10 ** 6),
            "nops": rng.choice([4, 8, 12, 20]), "mask": rng.choice([127, 127, 127 - 16, 1 + 4 + 64, 2 + 4, 127 - 64])}


# Directed cases: the minimal witness of every open known finding (so that each KNOWN-FINDING line is deterministic and
# disappears with its fix) plus fixed well-formed scenarios.
D_PLAT2 = "Z za -\nH za h0 1 2 1000000000.0 500000000.0\nH za h1 1 1 1000000000.0\nL za l0 100000000.0 0.001 S\nR za h0 h1 1 l0 N\nSEAL za\nX\n"
D_TWOZ = ("Z za -\nH za h0 1 1 1000000000.0\nGW za h0\nZ zb -\nH zb h1 1 1 1000000000.0\nGW zb h1\nSEAL za\nSEAL zb\n"
          "L - l_bb 1.25e8 1e-3 S\nZR - za zb 1 l_bb N\nX\n")
DIRECTED_S4U = [
    # (name, text, opts)
    ("late-actor-creation", D_PLAT2 + "script 0 h0 1 0 -1 0\nsleep 1\ncreate 1\nsleep 1\nscript 1 h1 0 0 -1 0\nsleep 1\nend\n",
     ["tracing/actor:yes"]),
    ("killed-actor-during-exec-uncat", D_PLAT2 + "script 0 h0 1 0 -1 0\nexec 4000000000.0 -\nscript 1 h1 1 0 1.0 0\nsleep 3\nend\n",
     ["tracing/actor:yes", "tracing/uncategorized:yes"]),
    ("sendto-from-actor", D_PLAT2 + "script 0 h0 1 0 -1 0\nsendto h0 h1 1000000.0\nend\n", ["tracing/actor:yes"]),
    ("comm-matched-on-dead-link", D_PLAT2 + "script 0 h0 1 0 -1 0\nput mb 1000000.0 - 5.0\nsleep 1\nscript 1 h1 1 0 -1 0\nsleep 1\nget mb 5.0\n"
     "sleep 1\nscript 2 h1 1 0 -1 0\nsleep 0.5\nlinkoff l0\nend\n", ["tracing/actor:yes"]),
    ("pstate-actor-only", D_PLAT2 + "script 0 h0 1 0 -1 0\nsleep 1\npstate h0 1\nsleep 1\nend\n", ["tracing/actor:yes"]),
    ("pstate-disable-power", D_PLAT2 + "script 0 h0 1 0 -1 0\nsleep 1\npstate h0 1\nsleep 1\nend\n",
     ["tracing/uncategorized:yes", "tracing/disable_power:yes"]),
    ("setbw-actor-only", D_PLAT2 + "script 0 h0 1 0 -1 0\nsleep 1\nsetbw l0 50000000.0\nsleep 1\nend\n", ["tracing/actor:yes"]),
    ("categorized-only", D_PLAT2 + "cat c0 -\nscript 0 h0 1 0 -1 0\nexec 1000000000.0 c0\nend\n", ["tracing/categorized:yes"]),
    ("maestro-sendto", D_PLAT2 + "M sendto h0 h1 1000000.0 -\nscript 0 h1 1 0 -1 0\nsleep 2\nend\n", ["tracing/actor:yes"]),
    ("vm-tracing", D_PLAT2 + "script 0 h0 1 0 -1 0\nsleep 1\nend\n", ["tracing/vm:yes"]),
    ("router", "Z za -\nH za h0 1 1 1000000000.0\nRT za r0\nL za l0 100000000.0 0.001 S\nR za h0 r0 1 l0 N\nSEAL za\nX\n"
     "script 0 h0 1 0 -1 0\nsleep 1\nend\n", ["tracing/platform:yes"]),
    ("sibling-zones-topology", D_TWOZ + "script 0 h0 1 0 -1 0\nsleep 1\nend\n", ["tracing/platform:yes"]),
    ("migrate-across-levels", D_TWOZ + "script 0 h0 1 0 -1 0\nsleep 1\nmigrate h1\nsleep 1\nend\n",
     ["tracing/actor:yes", "tracing/platform/topology:no"]),
    ("migrate-across-levels-2", D_TWOZ + "script 0 h0 1 0 -1 0\nsleep 1\nmigrate h1\nsleep 1\nscript 1 h1 1 0 -1 0\nsleep 3\nend\n",
     ["tracing/actor:yes", "tracing/platform/topology:no"]),
    ("autorestart-killed-twice", D_PLAT2 + "script 0 h0 1 0 -1 1\nsleep 10\nscript 1 h1 1 0 -1 0\nsleep 1\nhostoff h0\nhoston h0\nsleep 1\n"
     "hostoff h0\nhoston h0\nend\n", ["tracing/actor:yes"]),
    ("killed-in-unmatched-put", D_PLAT2 + "script 0 h0 1 0 1.0 0\nput mb 1000.0 - 5.0\nscript 1 h1 1 0 -1 0\nsleep 2\nend\n", ["tracing/actor:yes"]),
    ("async-exec-test-then-wait", D_PLAT2 + "script 0 h0 1 0 -1 0\nexecs 1000000000.0 - 2.0 0.5\nend\n", ["tracing/actor:yes"]),
    ("migrate-a-sleeping-actor", D_PLAT2 + "script 0 h0 1 0 -1 0\nsleep 2\nscript 1 h1 1 0 -1 0\nsleep 1\nmigrateother 0 h1\nend\n", ["tracing/actor:yes"]),
    ("vm-created-late", D_PLAT2 + "script 0 h0 1 0 -1 0\nsleep 1\nvmcreate vm0 h1 1\nvmstart vm0\nsleep 1\nvmdestroy vm0\nend\n", ["tracing/platform:yes"]),
    ("vm-on-host-with-pstate", D_PLAT2 + "script 0 h0 1 0 -1 0\npstate h0 1\nsleep 1\nvmcreate vm0 h0 1\nvmstart vm0\nsleep 1\nend\n", ["tracing/uncategorized:yes"]),
    # well-formed ones
    ("maestro-exec", D_PLAT2 + "M exec h0 1000000000.0 -\nscript 0 h1 1 0 -1 0\nsleep 2\nend\n", ["tracing/actor:yes"]),
    ("plain-uncat", D_PLAT2 + "script 0 h0 1 0 -1 0\nexec 1000000000.0 -\nput mb 1000000.0 - 5.0\nscript 1 h1 1 0 -1 0\nget mb 5.0\nexec 500000000.0 -\nend\n",
     ["tracing/uncategorized:yes"]),
    ("plain-platform", D_PLAT2 + "markt mk\nmarkv mk a -\nhvar hv0 -\nscript 0 h0 1 0 -1 0\nsleep 1\nmark mk a\nhvar set h1 hv0 2.0\nsleep 1\nhvar add h1 hv0 1.0\nend\n",
     ["tracing/platform:yes"]),
    ("actors-flat", D_PLAT2 + "script 0 h0 1 0 -1 0\nexec 1000000000.0 -\nmigrate h1\nput mb 1000000.0 - 5.0\nsleep 1\nscript 1 h1 1 0 -1 0\nget mb 5.0\n"
     "suspend 0\nsleep 0.5\nresume 0\nend\n", ["tracing/actor:yes"]),
]
DIRECTED_MPI = [
    ({"plat": 1, "np": 2, "seed": 1, "nops": 2, "mask": 2}, ["tracing/smpi:yes", "tracing/uncategorized:yes"]),          # cluster = router
    ({"plat": 0, "np": 3, "seed": 7, "nops": 6, "mask": 1 + 2 + 4 + 64}, ["tracing/smpi:yes", "tracing/uncategorized:yes"]),  # late utilization
    ({"plat": 0, "np": 4, "seed": 3, "nops": 12, "mask": 127}, ["tracing/smpi:yes", "tracing/smpi/internals:yes", "tracing/smpi/computing:yes"]),
]


def corruptions(lines):
    """Corrupted copies of a clean trace, each with the rule the validator must answer: (name, expected rule, lines)."""
    defs, start, _ = paje.parse_header(lines)
    ids = {name: i for i, (name, _f) in defs.items()}
    body = list(range(start, len(lines)))

    def first(evname, pred=lambda t: True, after=0):
        for i in body:
            t = lines[i].split()
            if i >= after and t and t[0] == ids.get(evname) and pred(t):
                return i
        return None
    out = []
    # 1. swap two timestamped lines of different dates
    a = first("PajePushState")
    if a is not None:
        for j in range(len(lines) - 1, a, -1):
            t = lines[j].split()
            if t and t[0] in (ids["PajePushState"], ids["PajePopState"]) and float(t[1]) > float(lines[a].split()[1]):
                l2 = list(lines)
                l2[a], l2[j] = l2[j], l2[a]
                out.append(("swap-two-lines", "TIME_BACKWARDS", l2))
                break
    # 2. drop a type definition / a value definition / a container creation
    i = first("PajeDefineStateType")
    if i is not None:
        out.append(("drop-state-type-definition", "UNDEF_TYPE", lines[:i] + lines[i + 1:]))
    i = first("PajeDefineEntityValue", lambda t: any(l.split()[:1] == [ids["PajePushState"]] and l.split()[-1] == t[1] for l in lines))
    if i is not None:
        out.append(("drop-value-definition", "UNDEF_VALUE", lines[:i] + lines[i + 1:]))
    i = first("PajeCreateContainer", lambda t: any(l.split()[:1] == [ids["PajePushState"]] and l.split()[3] == t[2] for l in lines))
    if i is not None:
        out.append(("drop-container-creation", "UNDEF_CONTAINER", lines[:i] + lines[i + 1:]))
    # 3. one more pop right after the pop that empties a stack
    depth = {}
    for i in body:
        t = lines[i].split()
        if t and t[0] == ids["PajePushState"]:
            depth[(t[2], t[3])] = depth.get((t[2], t[3]), 0) + 1
        elif t and t[0] == ids["PajePopState"]:
            depth[(t[2], t[3])] -= 1
            if depth[(t[2], t[3])] == 0:
                out.append(("add-a-pop", "POP_EMPTY", lines[:i + 1] + [lines[i]] + lines[i + 1:]))
                break
    # 4. move the destruction of a container before its last event
    i = first("PajeDestroyContainer")
    if i is not None:
        cid = lines[i].split()[3]
        uses = [j for j in body if j < i and len(lines[j].split()) > 3 and lines[j].split()[0] in (ids["PajePushState"], ids["PajePopState"])
                and lines[j].split()[3] == cid]
        if uses:
            j = uses[-1]
            t = lines[i].split()
            t[1] = lines[j].split()[1]
            out.append(("destroy-before-last-use", "USE_AFTER_DESTROY", lines[:j] + [" ".join(t) + "\n"] + lines[j:i] + lines[i + 1:]))
    # 5. a date 1e-6 (the precision of the trace) below the date of the previous timestamped line
    timed = [j for j in body if lines[j].split() and lines[j].split()[0] not in
             [ids[n] for n in ids if n.startswith("PajeDefine")]]
    for k in range(1, len(timed)):
        prev, cur = lines[timed[k - 1]].split(), lines[timed[k]].split()
        if cur[0] == ids["PajePopState"] and float(prev[1]) > 0:
            cur[1] = "%.6f" % (float(prev[1]) - 1e-6)
            out.append(("date-minus-1e-6", "TIME_BACKWARDS", lines[:timed[k]] + [" ".join(cur) + "\n"] + lines[timed[k] + 1:]))
            break
    return out


SELFTEST = (D_PLAT2 + "script 0 h0 1 0 -1 0\nsleep 1\nexec 1000000000.0 -\nput mb 1000000.0 - 5.0\nsleep 1\n"
            "script 1 h1 1 0 -1 0\nget mb 5.0\nsleep 1\nexec 500000000.0 -\nscript 2 h1 1 0 2.5 0\nsleep 1\nsleep 5\nend\n", ["tracing/actor:yes"])


def oracle_selftest(ctx, r):
    """The validator must accept one clean real trace and answer each corruption of it with the expected rule."""
    exe = build.harness("trace.cpp", "hooks")
    trace = r.path("selftest")
    res = proc.run([exe, BASE_LOG, "--cfg=tracing:yes", "--cfg=tracing/filename:" + trace] + ["--cfg=" + o for o in SELFTEST[1]],
                   stdin=SELFTEST[0], timeout=300)
    if res.timed_out:
        ctx.inconclusive("selftest watchdog")
        return
    if res.rc != 0 or not os.path.exists(trace):
        raise core.HarnessFailure("oracle self-test: the reference scenario did not run: " + res.brief())
    rep, lines = paje.validate_file(trace)
    if rep.violations or rep.nevents < 30:
        raise core.HarnessFailure("oracle self-test: the reference trace is not clean: %r" % rep.violations[:3])
    cs = corruptions(lines)
    if len(cs) < 7:
        raise core.HarnessFailure("oracle self-test: only %d corruptions could be built: %r" % (len(cs), [c[0] for c in cs]))
    for name, rule, l2 in cs:
        rep2 = paje.validate_lines(l2)
        if not any(v.rule == rule for v in rep2.violations):
            raise core.HarnessFailure("oracle self-test: corruption %s not answered with %s (got %r)" % (name, rule, rep2.violations[:3]))
        ctx.count("selftest.corruptions_detected")


def run(ctx):
    if os.environ.get("VERIF_C47_NOKNOWN") == "1":   # development knob: every finding is reported with its replay file
        ctx._known = []
    r = Runner(ctx)
    try:
        oracle_selftest(ctx, r)
        for fl in ("hooks",) if NO_ASAN else ("hooks", "asan"):
            build.harness("trace.cpp", fl)
        build.smpicc("mpi/tracemix.c", "hooks")
        n_s4u = ctx.size(220, 30000)
        n_mpi = ctx.size(50, 5000)
        jobs = []
        for name, text, opts in DIRECTED_S4U:
            jobs.append(("s4u", text, opts, "hooks", "s4u"))
        for i in range(n_s4u):
            rng = ctx.sub_rng("s4u", i)
            force = set()
            if i % 7 == 3:
                force.add("vm")
            if i % 5 == 1:
                force.add("fail")
            if i % 11 == 4:
                force.add("maestro")
            wild = (i % 4 == 0) or ALL_WILD      # wild cases keep the triggers of the open known findings, tame ones leave them out
            opts = tracegen.gen_s4u_options(rng)
            if "vm" in force and wild and rng.random() < 0.6 and "tracing/vm:yes" not in opts:
                opts.append("tracing/vm:yes")
            if not wild:
                opts = [o for o in opts if o != "tracing/vm:yes"]     # tracing/vm aborts at platform creation (known finding)
                if not any(o.split(":")[0] in ("tracing/actor", "tracing/categorized", "tracing/uncategorized", "tracing/platform") for o in opts):
                    opts.append("tracing/platform:yes")
            sc, opts = tracegen.gen_s4u(rng, opts, tame=not wild, force=force)
            ctx.count("cases.s4u.wild" if wild else "cases.s4u.tame")
            if i < 4:
                ctx.sample({"kind": "s4u", "opts": opts, "features": sc["feat"], "text": sc["text"][:600]})
            jobs.append(("s4u", sc["text"], opts, "hooks", "s4u"))
            if i % 10 == 0 and not NO_ASAN:
                jobs.append(("s4u", sc["text"], opts, "asan", "s4u"))
        for m, opts in DIRECTED_MPI:
            jobs.append(("mpi", m, opts))
        for i in range(n_mpi):
            rng = ctx.sub_rng("mpi", i)
            opts = tracegen.gen_mpi_options(rng)
            wild = (i % 4 == 0) or ALL_WILD
            m = gen_mpi(rng, opts, not wild)
            if not wild and tracegen.has(opts, "tracing/categorized") and not tracegen.has(opts, "tracing/uncategorized"):
                m["mask"] &= ~32
            ctx.count("cases.mpi.wild" if wild else "cases.mpi.tame")
            jobs.append(("mpi", m, opts))

        def one(j):
            if j[0] == "s4u":
                r.run_s4u(j[1], j[2], j[3], j[4])
            else:
                r.run_mpi(j[1], j[2])
        # MPI runs are the slowest: start them first
        jobs.sort(key=lambda j: 0 if j[0] == "mpi" else 1)
        ctx.pmap(one, jobs)
    finally:
        r.close()


def replay(ctx, w):
    r = Runner(ctx)
    try:
        if w["kind"] == "s4u":
            r.run_s4u(w["text"], w["opts"], w.get("flavour", "hooks"))
        else:
            r.run_mpi(w["mpi"], w["opts"])
    finally:
        r.close()
