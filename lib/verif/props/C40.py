"""C40 - ODPOR explores each Mazurkiewicz class exactly once.

Every complete execution (END or DEADLOCK terminal state) explored by simgrid-mc is logged by the application itself
(harness/mc_vm2.cpp) as the sequence of *checker-side* Transition objects (rebuilt in the application with the very
serialisation path the checker uses) together with, for each transition, the earlier transitions on which the
checker's own Transition::dispatch_depends() declares it dependent.  The oracle canonicalises each execution into its
Foata normal form under that relation and demands, for reduction:odpor,
  (1) no two explored complete executions with the same normal form,
  (2) as many complete executions as there are distinct normal forms among the complete executions explored with
      reduction:none on the same program (and no normal form that reduction:none never produced).
"""
import os
import shutil
import tempfile
import threading

from verif import core
from verif.gen import mcprog2
from verif.oracles import mc_red

META = {
    "id": "C40",
    "engine": "E6 mc_diff",
    "engine_path": "harness/mc_vm2.cpp",
    "level": "exploration",
    "technique": "Foata normal forms of every explored complete execution under the checker's own dispatch_depends(), "
                 "odpor against the classes of the unreduced exploration",
    "level_text": "Per program the classes are computed exhaustively (reduction:none enumerates every maximal execution) "
                  "and every execution explored by odpor is examined; programs are sampled. This decides the optimality "
                  "claim exactly on each program it looks at.",
    "level_note": "Trusted base: harness/mc_vm2.cpp rebuilds the executed transitions with observer->serialize + "
                  "deserialize_transition (what the checker does) and asks the real dispatch_depends(); the normal form "
                  "names an event by (actor, rank in the actor, type, times_considered) and is cross-checked on every "
                  "program against the transitive closure of the dependency pairs (two partitions must coincide). "
                  "Programs with a reachable assertion failure are outside the quantifier (soft-locked states). "
                  "A run that aborts is C38's business and is only counted here. hooks flavour only.",
    "rule": "programs of C38 without MC_assert (core: mutex/semaphore/condvar/barrier/mailbox/create/join/MC_random; "
            "comm: put_async/get_async with wait, test or wait_any) and directed minimal programs, explored with odpor "
            "under DFS and BeFS, strategies none and uniform. Non-trivial: >= 2 classes and more unreduced executions "
            "than classes.",
    "assumptions": ["reduction:none with the DFS explorer and no strategy enumerates every maximal execution",
                    "a complete execution is a terminal state logged from the on_mc_quiescent hook (no enabled actor)"],
    "ready": True,
}

# (name, spec, pinned uniform configurations (explorer, rand-seed))
DIRECTED = [
    ("mutex-3", "mutex 1\nactor L0 O0 U0\nactor L0 O0 U0\nactor L0 O0 U0\n", [("BeFS", 1), ("BeFS", 3), ("DFS", 1)]),
    ("random-2x2", "actor Q0.1\nactor Q0.1\n", [("BeFS", 1)]),
    ("mbox-2to1", "mbox 1\nactor S0.1\nactor S0.2\nactor G0 G0\n", [("BeFS", 7), ("DFS", 7)]),
    ("cond-timedwait-vs-notify", "mutex 1\ncond 1\nactor N0\nactor L0 w0.0 U0\n", []),
    ("cond-lost-wakeup", "mutex 1\ncond 1\nactor N0\nactor L0 W0.0 U0\n", []),
    ("waitany-2", "mbox 1\nactor s0.1 s0.2 a a\nactor r0 r0 c0 c1\n", []),
    ("waitany-test", "mbox 1\nactor s0.1 s0.2 a a\nactor r0 r0 t0 c1\n", [("DFS", 3)]),
    ("test-vs-send", "mbox 1\nactor s0.1 c0\nactor r0 t0\n", []),
    ("test-both", "mbox 1\nactor s0.1 t0 c0\nactor r0 t0 c0\n", []),
    ("lock-order", "mutex 2\nactor L0 L1 U1 U0\nactor L1 L0 U0 U1\n", []),
    ("independent", "mutex 2\nactor L0 O0 U0\nactor L1 O1 U1\n", [("BeFS", 2)]),
    ("sem-handover", "sem 0 1b\nactor P0 P1 o1 V1\nactor P1 o1 V1 V0\n", []),
    ("barrier-1", "barrier 1\nactor R0 R0\nactor R0 R0\n", []),
    ("barrier-2of3", "mutex 1\nbarrier 2\nactor R0 L0 O0 U0\nactor R0 L0 O0 U0\nactor L0 O0 U0\n", []),
    ("create-join", "mutex 1\nactor K2 L0 O0 U0 J2\nactor L0 O0 U0\ndyn L0 O0 U0\n", []),
    ("async-wait", "mbox 2\nactor s0.1 s1.2 c1 c0\nactor r1 r0 c0 c1\n", []),
    ("trylock", "mutex 1\nactor T0 I2 O0 U0\nactor L0 O0 U0\n", []),
]


QUICK_DIRECTED = {"mutex-3", "random-2x2", "mbox-2to1", "cond-timedwait-vs-notify", "waitany-2", "test-both", "lock-order",
                  "independent", "barrier-1", "async-wait"}


def key_of(rule, detail, cfg, feat, rc):
    return "C40:%s:%s:cfg=%s:f=%s:ref=%s" % (rule, detail, cfg.name(), feat, rc)


def configs(rng, tier, pinned=None):
    out = [mc_red.Config("odpor", "DFS", "none", 0), mc_red.Config("odpor", "BeFS", "none", 0)]
    if pinned is not None:
        return out + [mc_red.Config("odpor", ex, "uniform", seed) for ex, seed in pinned]
    for _ in range(1 if tier == "quick" else 3):
        for ex in mc_red.EXPLORERS:
            out.append(mc_red.Config("odpor", ex, "uniform", rng.randrange(1, 10000)))
    return out


def trace_text(rec):
    return " ".join("%d:%s%s" % (e.aid, e.type, "/%d" % e.times if e.times else "") for e in rec.events)


class Evaluator:
    def __init__(self, ctx, vm, mc, workdir, selftest=None):
        self.ctx, self.vm, self.mc, self.workdir, self.selftest = ctx, vm, mc, workdir, selftest
        self.t_ref = 300 if ctx.tier == "quick" else 1800
        self.keys = set()                 # every violation key of the run with the case that produced it (evidence)
        self.lock = threading.Lock()

    def report(self, rule, detail, text, cfg, case, feat, rc):
        w = {"name": case["name"], "spec": case["spec"], "pop": case["pop"], "config": cfg.to_json(), "rule": rule, "detail": detail}
        what = "%s [%s] on program '%s' (%s): %s\n%s" % (rule, cfg.tag(), case["name"], feat, text, case["spec"].rstrip())
        key = key_of(rule, detail, cfg, feat, rc)
        with self.lock:
            self.keys.add("%s  [%s]" % (key, case["name"]))
        self.ctx.violation(key, what, w)

    def evaluate(self, case, only=None):
        ctx = self.ctx
        prog = mcprog2.parse(case["spec"])
        feat = mcprog2.feature(prog)
        run = mc_red.Runner(self.vm, self.mc, self.workdir, case["name"], case["spec"])
        ref, _ = run.run_confirmed(mc_red.Config("none"), self.t_ref)
        if ref.timed_out:
            ctx.inconclusive("watchdog:reference:%s" % case["pop"])
            return
        if ref.rc not in (0, 2):
            ctx.count("reference.aborted")          # reported by C38
            return
        if any(r.kind == "ASSERT" for r in ref.records):
            ctx.count("programs.skipped_soft_locked")
            return
        ctx.evaluation()
        rcl = mc_red.refclass(ref)
        ref_cl = mc_red.explored_classes(ref)
        # self-check of the canonical form: the partition by Foata normal form must be the partition by partial order
        by_hb = {}
        for r in ref.complete():
            by_hb.setdefault(mc_red.hb_pairs(r.events), set()).add(mc_red.canonical(r.events))
        if len(by_hb) != len(ref_cl) or any(len(v) != 1 for v in by_hb.values()):
            raise core.HarnessFailure("C40 oracle: Foata normal forms and partial orders partition the executions of '%s' "
                                      "differently (%d vs %d classes)" % (case["name"], len(ref_cl), len(by_hb)))
        nref = len(ref.complete())
        ctx.count("reference.executions", nref)
        ctx.count("reference.classes", len(ref_cl))
        ctx.maximum("reference.classes_max", len(ref_cl))
        ctx.count("programs.%s" % case["pop"])
        if ref.join_inconsistent:
            raise core.HarnessFailure("C40: %d execution(s) that the unreduced DFS exploration completed on '%s' have no record "
                                      "of the application with the same trace" % (ref.ended_unlogged, case["name"]))
        if len(ref_cl) >= 2 and nref > len(ref_cl):
            ctx.nontrivial(case["spec"])
        if len(ctx.samples) < ctx.max_samples:
            ctx.sample({"program": case["spec"], "feature": feat, "unreduced_executions": nref, "classes": len(ref_cl)})
        rng = ctx.sub_rng("cfg", case["name"], case["spec"])
        cfgs = [only] if only is not None else configs(rng, ctx.tier, case.get("pinned"))
        budget = max(90.0, 8.0 * ref.wall)
        for cfg in cfgs:
            mut = self.selftest[1] if self.selftest and self.selftest[0] == cfg.name() else None
            res, hang = run.run_confirmed(cfg, budget, mutate=mut)
            if res.timed_out:
                ctx.inconclusive("watchdog:%s%s" % (cfg.name(), ":twice" if hang else ""))
                continue
            if res.rc not in (0, 2):
                ctx.count("runs.aborted.%s" % cfg.name())        # C38 reports aborts
                continue
            ctx.evaluation()
            done = res.complete()
            ctx.count("runs.%s" % cfg.name())
            ctx.count("executions.odpor", len(done))
            if res.join_inconsistent:
                ctx.count("runs.checker_traces_do_not_match.%s" % cfg.explorer)
            if res.unacked:
                ctx.count("terminal_states.reached_but_not_explored", res.unacked)
            cl = mc_red.explored_classes(res)
            dups = sorted((v for v in cl.values() if len(v) > 1), key=lambda v: v[0].trace)
            if dups:
                a, b = dups[0][0], dups[0][1]
                same = " (the very same sequence twice)" if a.trace == b.trace else ""
                self.report("dup", "equivalent", "%d class(es) explored more than once, e.g. these two complete executions are "
                            "equivalent under the checker's own dependency relation%s:\n  %s  [%s]\n  %s  [%s]"
                            % (len(dups), same, a.trace, trace_text(a), b.trace, trace_text(b)), cfg, case, feat, rcl)
            if len(done) != len(ref_cl):
                more = len(done) > len(ref_cl)
                # fewer executions than classes: are program-visible outcomes lost with them (unsound), or not (the
                # dependency relation that defines the classes is coarser than what ODPOR reverses)?
                lost = ref.outcomes() - res.outcomes()
                detail = "more" if more else ("fewer+outcomes-lost" if lost else "fewer")
                self.report("count", detail,
                            "%d complete executions explored for %d equivalence classes of the %d complete executions found "
                            "without reduction (%d distinct classes among those explored; %d of the %d terminal outcomes lost)"
                            % (len(done), len(ref_cl), nref, len(cl), len(lost), len(ref.outcomes())), cfg, case, feat, rcl)
            alien = [k for k in cl if k not in ref_cl]
            if alien:
                r = cl[alien[0]][0]
                self.report("alien", "class", "%d explored execution(s) whose class is not among those of the unreduced exploration, "
                            "e.g. %s  [%s]" % (len(alien), r.trace, trace_text(r)), cfg, case, feat, rcl)
            if not dups and len(done) == len(ref_cl) and not alien:
                ctx.count("optimal_runs")
        # SimGrid's own optimality monitor (model-check/debug-optimality) as a second opinion, DFS only: informative
        if only is None and (ctx.tier == "thorough" or case["pop"] == "directed"):
            cfg = mc_red.Config("odpor")
            res = run.run(cfg, budget, extra=["--cfg=model-check/debug-optimality:on"])
            if not res.timed_out and not res.env_failure:
                theirs = "equivalent with an already explored one" in res.log
                cl = mc_red.explored_classes(res)
                mine = any(len(v) > 1 for v in cl.values())
                ctx.count("debug_optimality.%s" % ("agree" if theirs == mine else ("only_simgrid_says_dup" if theirs else "only_oracle_says_dup")))


def generate(ctx):
    quick = ctx.tier == "quick"
    cases = [{"name": "d-" + n, "spec": s, "pop": "directed", "pinned": pin} for n, s, pin in DIRECTED
             if not quick or n in QUICK_DIRECTED]
    ncore = ctx.size(quick=4, thorough=200)
    ncomm = ctx.size(quick=3, thorough=90)
    max_paths = 80 if quick else 1200
    bound = 120 if quick else 2500
    for i in range(ncore):
        rng = ctx.sub_rng("core", i)
        p, _ = mcprog2.core(rng, max_paths, want_failure=False, clean=(i % 2 == 0))
        cases.append({"name": "core%d" % i, "spec": mcprog2.text(p), "pop": "core"})
    exts = ["wait", "test", "waitany"]
    for i in range(ncomm):
        rng = ctx.sub_rng("comm", i)
        p, _ = mcprog2.comm(rng, exts[i % len(exts)], bound, with_assert=False)
        cases.append({"name": "comm%d" % i, "spec": mcprog2.text(p), "pop": "comm"})
    only = os.environ.get("VERIF_C40_ONLY")        # development aid
    if only:
        keep = set(only.split(","))
        cases = [c for c in cases if c["pop"] in keep or c["name"] in keep]
    return cases


def run(ctx):
    vm, mc = mc_red.binaries("hooks")
    wd = tempfile.mkdtemp(prefix="verif-C40-")
    try:
        ev = Evaluator(ctx, vm, mc, wd, selftest=_selftest_from_env())
        ctx.pmap(ev.evaluate, generate(ctx))
        ctx.extra["violation_keys"] = sorted(ev.keys)
    finally:
        shutil.rmtree(wd, ignore_errors=True)


def replay(ctx, witness):
    vm, mc = mc_red.binaries("hooks")
    wd = tempfile.mkdtemp(prefix="verif-C40-")
    try:
        ev = Evaluator(ctx, vm, mc, wd)
        case = {"name": witness.get("name", "replay"), "spec": witness["spec"], "pop": witness.get("pop", "core")}
        ev.evaluate(case, only=mc_red.Config.from_json(witness["config"]))
    finally:
        shutil.rmtree(wd, ignore_errors=True)


# ---------------------------------------------------------------------------------------------------------------------
def _selftest_from_env():
    """Oracle self-test: VERIF_C40_SELFTEST=<mode> corrupts the *observed log* of odpor/DFS/none, never SimGrid.
      dupe     log the last complete execution twice, with two adjacent independent transitions swapped  -> dup + count:more
      drop     forget one complete execution                                                             -> count:fewer
      nodeps   erase the dependency lists of one execution (a different partial order)                   -> alien
    """
    mode = os.environ.get("VERIF_C40_SELFTEST")
    if not mode:
        return None

    def mutate(text):
        lines = [l for l in text.splitlines() if l.startswith("T ")]
        full = [i for i, l in enumerate(lines) if l.startswith("T END ") or l.startswith("T DEADLOCK ")]
        if not full:
            return text
        if mode == "drop":
            del lines[full[-1]]
        elif mode == "nodeps":
            parts = lines[full[-1]].split(" | ")
            parts[2] = " ".join(":".join(t.split(":")[:3]) + ":" for t in parts[2].split())
            lines[full[-1]] = " | ".join(parts)
        elif mode == "dupe":
            parts = lines[full[-1]].split(" | ")
            ev = [t.split(":") for t in parts[2].split()]
            swapped = None
            for i in range(len(ev) - 1):
                deps = [int(x) for x in ev[i + 1][3].split(",")] if ev[i + 1][3] else []
                if ev[i][0] != ev[i + 1][0] and i not in deps:
                    # adjacent, different actors, independent: swap them and renumber the dependency indices
                    def ren(j):
                        return i + 1 if j == i else (i if j == i + 1 else j)
                    new = [list(e) for e in ev]
                    new[i], new[i + 1] = new[i + 1], new[i]
                    for e in new:
                        e[3] = ",".join(str(x) for x in sorted(ren(int(x)) for x in e[3].split(","))) if e[3] else ""
                    swapped = new
                    break
            if swapped is None:
                lines.append(lines[full[-1]])
            else:
                head = parts[0].split()
                steps = head[2].strip(";").split(";")
                steps[i], steps[i + 1] = steps[i + 1], steps[i]
                head[2] = ";".join(steps) + ";"
                lines.append(" | ".join([" ".join(head), parts[1], " ".join(":".join(e) for e in swapped)]))
        else:
            raise core.HarnessFailure("unknown VERIF_C40_SELFTEST mode " + mode)
        return "\n".join(lines) + "\n"
    return ("odpor/DFS/none", mutate)
