"""C25 Shortest-path zones (Floyd / Dijkstra / DijkstraCache) compute minimal chains of declared routes; Full returns the declared route."""
import concurrent.futures as cf
import multiprocessing
import os
import shutil
import sys
import tempfile
import threading
import time

from verif import core
from verif.gen import routing as G
from verif.oracles import routing as O

META = {
    "id": "C25", "engine": "E3 route_dump", "engine_path": "harness/route_dump.cpp",
    "engine_kind": "C++ harness building generated zones through the platform API (several zones side by side per engine, one forked child per engine, "
                   "CPU-time watchdog re-armed for every query); python reference run in worker processes",
    "level": "exploration",
    "technique": "reference shortest-path differential: every route_to()/get_local_route() answer of a Floyd, Dijkstra or DijkstraCache zone must decompose "
                 "into a chain of declared one-hop routes and have the minimal link count computed by an independent Dijkstra; Full zones must echo the declaration",
    "level_text": "Random weakly/strongly connected graphs of 3..30 vertices (hosts and routers) with one-hop routes of 1..3 links (shared, fat-pipe and "
                  "split-duplex links with directions; symmetric, one-way, or both directions declared with different link lists; links reused between "
                  "routes; a few declared self routes) are each built three times (Floyd, Dijkstra, DijkstraCache) through the C++ API and every ordered pair "
                  "that has a path is queried (hosts through Host::route_to, all vertices through the zone's get_local_route). The python reference "
                  "recomputes the minimal link count and checks, for every answer, that the returned list is a concatenation of declared one-hop routes "
                  "(links in declared order, reversed with flipped split-duplex directions for the symmetric copy) from source to destination of exactly "
                  "that cost, that the three zone kinds agree on the link count, that DijkstraCache answers the same on a cache miss and on a hit (each "
                  "pair is asked twice, in random order), that a pair without any path is never answered with a route, and that a Full zone returns "
                  "exactly the declared list. A query that burns its whole CPU budget, and again a 4x budget in a second run, is reported as a spinning "
                  "route computation. Directed cases (run first, on every zone kind): the minimal witnesses of the open findings, a detour shorter than "
                  "the direct route, equal-cost alternatives, asymmetric declarations, a one-way ring, a line with routers, a link shared by two hops.",
    "level_note": "source==destination queries are outside the statement and only counted. While the directed witness of the open finding "
                  "'Dijkstra zones spin as soon as a node is unreachable from the source' still spins, the random one-way graphs ask Dijkstra zones only the "
                  "pairs that this defect cannot touch (no unreachable node is as near to the destination as the source is; these must be right even on the "
                  "unfixed tree and keep their own violation keys), except every 8th graph; once it is fixed every pair (and a sample of pairs without "
                  "path) is asked everywhere. A spin verdict needs 0.5 s (2 s under ASan) and then 2 s of CPU time burnt inside ONE route query that normally "
                  "takes microseconds; wall-clock watchdogs only ever give 'inconclusive'. Plain flavour for all cases, ASan+UBSan flavour for the directed "
                  "cases and every 7th random platform.",
    "rule": "case = one (graph, zone kind) platform; non-trivial = distinct platforms whose asked pairs were all answered and checked and in which at least "
            "one judged pair needs a chain of >=2 declared routes",
    "assumptions": ["route cost = number of links of the declared one-hop routes (as documented for Floyd/Dijkstra zones)"],
    "ready": True,
}

KINDS = ("floyd", "dijkstra", "dijkstracache")
# Feature of a (source, destination) pair of a Dijkstra zone that the open finding F13 can touch: some node x that the source
# cannot reach has a path to the destination that is not longer than the source's. (DijkstraZone relaxes the edges out of x
# with cost ULONG_MAX + c = c - 1; the predecessor of a node u is overwritten only if that wrapped cost is below the true
# distance, and a destination whose predecessor chain is intact is answered correctly. So pairs without this feature must
# be right even on the unfixed tree, and keep their own keys.)
CONE = "unreachable-node-no-farther-from-dst"
CPU_Q = {"hooks": 0.5, "asan": 2.0}     # CPU seconds for ONE query or build step (a query normally needs microseconds)
CPU_CONFIRM = 2.0
WALL = 300.0                            # wall-clock budget of one child, last resort -> inconclusive


# ----------------------------------------------------------------------------------------------------------------------
# generators
# ----------------------------------------------------------------------------------------------------------------------
def gen_graph(rng, small=False):
    n = rng.choice([3, 3, 4, 4, 5, 5, 6, 7, 8, 10, 12, 16, 22, 30] if not small else [3, 4, 5])
    names = []
    for i in range(n):
        if i >= 2 and rng.random() < 0.2:
            names.append(("r%d" % i, "router"))
        else:
            names.append(("h%d" % i, "host"))
    cls = "strong" if rng.random() < 0.65 else "weak"
    routes = []          # (a, b, sym)
    used = set()

    def add(a, b, sym):
        if a == b or (a, b) in used or (sym and (b, a) in used):
            return False
        used.add((a, b))
        if sym:
            used.add((b, a))
        routes.append((a, b, sym))
        return True

    for i in range(1, n):
        p = rng.randrange(i)
        a, b = (i, p) if rng.random() < 0.5 else (p, i)
        if cls == "strong":
            if rng.random() < 0.6:
                add(a, b, True)
            else:
                add(a, b, False)
                add(b, a, False)
        else:
            add(a, b, rng.random() < 0.4)
    for _ in range(rng.randint(0, 2 * n)):
        add(rng.randrange(n), rng.randrange(n), rng.random() < 0.4)
    if rng.random() < 0.12:          # declared self routes (replace the automatic loopback of that vertex)
        for _ in range(rng.randint(1, 2)):
            a = rng.randrange(n)
            if (a, a) not in used:
                used.add((a, a))
                routes.append((a, a, False))
    nlinks = 0
    links = []           # (name, lat, policy)
    decl = []
    for a, b, sym in routes:
        ll = []
        for _ in range(rng.choice([1, 1, 1, 2, 2, 3])):
            if links and rng.random() < 0.15:
                name, _, pol = rng.choice(links)
            else:
                name, pol = "l%d" % nlinks, rng.choice(["S", "S", "F", "D"])
                nlinks += 1
                links.append((name, rng.choice([0.0, 1e-3, 2.5e-4]), pol))
            ll.append((name, rng.choice([G.UP, G.DOWN]) if pol == "D" else G.NONE))
        decl.append((names[a][0], names[b][0], ll, sym))
    return dict(nodes=names, links=links, routes=decl, cls=cls)


def _g(nodes, links, routes, cls="strong"):
    """Directed graph literal: nodes 'a b r:router', links 'l0 l1:D', routes [(a, b, 'l0 l1:U', sym)]."""
    nn = [(x.split(":")[0], "router" if x.endswith(":router") else "host") for x in nodes.split()]
    ll = [(x.split(":")[0], 1e-3, x.split(":")[1] if ":" in x else "S") for x in links.split()]
    rr = []
    for a, b, lst, sym in routes:
        rr.append((a, b, [tuple(x.split(":")) if ":" in x else (x, G.NONE) for x in lst.split()], sym))
    return dict(nodes=nn, links=ll, routes=rr, cls=cls)


def directed_graphs():
    """(name, graph). d0/d1 are the minimal witnesses of the two open findings; the others are boundary shapes."""
    return [
        # F13: s->u and x->u one-way; x cannot be reached from s; the declared pair s->u is asked
        ("d0", _g("s u x", "a b", [("s", "u", "a", False), ("x", "u", "b", False)], "weak")),
        # hop link order: one symmetric route of three links between two hosts
        ("d1", _g("a b", "l0 l1 l2", [("a", "b", "l0 l1 l2", True)])),
        # a detour of two one-link hops beats the direct three-link route
        ("d2", _g("a b c", "d0 d1 d2 e f", [("a", "b", "d0 d1 d2", True), ("a", "c", "e", True), ("c", "b", "f", True)])),
        # two equal-cost alternatives (either is right), no direct route
        ("d3", _g("a b c d", "p q r s", [("a", "c", "p", True), ("c", "b", "q", True), ("a", "d", "r", True), ("d", "b", "s", True)])),
        # both directions declared separately with different lists and costs; the way back is cheaper through c
        ("d4", _g("a b c", "u v w x y:D", [("a", "b", "u", False), ("b", "a", "v w x", False), ("b", "c", "y:U", True), ("c", "a", "u", False)])),
        # line of six with routers inside
        ("d5", _g("h0 r1:router r2:router r3:router r4:router h5", "k0 k1 k2 k3 k4",
                  [("h0", "r1", "k0", True), ("r1", "r2", "k1 k1", True), ("r2", "r3", "k2", True), ("r3", "r4", "k3", True), ("r4", "h5", "k4 k0", True)])),
        # F13 with a relay: s->m->u, x->m; s cannot reach x
        ("d6", _g("s m u x", "a b c", [("s", "m", "a", False), ("m", "u", "b", False), ("x", "m", "c", False)], "weak")),
        # one-way ring of five: strongly connected, b->a needs four hops
        ("d7", _g("a b c d e", "r0 r1 r2 r3 r4:D", [("a", "b", "r0", False), ("b", "c", "r1", False), ("c", "d", "r2 r2", False),
                                                     ("d", "e", "r3", False), ("e", "a", "r4:D", False)])),
        # the same link used by two consecutive hops
        ("d8", _g("a b c", "L", [("a", "b", "L", True), ("b", "c", "L", True)])),
    ]


def rename(g, pre):
    if not pre:
        return g
    return dict(nodes=[(pre + n, t) for n, t in g["nodes"]], links=[(pre + n, lat, pol) for n, lat, pol in g["links"]],
                routes=[(pre + a, pre + b, [(pre + l, d) for l, d in ll], sym) for a, b, ll, sym in g["routes"]], cls=g["cls"])


def cone_pairs(nodes, dist):
    """Pairs (s, d) with a path for which some x unreachable from s has dist(x, d) <= dist(s, d)."""
    cone = set()
    for s in nodes:
        unreach = [x for x in nodes if (s, x) not in dist]
        if not unreach:
            continue
        for d in nodes:
            if d != s and (s, d) in dist:
                c = dist[(s, d)]
                if any(dist.get((x, d), c + 1) <= c for x in unreach):
                    cone.add((s, d))
    return cone


def prepare(p, g):
    """Ground truth of a Floyd/Dijkstra platform from its declarations."""
    zn = p.zn
    p.nodes = [n for n, _ in g["nodes"]]
    p.nodeset = set(p.nodes)
    p.hosts = set(n for n, t in g["nodes"] if t == "host")
    p.edges = O.declared_edges(p, zn)
    p.edges_rev = {k: list(reversed(v)) for k, v in p.edges.items()}
    p.adj, p.adj_rev = O.adjacency(p.edges), O.adjacency(p.edges_rev)
    p.dist = O.shortest(p.nodes, p.edges)
    p.judged = [(a, b) for a in p.nodes for b in p.nodes if a != b and (a, b) in p.dist]
    p.cone = cone_pairs(p.nodes, p.dist)


def build_plat(pid, kind, g0, rng, pre="", f13_absent=True, ask_cone=True):
    g = rename(g0, pre)
    p = G.Plat(pid)
    p.kind, p.graph, p.pre, p.zn = kind, g, pre, pre + "z"
    zn = p.zn
    p.zone(zn, None, kind)
    for name, typ in g["nodes"]:
        (p.host if typ == "host" else p.router)(name, zn)
    for name, lat, pol in g["links"]:
        p.link(name, zn, lat, pol)
    for a, b, ll, sym in g["routes"]:
        p.route(zn, a, b, ll, sym)
    p.seal(zn)
    prepare(p, g)
    p.tags.add(g["cls"])
    p.n_q = p.n_lq = 0
    p.asked = set()

    def ask(a, b, once=False):
        """route_to (host pairs only) and get_local_route; once: through one of the two only."""
        both = a in p.hosts and b in p.hosts
        if both:
            p.q("Q %s %s" % (a, b))
            p.n_q += 1
        if not (both and once):
            p.q("LQ %s %s %s" % (zn, a, b))
            p.n_lq += 1
        p.asked.add((a, b))

    if kind == "floyd":
        for a in p.nodes:
            for b in p.nodes:
                if a in p.hosts and b in p.hosts:
                    p.q("Q %s %s" % (a, b))
                    p.n_q += 1
                p.asked.add((a, b))
        p.q("LQA " + zn)
        p.n_lq += len(p.nodes) ** 2
    else:
        safe = [pr for pr in p.judged if pr not in p.cone]
        cone = [pr for pr in p.judged if pr in p.cone] if ask_cone else []
        # the pairs the open finding can touch come last (a spin ends the child); DijkstraCache is asked every pair twice,
        # the second time in another random order (cache hit vs miss must agree)
        for part in (safe, cone):
            rng.shuffle(part)
            for a, b in part:
                ask(a, b)
            if kind == "dijkstracache":
                again = list(part)
                rng.shuffle(again)
                for a, b in again:
                    ask(a, b, once=True)
        if f13_absent:
            # pairs without any path and self pairs: any answer but a route (resp. any answer) is accepted; not asked while
            # the unfixed Dijkstra zone is known to spin on them
            unreach = [(a, b) for a in p.nodes for b in p.nodes if a != b and (a, b) not in p.dist]
            rng.shuffle(unreach)
            for a, b in unreach[:20]:
                ask(a, b)
            for a in rng.sample(p.nodes, min(3, len(p.nodes))):
                ask(a, a)
    p.cone_skipped = 0 if (ask_cone or kind == "floyd") else len([pr for pr in p.judged if pr in p.cone])
    return p


def gen_full(rng, pid, pre=""):
    p = G.Plat(pid)
    p.kind, p.pre, p.zn = "full", pre, pre + "z"
    zn = p.zn
    n = rng.randint(2, 7)
    p.zone(zn, None, "full")
    hosts = [p.host("%sh%d" % (pre, i), zn) for i in range(n)]
    p.nodes, p.nodeset, p.hosts = hosts, set(hosts), set(hosts)
    nl = 0
    decl = {}
    for a in hosts:
        for b in hosts:
            if (a, b) in decl or rng.random() < 0.35:
                continue
            if a == b and rng.random() < 0.7:
                continue
            sym = a != b and (b, a) not in decl and rng.random() < 0.5
            ll = []
            for _ in range(rng.choice([1, 1, 2, 3, 4])):
                pol = rng.choice(["S", "F", "D"])
                name = p.link("%sl%d" % (pre, nl), zn, rng.choice([0.0, 1e-3]), pol)
                nl += 1
                ll.append((name, rng.choice([G.UP, G.DOWN]) if pol == "D" else G.NONE))
            p.route(zn, a, b, ll, sym)
            decl[(a, b)] = p.forward(ll)
            if sym:
                decl[(b, a)] = p.backward(ll)
    p.seal(zn)
    p.decl = decl
    p.n_q = p.n_lq = 0
    for a in hosts:
        for b in hosts:
            p.q("Q %s %s" % (a, b))
            p.n_q += 1
    p.q("LQA " + zn)
    p.n_lq = n * n
    p.cone = set()
    p.cone_skipped = 0
    return p


# ----------------------------------------------------------------------------------------------------------------------
# observation
# ----------------------------------------------------------------------------------------------------------------------
class Obs:
    """What one platform answered (its share of a bundle's output)."""

    def __init__(self, p, res):
        self.status, self.done, self.spin, self.noise, self.build_errors = res.status, res.done, res.spin, res.noise, res.build_errors
        self.answers = {}      # (s, d) -> [(how, links|None, exc|None)] in query order
        self.gateways = []
        nq = nlq = 0
        for s, d, lat, links, exc in res.routes:
            if s in p.nodeset:
                self.answers.setdefault((s, d), []).append(("route_to", links, exc))
                nq += 1
        for z, s, d, v in res.local_all:
            if z == p.zn:
                self.answers.setdefault((s, d), []).append(("get_local_route", v.get("links"), v.get("exc")))
                nlq += 1
                if v.get("gw_src") or v.get("gw_dst"):
                    self.gateways.append((s, d, v.get("gw_src"), v.get("gw_dst")))
        self.complete = res.status == "ok" and res.done and nq == p.n_q and nlq == p.n_lq


def run_bundle(fl, members, scratch, cpu=None, bid=None):
    b = G.Bundle(bid or ("B-" + members[0].id), members)
    return G.run_batch(fl, [b], cpu or CPU_Q[fl], WALL, scratch)[b.id]


def witness(p, fl):
    return dict(p.witness(), flavour=fl, kind=p.kind, zone=p.zn)


# ----------------------------------------------------------------------------------------------------------------------
# oracle
# ----------------------------------------------------------------------------------------------------------------------
def check_sp(ctx, p, obs, fl):
    """Judge every answer of one Floyd/Dijkstra/DijkstraCache platform.
    Returns (all asked judged pairs answered and right, non-trivial, {unprefixed pair: link count of the first answer})."""
    kind = p.kind
    w = witness(p, fl)
    reported = set()
    cnt = {}           # counters of this platform, flushed once (ctx.count takes a lock)

    def count(name, k=1):
        cnt[name] = cnt.get(name, 0) + k

    def viol(key, what):
        if key not in reported:         # one report per platform and key; every occurrence is counted
            reported.add(key)
            ctx.violation(key, "%s: %s" % (p.id, what() if callable(what) else what), w)
        count("bad_answers")

    for s, d, gs, gd in obs.gateways:
        viol("C25:%s:gateway-on-flat-zone" % kind, "local route %s->%s of a zone without sub-zones reports gateways %r/%r" % (s, d, gs, gd))
    ok = True
    nontriv = False
    lens = {}
    cache = {}
    npre = len(p.pre)
    for (a, b), ans in obs.answers.items():
        if a == b:
            count("self_pairs_seen_not_judged", len(ans))
            continue
        if (a, b) not in p.dist:
            # no chain of declared routes exists: raising is the only answer that is not a made-up route
            for how, links, exc in ans:
                count("unreachable_pair_answers")
                if links is not None:
                    viol("C25:%s:route-returned-for-pair-without-path" % kind,
                         "%s %s->%s returned %r although no chain of declared routes leads from %s to %s" % (how, a, b, links, a, b))
                    ok = False
    for (a, b) in p.judged:
        ans = obs.answers.get((a, b))
        if not ans:
            if (a, b) in p.asked:
                ok = False
            continue
        feat = (":" + CONE) if (a, b) in p.cone else ""
        want = p.dist[(a, b)]
        count("pairs_judged")
        first = None
        for how, links, exc in ans:
            count("answers_checked")
            if links is None:
                viol("C25:%s:no-route-for-reachable-pair%s" % (kind, feat),
                     "%s %s->%s raised %r although a chain of declared routes of %d links exists" % (how, a, b, exc, want))
                ok = False
                continue
            if first is None:
                first = links
                lens[(a[npre:], b[npre:])] = len(links)
            elif links != first:
                viol("C25:%s:answers-differ-between-queries%s" % (kind, feat),
                     "%s->%s answered %r and then %r (cache miss vs hit / route_to vs get_local_route)" % (a, b, first, links))
                ok = False
            key = (a, b, tuple(links))
            if key not in cache:
                ch, rev = O.chain_of(links, a, b, p.edges, p.adj), False
                if ch is None:
                    ch = O.chain_of(links, a, b, p.edges_rev, p.adj_rev)
                    rev = ch is not None
                cache[key] = (ch, rev)
            ch, rev = cache[key]
            if rev:
                # the right hops, but the links of each multi-link hop come out in reverse order: own key; the cost is
                # still compared below
                viol("C25:%s:hop-links-reversed" % kind,
                     lambda: "%s %s->%s returned %r: the hops %r are declared routes, but the links of every multi-link hop are listed in "
                             "reverse order (declared %r)" % (how, a, b, links, ch, [p.edges[h] for h in ch]))
                count("answers_with_reversed_hop_links")
                ok = False
            if ch is None:
                viol("C25:%s:not-a-chain-of-declared-routes%s" % (kind, feat),
                     "%s %s->%s returned %r which is not a concatenation of declared one-hop routes from %s to %s (minimal cost %d)"
                     % (how, a, b, links, a, b, want))
                ok = False
            elif len(links) != want:
                viol("C25:%s:not-minimal%s" % (kind, feat),
                     "%s %s->%s returned %d links %r (chain %r) but a chain of %d links exists" % (how, a, b, len(links), links, ch, want))
                ok = False
            elif len(ch) >= 2:
                nontriv = True
                count("multi_hop_answers")
    for name, k in cnt.items():
        ctx.count(name, k)
    return ok, nontriv, lens


def check_full(ctx, p, obs, fl):
    w = witness(p, fl)
    ok = True
    seen = set()
    for (s, d), ans in obs.answers.items():
        if (s, d) not in p.decl:
            ctx.count("full.undeclared_pairs_seen_not_judged", len(ans))
            continue
        seen.add((s, d))
        ctx.count("pairs_judged")
        for how, links, exc in ans:
            ctx.count("answers_checked")
            if links != p.decl[(s, d)]:
                ctx.violation("C25:full:differs-from-declared", "%s: %s %s->%s returned %r (exception %r), declared %r"
                              % (p.id, how, s, d, links, exc, p.decl[(s, d)]), w)
                ok = False
    return ok and len(seen) == len(p.decl), len(p.decl) >= 2, {}


def _rec(name):
    def f(self, *a):
        self.log.append((name,) + a)
    return f


class Recorder:
    """Stands in for the Ctx inside a worker process: records the calls, which the parent replays on the real Ctx in job
    order (the python oracle is CPU-bound: threads would serialise it on the interpreter lock)."""

    def __init__(self):
        self.log = []

    evaluation, nontrivial, count = _rec("evaluation"), _rec("nontrivial"), _rec("count")
    maximum, sample, inconclusive, violation = _rec("maximum"), _rec("sample"), _rec("inconclusive"), _rec("violation")


def _work(args):
    job, scratch, confirmed = args
    rec = Recorder()
    st = Run(rec, scratch)
    st.cone_spin_confirmed = set(confirmed)
    st.job(job)
    return rec.log, st.lens, st.cone_spin_confirmed


class Run:
    """Shared state of one run() / replay()."""

    def __init__(self, ctx, scratch):
        self.ctx, self.scratch = ctx, scratch
        self.lock = threading.Lock()
        self.cone_spin_confirmed = set()     # zone kinds for which a spin inside the F13 cone was already confirmed by a second run
        self.lens = {}                       # platform id -> {pair: link count}   (plain flavour only)

    def spin_pair(self, p, spin):
        t = spin.split()
        if len(t) >= 5 and t[1] == "LR":
            return t[3], t[4]
        if len(t) >= 4 and t[1] == "R":
            return t[2], t[3]
        return None

    @staticmethod
    def spin_text(spin):
        return " ".join(t for t in spin.split()[1:] if not t.startswith("cpu_in_query"))

    def single(self, p, fl, res=None):
        """Judge one platform run alone in its child (status handling + oracle)."""
        ctx = self.ctx
        if res is None:
            res = run_bundle(fl, [p], self.scratch)
        ctx.evaluation()
        w = witness(p, fl)
        if res.build_errors:
            raise core.HarnessFailure("generator built an invalid platform %s: %s" % (p.id, res.build_errors[:2]))
        if res.status in ("wall", "missing"):
            ctx.inconclusive("wall-clock watchdog (%s) on %s" % (res.status, p.id))
            return
        obs = Obs(p, res)
        if res.status == "spin":
            ctx.count("spin_first_budget")
            pair = self.spin_pair(p, res.spin or "")
            in_cone = pair in p.cone and p.kind in ("dijkstra", "dijkstracache")
            judged = pair is not None and pair[0] != pair[1] and pair in p.dist
            feat = (":" + CONE) if in_cone else ""
            key = "C25:%s:spin:%s%s" % (p.kind, "reachable-pair" if judged else ("build" if pair is None else "pair-outside-statement"), feat)
            with self.lock:
                skip = in_cone and p.kind in self.cone_spin_confirmed
            if skip:
                # same class as a spin already confirmed in this run for this zone kind (open finding): not re-run
                ctx.count("spin_in_f13_cone_not_reconfirmed")
                ctx.violation(key, "%s: the query '%s' did not return within %.0f s of CPU time; the pair has a chain of declared routes"
                              % (p.id, self.spin_text(res.spin), CPU_Q[fl]), w)
            else:
                again = run_bundle("hooks", [p], self.scratch, cpu=CPU_CONFIRM)     # a spin is not a memory error: plain flavour
                if again.status == "spin" and again.spin and self.spin_pair(p, again.spin) == pair and again.spin.split()[1] == res.spin.split()[1]:
                    if judged:
                        ctx.violation(key, "%s: the query '%s' did not return within %.0f s and then %.0f s of CPU time (second run: %s); "
                                      "the pair has a chain of declared routes" % (p.id, self.spin_text(res.spin), CPU_Q[fl], CPU_CONFIRM,
                                                                                   again.spin.strip()), w)
                        if in_cone:
                            with self.lock:
                                self.cone_spin_confirmed.add(p.kind)
                    else:
                        # a query the statement says nothing about (no path / self) or a build step: a hang all the same
                        ctx.violation(key, "%s: '%s' did not return within %.0f s and then %.0f s of CPU time"
                                      % (p.id, self.spin_text(res.spin), CPU_Q[fl], CPU_CONFIRM), w)
                elif again.status in ("wall", "missing"):
                    ctx.inconclusive("confirmation run hit the wall-clock watchdog on %s" % p.id)
                else:
                    ctx.inconclusive("CPU budget exhausted once, not reproduced (%s)" % p.id)
        elif res.status != "ok" or not res.done:
            reps = [l for l in res.noise if "Sanitizer" in l or "runtime error" in l]
            ctx.violation("C25:%s:crash:%s" % (p.kind, res.status), "%s: child ended with %s: %s" % (p.id, res.status, (reps or res.noise)[:3]), w)
        # whatever was answered is judged
        self.judge(p, obs, fl)

    def judge(self, p, obs, fl):
        ctx = self.ctx
        ok, nt, lens = (check_full if p.kind == "full" else check_sp)(ctx, p, obs, fl)
        if fl == "hooks" and lens:
            with self.lock:
                self.lens[p.id] = lens
        if ok and obs.complete:
            ctx.count("platforms_fully_checked." + p.kind)
            if nt:
                ctx.nontrivial(p.id + "/" + fl)
        if p.cone_skipped:
            ctx.count("f13_cone_pairs_not_asked", p.cone_skipped)

    def job(self, job):
        """job = (flavour, [bundle, ...]) with bundle = [platform, ...]: one harness process (starting an ASan process is
        expensive), one forked child = one engine per bundle."""
        fl, bundles = job
        t0 = time.time()
        bs = [G.Bundle("B-" + members[0].id, members) for members in bundles]
        out = G.run_batch(fl, bs, CPU_Q[fl], WALL, self.scratch)
        _dbg("job %s %d bundles %d platforms: harness took %.1fs, child cpu %.1fs" % (fl, len(bs), sum(len(b.members) for b in bs), time.time() - t0,
                                                                                   sum(r.cpu for r in out.values())))
        for b in bs:
            res = out[b.id]
            if len(b.members) == 1:
                self.single(b.members[0], fl, res)
            elif res.status == "ok" and res.done and not res.build_errors:
                for p in b.members:
                    self.ctx.evaluation()
                    self.judge(p, Obs(p, res), fl)
            else:
                # something went wrong in this engine: every member is run again alone so that the culprit is isolated
                self.ctx.count("bundles_rerun_member_by_member")
                _dbg("bundle %s (%s) ended with %s done=%s %s %s %s" % (b.id, fl, res.status, res.done, res.spin, res.build_errors[:2], res.noise[:3]))
                for p in b.members:
                    self.single(p, fl)

    def jobs(self, jobs):
        """Run the jobs in worker processes; their verdict calls are replayed here in job order."""
        workers = int(os.environ.get("VERIF_JOBS", os.cpu_count() or 8))
        args = [(j, self.scratch, sorted(self.cone_spin_confirmed)) for j in jobs]
        with cf.ProcessPoolExecutor(max_workers=max(1, min(workers, len(args))), mp_context=multiprocessing.get_context("fork")) as ex:
            results = list(ex.map(_work, args))
        for log, lens, confirmed in results:
            for call in log:
                getattr(self.ctx, call[0])(*call[1:])
            self.lens.update(lens)
            self.cone_spin_confirmed |= confirmed

    def compare(self, groups):
        """The three algorithms must agree on the link count."""
        ctx = self.ctx
        for g in groups:
            ks = [k for k in g if g[k].id in self.lens]
            for i in range(len(ks)):
                for j in range(i + 1, len(ks)):
                    ca, cb = self.lens[g[ks[i]].id], self.lens[g[ks[j]].id]
                    for pair in set(ca) & set(cb):
                        ctx.count("cross_kind_comparisons")
                        if ca[pair] != cb[pair]:
                            ctx.violation("C25:disagree:%s-vs-%s" % (ks[i], ks[j]), "%s: %s->%s costs %d links in the %s zone and %d in the %s zone"
                                          % (g[ks[i]].id, pair[0], pair[1], ca[pair], ks[i], cb[pair], ks[j]),
                                          {"members": [witness(g[ks[i]], "hooks"), witness(g[ks[j]], "hooks")]})


def _dbg(msg):
    if os.environ.get("VERIF_C25_DEBUG"):
        sys.stderr.write("[C25 %.1fs] %s\n" % (time.time() - _T0, msg))


_T0 = time.time()


def run(ctx):
    scratch = tempfile.mkdtemp(prefix="verif-C25-")
    try:
        for fl in ("hooks", "asan"):
            G.harness(fl)
        _dbg("harness binaries ready")
        st = Run(ctx, scratch)
        ng = ctx.size(150, 4000)
        nfull = ctx.size(40, 600)
        serial = [0]

        def pre():
            serial[0] += 1
            return "p%d_" % serial[0]

        # phase 1: the minimal witness of the open finding F13 (d0) on the three zone kinds, each alone in its child. Its
        # outcome decides what the Dijkstra zones of the other one-way graphs are asked (see level_note).
        groups = []
        dgs = directed_graphs()
        name, dg = dgs[0]
        grp = {k: build_plat("%s-%s" % (name, k), k, dg, ctx.sub_rng("directed", name), pre=pre(), f13_absent=False) for k in KINDS}
        groups.append(grp)
        st.jobs([("hooks", [[grp[k]]]) for k in KINDS])
        _dbg("phase 1 (F13 witness) done")
        f13_absent = not st.cone_spin_confirmed
        ctx.extra["dijkstra_asked_every_pair"] = f13_absent

        # phase 2: the other directed graphs, then random graphs
        cases = []
        slow = []
        first = []
        todo = [(name, dg, ctx.sub_rng("directed", name), True) for name, dg in dgs[1:]]
        for i in range(ng):
            rng = ctx.sub_rng("g", i)
            todo.append(("g%d" % i, gen_graph(rng), rng, f13_absent or i % 8 == 0))
        for name, g, rng, ask_cone in todo:
            grp = {k: build_plat("%s-%s" % (name, k), k, g, rng, pre=pre(), f13_absent=f13_absent, ask_cone=ask_cone) for k in KINDS}
            groups.append(grp)
            for k in KINDS:
                p = grp[k]
                if k != "floyd" and not f13_absent and ask_cone and any(pr in p.cone for pr in p.judged):
                    slow.append(p)       # expected to spin (open finding): alone in its child
                elif name[0] == "d":
                    first.append(p)
                else:
                    cases.append(p)
        ctx.count("directed_platforms", 3 * len(dgs))
        fulls = [gen_full(ctx.sub_rng("f", i), "f%d" % i, pre()) for i in range(nfull)]
        for gi in (len(dgs), len(dgs) + 1):
            if gi < len(groups):
                gg = groups[gi]["floyd"].graph
                ctx.sample({"zone_kinds": list(groups[gi]), "class": gg["cls"], "nodes": gg["nodes"], "routes": gg["routes"][:12]})
        allp = cases + fulls
        order = list(range(len(allp)))
        ctx.sub_rng("bundling").shuffle(order)
        allp = [allp[i] for i in order]
        # one harness process per job, one child (engine) per bundle; a platform expected to spin is alone in its child
        jobs = [("hooks", [[p] for p in ch]) for ch in G.chunks(slow, 5)]
        jobs += [("asan", bs) for bs in G.chunks(G.chunks(first + [p for i, p in enumerate(allp) if i % 7 == 0], 8), 3)]
        jobs += [("hooks", bs) for bs in G.chunks(G.chunks(first + allp, 8), 5)]
        _dbg("phase 2 generated: %d jobs; python cpu so far %.1fs" % (len(jobs), time.process_time()))
        st.jobs(jobs)
        _dbg("phase 2 done; python cpu so far %.1fs" % time.process_time())
        st.compare(groups)
    finally:
        shutil.rmtree(scratch, ignore_errors=True)


# ----------------------------------------------------------------------------------------------------------------------
# replay
# ----------------------------------------------------------------------------------------------------------------------
def rebuild(w):
    """Reconstruct the Plat (ground truth included) from the spec lines of a witness."""
    p = G.Plat(w["id"])
    p.kind = w["kind"]
    nodes, routes = [], []
    decl = {}
    p.n_q = p.n_lq = 0
    p.asked = set()
    lqa = False
    for line in w["spec"]:
        t = line.split()
        if t[0] == "Z":
            p.zone(t[1], None, t[3])
            p.zn = t[1]
        elif t[0] == "H":
            p.host(t[1], t[2])
            nodes.append((t[1], "host"))
        elif t[0] == "R":
            p.router(t[1], t[2])
            nodes.append((t[1], "router"))
        elif t[0] == "L":
            p.link(t[1], t[2], float(t[3]), t[4])
        elif t[0] == "A":
            ll = [(x[:-2], x[-1]) if x[-2:] in (":U", ":D") else (x, "") for x in t[5:]]
            p.route(t[1], t[2], t[3], ll, t[4] == "1")
            routes.append((t[2], t[3], ll, t[4] == "1"))
            decl[(t[2], t[3])] = p.forward(ll)
            if t[4] == "1":
                decl[(t[3], t[2])] = p.backward(ll)
        else:
            p.lines.append(line)
            if t[0] == "Q" and len(t) == 3:
                p.n_q += 1
                p.asked.add((t[1], t[2]))
            elif t[0] == "LQ":
                p.n_lq += 1
                p.asked.add((t[2], t[3]))
            elif t[0] == "LQA":
                lqa = True
    p.pre = p.zn[:-1]
    p.graph = dict(nodes=nodes, routes=routes, cls="replay")
    p.decl = decl
    p.cone_skipped = 0
    if p.kind == "full":
        p.nodes = [n for n, _ in nodes]
        p.nodeset = p.hosts = set(p.nodes)
        p.cone = set()
    else:
        prepare(p, p.graph)
    if lqa:
        p.n_lq += len(nodes) ** 2
        p.asked |= set((a, b) for a, _ in nodes for b, _ in nodes)
    return p


def replay(ctx, w):
    """Re-run the stored platform spec(s); judge again with the oracle rebuilt from the spec lines."""
    scratch = tempfile.mkdtemp(prefix="verif-C25-")
    try:
        st = Run(ctx, scratch)
        members = w.get("members") or [w]
        grp = {}
        for m in members:
            p = rebuild(m)
            st.single(p, m.get("flavour", "hooks"))
            grp[p.kind] = p
        if len(grp) > 1:
            st.compare([grp])
    finally:
        shutil.rmtree(scratch, ignore_errors=True)
