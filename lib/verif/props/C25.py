"""C25 Shortest-path zones (Floyd / Dijkstra / DijkstraCache) compute minimal chains of declared routes; Full returns the declared route."""
import shutil
import tempfile

from verif import proc
from verif.gen import routing as G
from verif.oracles import routing as O

META = {
    "id": "C25", "engine": "E3 route_dump", "engine_path": "harness/route_dump.cpp",
    "engine_kind": "C++ harness building generated zones through the platform API, one forked child per platform under a CPU-time watchdog; python reference",
    "level": "exploration",
    "technique": "reference shortest-path differential: every route_to()/get_local_route() answer of a Floyd, Dijkstra or DijkstraCache zone must decompose "
                 "into a chain of declared one-hop routes and have the minimal link count computed by an independent Dijkstra; Full zones must echo the declaration",
    "level_text": "Random weakly/strongly connected graphs of 3..30 vertices (hosts and routers) with one-hop routes of 1..3 links (shared, fat-pipe and "
                  "split-duplex links with directions; symmetric, one-way, or both directions declared with different link lists; links reused between "
                  "routes) are each built three times (Floyd, Dijkstra, DijkstraCache) through the C++ API and every ordered pair that has a path is queried "
                  "(hosts through Host::route_to, all vertices through the zone's get_local_route). The python reference recomputes the minimal link count and "
                  "checks that the returned list is a chain of declared routes from source to destination of exactly that cost, that the three zone kinds "
                  "agree on the cost, that DijkstraCache answers the same on a cache miss and on a hit (each pair is asked twice, in random order), and "
                  "that a Full zone returns exactly the declared list (reversed, with split-duplex directions flipped, for the symmetric copy). Every "
                  "platform runs in its own child process under a CPU-time budget; a query that burns the whole budget, and again a 4x budget in a second "
                  "run, is reported as a spinning route computation.",
    "level_note": "Pairs without any path and source==destination queries are outside the statement and are not judged (on one-way graphs Dijkstra zones are only "
                  "asked pairs that have a path). Plain flavour for all cases, ASan+UBSan flavour for a share of them.",
    "rule": "case = one (graph, zone kind) platform; non-trivial = distinct platforms fully answered and checked in which at least one judged pair needs a chain of >=2 declared routes",
    "assumptions": ["route cost = number of links of the declared one-hop routes (as documented for Floyd/Dijkstra zones)"],
    "ready": False,
}

KINDS = ("floyd", "dijkstra", "dijkstracache")


def gen_graph(rng, small=False):
    n = rng.choice([3, 3, 4, 4, 5, 5, 6, 7, 8, 10, 12, 16, 22, 30] if not small else [3, 4, 5])
    names = []
    nrouter = 0
    for i in range(n):
        if i >= 2 and rng.random() < 0.2:
            names.append(("r%d" % i, "router"))
            nrouter += 1
        else:
            names.append(("h%d" % i, "host"))
    cls = "strong" if rng.random() < 0.65 else "weak"
    routes = []          # (a, b, sym)
    used = set()

    def add(a, b, sym):
        if a == b or (a, b) in used or (sym and (b, a) in used):
            return False
        used.add((a, b))
        if sym:
            used.add((b, a))
        routes.append((a, b, sym))
        return True

    for i in range(1, n):
        p = rng.randrange(i)
        a, b = (i, p) if rng.random() < 0.5 else (p, i)
        if cls == "strong":
            if rng.random() < 0.6:
                add(a, b, True)
            else:
                add(a, b, False)
                add(b, a, False)
        else:
            add(a, b, rng.random() < 0.4)
    for _ in range(rng.randint(0, 2 * n)):
        add(rng.randrange(n), rng.randrange(n), rng.random() < 0.4)
    # links
    nlinks = 0
    links = []           # (name, lat, policy)
    decl = []
    for a, b, sym in routes:
        ll = []
        for _ in range(rng.choice([1, 1, 1, 2, 2, 3])):
            if links and rng.random() < 0.15:
                name, _, pol = rng.choice(links)
            else:
                name, pol = "l%d" % nlinks, rng.choice(["S", "S", "F", "D"])
                nlinks += 1
                links.append((name, rng.choice([0.0, 1e-3, 2.5e-4]), pol))
            ll.append((name, rng.choice([G.UP, G.DOWN]) if pol == "D" else G.NONE))
        decl.append((names[a][0], names[b][0], ll, sym))
    return dict(nodes=names, links=links, routes=decl, cls=cls)


def build_plat(pid, kind, g, rng):
    p = G.Plat(pid)
    p.kind = kind
    p.graph = g
    p.zone("z", None, kind)
    for name, typ in g["nodes"]:
        (p.host if typ == "host" else p.router)(name, "z")
    for name, lat, pol in g["links"]:
        p.link(name, "z", lat, pol)
    for a, b, ll, sym in g["routes"]:
        p.route("z", a, b, ll, sym)
    p.seal("z")
    nodes = [n for n, _ in g["nodes"]]
    hosts = [n for n, t in g["nodes"] if t == "host"]
    edges = O.declared_edges(p, "z")
    dist = O.shortest(nodes, edges)
    p.edges, p.dist = edges, dist
    p.edges_rev = {k: list(reversed(v)) for k, v in edges.items()}
    pairs = [(a, b) for a in nodes for b in nodes if a != b and (a, b) in dist]
    p.judged = pairs
    p.tags.add(g["cls"])
    if kind == "floyd":
        p.q("Q")
        p.q("LQA z")
    else:
        order = list(pairs)
        rng.shuffle(order)
        second = list(order)
        rng.shuffle(second)
        for a, b in order + (second if kind == "dijkstracache" else []):
            if a in hosts and b in hosts:
                p.q("Q %s %s" % (a, b))
            p.q("LQ z %s %s" % (a, b))
    return p


def gen_full(rng, pid):
    p = G.Plat(pid)
    p.kind = "full"
    n = rng.randint(2, 7)
    p.zone("z", None, "full")
    hosts = [p.host("h%d" % i, "z") for i in range(n)]
    nl = 0
    decl = {}
    for a in hosts:
        for b in hosts:
            if (a, b) in decl or rng.random() < 0.35:
                continue
            if a == b and rng.random() < 0.7:
                continue
            sym = a != b and (b, a) not in decl and rng.random() < 0.5
            ll = []
            for _ in range(rng.choice([1, 1, 2, 3, 4])):
                pol = rng.choice(["S", "F", "D"])
                name = p.link("l%d" % nl, "z", rng.choice([0.0, 1e-3]), pol)
                nl += 1
                ll.append((name, rng.choice([G.UP, G.DOWN]) if pol == "D" else G.NONE))
            p.route("z", a, b, ll, sym)
            decl[(a, b)] = p.forward(ll)
            if sym:
                decl[(b, a)] = p.backward(ll)
    p.seal("z")
    p.decl = decl
    p.q("Q")
    p.q("LQA z")
    return p


def unreachable_from(p, src):
    return any((src, n) not in p.dist for n, _ in p.graph["nodes"] if n != src)


def check_sp(ctx, p, res, fl):
    """Judge one Floyd/Dijkstra/DijkstraCache platform. Returns (fully_checked, nontrivial, costs{pair: n})."""
    kind = p.kind
    w = dict(p.witness(), flavour=fl, kind=kind)
    answers = {}
    for s, d, lat, links, exc in res.routes:
        answers.setdefault((s, d), []).append(("R", links, exc))
    for (z, s, d), v in res.local.items():
        answers.setdefault((s, d), []).append(("LR", v.get("links"), v.get("exc")))
        if v.get("gw_src") or v.get("gw_dst"):
            ctx.violation("C25:%s:gateway-on-flat-zone" % kind, "%s: local route %s->%s of a zone without sub-zones reports gateways %r/%r"
                          % (p.id, s, d, v.get("gw_src"), v.get("gw_dst")), w)
    ok = True
    nontriv = False
    costs = {}
    for (a, b) in p.judged:
        ans = answers.get((a, b))
        if not ans:
            ok = False
            continue
        feat = ":some-node-unreachable-from-source" if unreachable_from(p, a) else ""
        want = p.dist[(a, b)]
        ctx.count("pairs_judged")
        first = None
        for how, links, exc in ans:
            ctx.count("answers_checked")
            if links is None:
                ctx.violation("C25:%s:no-route-for-reachable-pair%s" % (kind, feat),
                              "%s: %s %s->%s raised %r although a chain of declared routes of %d links exists" % (p.id, how, a, b, exc, want), w)
                ok = False
                continue
            if first is None:
                first = links
            elif links != first:
                ctx.violation("C25:%s:answers-differ-between-queries%s" % (kind, feat),
                              "%s: %s->%s answered %r and then %r (cache miss vs hit / route_to vs get_local_route)" % (p.id, a, b, first, links), w)
                ok = False
            ch = O.chain_of(links, a, b, p.edges)
            if ch is None and O.chain_of(links, a, b, p.edges_rev) is not None:
                # right hops, but the links of each multi-link hop come out in reverse order: judged on its own key, then the
                # cost is still compared below
                ctx.violation("C25:%s:hop-links-reversed" % kind,
                              "%s: %s %s->%s returned %r: the right chain of declared routes %r, but the links of each multi-link "
                              "one-hop route are listed in reverse order" % (p.id, how, a, b, links, O.chain_of(links, a, b, p.edges_rev)), w)
                ctx.count("answers_with_reversed_hop_links")
                ch = O.chain_of(links, a, b, p.edges_rev)
                if len(links) == want:
                    costs[(a, b)] = len(links)
                    continue
            if ch is None:
                ctx.violation("C25:%s:not-a-chain-of-declared-routes%s" % (kind, feat),
                              "%s: %s %s->%s returned %r which is not a concatenation of declared one-hop routes from %s to %s (minimal cost %d)"
                              % (p.id, how, a, b, links, a, b, want), w)
                ok = False
            elif len(links) != want:
                ctx.violation("C25:%s:not-minimal%s" % (kind, feat),
                              "%s: %s %s->%s returned %d links %r (chain %r) but a chain of %d links exists" % (p.id, how, a, b, len(links), links, ch, want), w)
                ok = False
            else:
                costs[(a, b)] = len(links)
                if len(ch) >= 2:
                    nontriv = True
                    ctx.count("multi_hop_pairs")
    return ok, nontriv, costs


def check_full(ctx, p, res, fl):
    w = dict(p.witness(), flavour=fl, kind="full")
    ok = True
    answers = []
    for s, d, lat, links, exc in res.routes:
        answers.append(("route_to", s, d, links, exc))
    for (z, s, d), v in res.local.items():
        answers.append(("get_local_route", s, d, v.get("links"), v.get("exc")))
    seen = set()
    for how, s, d, links, exc in answers:
        if (s, d) not in p.decl:
            continue
        ctx.count("pairs_judged")
        seen.add((s, d))
        if links != p.decl[(s, d)]:
            ctx.violation("C25:full:differs-from-declared", "%s: %s %s->%s returned %r (exception %r), declared %r" % (p.id, how, s, d, links, exc, p.decl[(s, d)]), w)
            ok = False
    return ok and len(seen) == len(p.decl), len(p.decl) >= 2


def directed():
    """The minimal F13 witness: s->u and x->u one-way; x cannot be reached from s; the declared pair s->u is asked."""
    g = dict(nodes=[("s", "host"), ("u", "host"), ("x", "host")], links=[("a", 1e-3, "S"), ("b", 1e-3, "S")],
             routes=[("s", "u", [("a", "")], False), ("x", "u", [("b", "")], False)], cls="weak")
    return g


def run_platforms(ctx, fl, plats, scratch, cpu=None):
    c, wl = G.budgets(fl)
    return G.run_batch(fl, plats, cpu or c, wl, scratch)


def judge(ctx, p, res, fl, scratch, state):
    """Common status handling; returns True when the platform produced a complete answer set."""
    ctx.evaluation()
    w = dict(p.witness(), flavour=fl, kind=p.kind)
    feat_all = ":some-node-unreachable-from-source" if p.kind != "full" and any(unreachable_from(p, n) for n, _ in p.graph["nodes"]) else ""
    if res.status in ("wall", "missing"):
        ctx.inconclusive("wall-clock watchdog (%s)" % res.status)
        return False
    if res.build_errors:
        raise Exception("generator built an invalid platform %s: %s" % (p.id, res.build_errors[:2]))
    if res.status == "spin":
        ctx.count("spin_first_budget")
        if state["confirmed"] >= state["max_confirm"]:
            ctx.count("spin_not_reconfirmed")
            return False
        state["confirmed"] += 1
        c, wl = G.budgets("hooks")       # the confirmation run always uses the plain flavour (a spin is not a memory error)
        again = G.run_batch("hooks", [p], 4 * c, 4 * wl, scratch)[p.id]
        if again.status == "spin" and again.spin and res.spin and again.spin.split()[1:4] == res.spin.split()[1:4]:
            t = res.spin.split()
            src = t[2] if t[1] == "R" else t[3]
            feat = ":some-node-unreachable-from-source" if p.kind != "full" and src in dict(p.graph["nodes"]) and unreachable_from(p, src) else ""
            ctx.violation("C25:%s:spin:reachable-pair%s" % (p.kind, feat),
                          "%s: the query '%s' did not return within %.0f s and then %.0f s of CPU time (second run: %s); the pair has a chain of declared routes"
                          % (p.id, " ".join(t[1:4]), c, 4 * c, again.spin.strip()), w)
        else:
            ctx.inconclusive("CPU budget exhausted once, not reproduced")
        return False
    if res.status != "ok" or not res.done:
        reps = [l for l in res.noise if "Sanitizer" in l or "runtime error" in l]
        ctx.violation("C25:%s:crash:%s%s" % (p.kind, res.status, feat_all), "%s: child ended with %s: %s" % (p.id, res.status, (reps or res.noise)[:3]), w)
        return False
    return True


def run(ctx):
    scratch = tempfile.mkdtemp(prefix="verif-C25-")
    try:
        ng = ctx.size(150, 4000)
        nfull = ctx.size(40, 600)
        groups = []          # (graph index, {kind: plat})
        dg = directed()
        r0 = ctx.sub_rng("directed")
        groups.append({k: build_plat("d0-" + k, k, dg, r0) for k in KINDS})
        for i in range(ng):
            rng = ctx.sub_rng("g", i)
            g = gen_graph(rng)
            kinds = KINDS
            if g["cls"] == "weak" and i % 5 != 0:
                kinds = ("floyd",)     # one-way graphs mostly on Floyd only: Dijkstra zones spin on most of them (known finding), each spin costs 15 s of CPU
            groups.append({k: build_plat("g%d-%s" % (i, k), k, g, rng) for k in kinds})
        fulls = [gen_full(ctx.sub_rng("f", i), "f%d" % i) for i in range(nfull)]
        for gidx in (1, 2):
            if gidx < len(groups):
                ctx.sample({"zone_kinds": list(groups[gidx]), "nodes": groups[gidx]["floyd"].graph["nodes"], "routes": groups[gidx]["floyd"].graph["routes"][:12]})
        jobs = []
        allp = [p for g in groups for p in g.values()] + fulls
        slow = [p for p in allp if p.kind in ("dijkstra", "dijkstracache") and "weak" in p.tags]   # likely to burn a CPU budget: one per process
        fast = [p for p in allp if p not in slow]
        for p in slow:
            jobs.append(("hooks", [p]))
        for ch in G.chunks(fast, 6):
            jobs.append(("hooks", ch))
        asan_share = [p for i, p in enumerate(fast) if i % 10 == 0]
        for ch in G.chunks(asan_share, 6):
            jobs.append(("asan", ch))
        for fl in ("hooks", "asan"):
            G.harness(fl)
        state = {"confirmed": 0, "max_confirm": 4}
        costs = {}

        def one(job):
            fl, ch = job
            out = run_platforms(ctx, fl, ch, scratch)
            for p in ch:
                res = out[p.id]
                if not judge(ctx, p, res, fl, scratch, state):
                    continue
                if p.kind == "full":
                    ok, nt = check_full(ctx, p, res, fl)
                else:
                    ok, nt, c = check_sp(ctx, p, res, fl)
                    if fl == "hooks":
                        costs[p.id] = c
                if ok and nt:
                    ctx.nontrivial(p.id + "/" + fl)
                if ok:
                    ctx.count("platforms_fully_checked." + p.kind)

        ctx.pmap(one, jobs)
        # the three algorithms must agree on the link count
        for g in groups:
            ks = [k for k in g if g[k].id in costs]
            for i in range(len(ks)):
                for j in range(i + 1, len(ks)):
                    ca, cb = costs[g[ks[i]].id], costs[g[ks[j]].id]
                    for pair in set(ca) & set(cb):
                        ctx.count("cross_kind_comparisons")
                        if ca[pair] != cb[pair]:
                            ctx.violation("C25:disagree:%s-vs-%s" % (ks[i], ks[j]), "%s: %s->%s costs %d links in the %s zone and %d in the %s zone"
                                          % (g[ks[i]].id, pair[0], pair[1], ca[pair], ks[i], cb[pair], ks[j]), g[ks[i]].witness())
    finally:
        shutil.rmtree(scratch, ignore_errors=True)


def replay(ctx, w):
    """Re-run the stored platform spec; judge it again with the oracle rebuilt from the spec lines."""
    scratch = tempfile.mkdtemp(prefix="verif-C25-")
    try:
        p = rebuild(w)
        fl = w.get("flavour", "hooks")
        res = run_platforms(ctx, fl, [p], scratch)[p.id]
        state = {"confirmed": 0, "max_confirm": 1}
        if judge(ctx, p, res, fl, scratch, state):
            if p.kind == "full":
                check_full(ctx, p, res, fl)
            else:
                check_sp(ctx, p, res, fl)
    finally:
        shutil.rmtree(scratch, ignore_errors=True)


def rebuild(w):
    """Reconstruct the Plat (ground truth included) from the spec lines of a witness."""
    p = G.Plat(w["id"])
    p.kind = w["kind"]
    nodes, routes = [], []
    decl = {}
    for line in w["spec"]:
        t = line.split()
        if t[0] == "Z":
            p.zone(t[1], None, t[3])
        elif t[0] == "H":
            p.host(t[1], t[2])
            nodes.append((t[1], "host"))
        elif t[0] == "R":
            p.router(t[1], t[2])
            nodes.append((t[1], "router"))
        elif t[0] == "L":
            p.link(t[1], t[2], float(t[3]), t[4])
        elif t[0] == "A":
            ll = [(x[:-2], x[-1]) if x[-2:] in (":U", ":D") else (x, "") for x in t[5:]]
            p.route(t[1], t[2], t[3], ll, t[4] == "1")
            routes.append((t[2], t[3], ll, t[4] == "1"))
            decl[(t[2], t[3])] = p.forward(ll)
            if t[4] == "1":
                decl[(t[3], t[2])] = p.backward(ll)
        else:
            p.lines.append(line)
    p.graph = dict(nodes=nodes, routes=routes, cls="replay")
    p.decl = decl
    p.edges = O.declared_edges(p, "z")
    p.edges_rev = {k: list(reversed(v)) for k, v in p.edges.items()}
    p.dist = O.shortest([n for n, _ in nodes], p.edges)
    p.judged = [(a, b) for a, _ in nodes for b, _ in nodes if a != b and (a, b) in p.dist]
    return p
