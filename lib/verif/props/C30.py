"""C30 Derived datatypes have MPI layout and transfer exactly their bytes."""
import os
import random
import shutil
import tempfile

from verif import build
from verif.gen import mpi, dtype as D

META = {
    "id": "C30", "engine": "E5 smpi programs", "engine_path": "harness/mpi/dtype.c",
    "engine_kind": "generated datatype descriptions interpreted by one MPI harness binary under the real smpirun/SMPI (2 ranks)",
    "level": "exploration",
    "technique": "reference type map computed in Python from the MPI standard's constructor definitions; size/lb/extent compared, "
                 "every transfer path checked byte by byte against the type map (selected bytes arrive, all others keep a guard fill)",
    "level_text": "Random trees of contiguous/vector/hvector/indexed/hindexed/indexed_block/struct/resized/subarray constructors (depth <= 3, "
                  "non-negative displacements, zero counts and block lengths at the root), every node of every tree tested as a type of its own: "
                  "MPI_Type_size and MPI_Type_get_extent against the reference, then counts 0,1,2,3,5 through Sendrecv-to-self, Send/Recv and "
                  "Isend/Irecv typed-typed, typed->bytes and bytes->typed (wire order), Pack, Unpack, Bcast, Gather, Scatter. Plus directed "
                  "types (classic shapes and the minimal witness of every open finding). A failure is keyed by its root cause when the "
                  "type has the feature that triggers one of the known defects of SMPI's (un)serialisation/bounds code, by constructor and "
                  "features otherwise; a composite type is only judged when its components are sound.",
    "level_note": "Hooks flavour only (SMPI's dlopen privatisation under ASan reports in the sanitizer's own sigaltstack interceptor), so "
                  "out-of-bounds accesses are only seen through 64-byte guard zones or crashes. The alignment padding of MPI extents is "
                  "implementation-defined: where it matters (roots only) both the padded and the unpadded extent are accepted. Not judged "
                  "because the standard does not say: lb/extent of a type with an empty type map; bounds of a struct mixing members with and "
                  "without explicit bounds (sticky markers: MPI text vs MPICH practice; never generated). MPI_Type_get_true_extent is printed "
                  "but not judged (not in the statement). While the open findings are open, a type whose MPI extent is wrong is only moved "
                  "with count <= 1 (no gather/scatter), and types built on an unsound component are not judged (counter masked_by_component). "
                  "The two ranks share one heap: a process death that follows wrong transfers of the same type (reported on their own) is "
                  "counted, not reported; a death is reported when the type dies alone in a fresh process without a wrong transfer before. "
                  "Root-cause keys are labels only: whether a transfer or a bound is wrong is always decided by the reference type map.",
    "rule": "case = one datatype node (constructor + arguments + old types) with its reference type map; non-trivial = a derived type "
            "with >= 2 segments or a non-trivial extent whose tests ran; distinct by constructor arguments",
    "ready": True,
}
PATHS = ["sendrecv-self", "send-recv", "typed-to-bytes", "bytes-to-typed", "pack", "unpack", "bcast", "gather", "isend-irecv", "scatter",
         "sendrecv-self-into-other-derived-type"]
CODES = {1: "wrong-or-missing", 2: "outside-modified", 3: "mpi-error", 4: "wrong-count"}

# Root causes of the open findings (known_findings.d/C30.json). A failure gets one of these keys only when the failing type has the
# feature that triggers the defect (predicates below, derived from the defect, decided on the *reference* description of the type).
RC = {
    "zero-size": "C30:zero-size-type:copy-divides-by-size",
    "hvector": "C30:transfer:hvector:next-element-not-at-extent",
    "hindexed": "C30:transfer:hindexed:next-element-not-at-extent",
    "struct": "C30:transfer:struct:next-element-not-at-extent",
    "bounds-old-lb": "C30:meta:bounds:old-type-lb-nonzero",
    "bounds-empty-block": "C30:meta:bounds:empty-block-counted",
    "subarray-extent": "C30:meta:subarray:extent-of-oldtype-not-of-array",
    "subarray-1d": "C30:subarray:ndims=1:array-size-and-start-ignored",
}

# Directed types: (name, description, finding expected while it is open or None). Each runs in its own smpirun.
DIRECTED = [
    ("matrix-column", "vector(4,1,5; MPI_DOUBLE)", None),
    ("blocks-of-ints", "vector(3,2,4; MPI_INT)", None),
    ("hvector-odd-stride", "hvector(3,1,9; MPI_INT)", None),
    ("indexed-from-zero", "indexed(3,1,2,1,0,2,5; MPI_INT)", None),
    ("upper-triangle", "indexed(3,3,2,1,0,4,8; MPI_DOUBLE)", None),
    ("c-struct", "struct(3,1,1,3,0,8,16; MPI_INT,MPI_DOUBLE,MPI_CHAR)", None),
    ("c-struct-resized", "resized(0,24; struct(3,1,1,3,0,8,16; MPI_INT,MPI_DOUBLE,MPI_CHAR))", None),
    ("every-other-int", "resized(0,8; MPI_INT)", None),
    ("vector-of-struct", "vector(2,2,3; struct(2,1,1,0,8; MPI_DOUBLE,MPI_LONG_LONG))", None),
    ("hindexed-of-vector", "hindexed(2,1,1,0,64; vector(2,1,3; MPI_DOUBLE))", None),
    ("one-cell-subarray", "subarray(2,1,1,1,1,0,0,0; MPI_INT)", None),
    ("empty-contiguous", "contiguous(0; MPI_INT)", None),
    # minimal witnesses of the open findings
    ("F-zero-size", "vector(2,0,1; MPI_LONG_LONG)", "zero-size"),
    ("F-hvector", "vector(2,1,2; resized(0,8; MPI_INT))", "hvector"),
    ("F-vector-of-padded-struct", "vector(2,2,3; resized(0,16; struct(2,1,1,0,8; MPI_INT,MPI_DOUBLE)))", "hvector"),
    ("F-contiguous-of-vector", "contiguous(3; resized(0,24; vector(2,1,2; MPI_DOUBLE)))", "hvector"),
    ("F-hindexed", "indexed(2,1,1,1,3; MPI_INT)", "hindexed"),
    ("F-struct", "struct(2,1,1,8,0; MPI_DOUBLE,MPI_INT)", "struct"),
    ("F-resized-lb", "resized(4,8; MPI_INT)", "struct"),
    ("F-bounds-old-lb", "indexed(1,2,0; indexed(1,1,1; MPI_INT))", "bounds-old-lb"),
    ("F-bounds-empty-block", "hindexed(2,0,1,0,8; MPI_INT)", "bounds-empty-block"),
    ("F-subarray-extent", "subarray(2,2,2,2,2,0,0,0; MPI_INT)", "subarray-extent"),
    ("F-subarray-1d", "subarray(1,4,2,1,0; MPI_INT)", "subarray-1d"),
]


# ---------------------------------------------------------------------------------------------------------------------------------
# classification of a failure by root cause (never decides *whether* something failed: the reference type map does)
def blocks(t):
    """(old type, number of consecutive elements of it that are moved at once) for each block of t."""
    a, k = t.args, t.kind
    if k in (1, 8):
        return [(t.kids[0], 1)]
    if k in (2, 3):
        return [(t.kids[0], a[1])] if a[0] > 0 else []
    if k in (4, 5):
        return [(t.kids[0], b) for b in a[1:1 + a[0]]]
    if k == 6:
        return [(t.kids[0], a[1])] * a[0]
    if k == 7:
        return [(t.kids[i], a[1 + i]) for i in range(a[0])]
    if k == 9:
        nd = a[0]
        subs, order = a[1 + nd:1 + 2 * nd], a[1 + 3 * nd]
        return [(t.kids[0], subs[0] if order == 1 else subs[nd - 1])]
    return []


def own_trigger(t):
    """Is the element after the first one misplaced by the (un)serialisation loop of t's class? (defect: the loop goes on from the
    end of the last block instead of one extent after the beginning of the element)"""
    a, k = t.args, t.kind
    c = t.kids[0]
    if k == 1 or (k == 9 and a[0] == 1):   # contiguous (and today's 1-D subarray) of a derived type is hvector(count, 1, extent)
        n = a[0] if k == 1 else a[2]
        return "hvector" if c.kind != 0 and n > 0 and c.size != c.extent else None
    if k in (2, 3):
        n, bl, st = a
        if n == 0:
            return None
        stb = st * c.extent if k == 2 else st
        return "hvector" if (n - 1) * stb + bl * c.size != t.extent else None
    if k in (4, 5, 6, 7):
        n = a[0]
        if n == 0:
            return None
        if k == 6:
            bls, idx = [a[1]] * n, [d * c.extent for d in a[2:2 + n]]
        else:
            bls = a[1:1 + n]
            idx = a[1 + n:1 + 2 * n] if k != 4 else [d * c.extent for d in a[1 + n:1 + 2 * n]]
        last = t.kids[n - 1] if k == 7 else c
        end = bls[-1] * last.extent
        ok = end == t.extent if n == 1 else (idx[0] == 0 and idx[-1] + end == t.extent)
        return None if ok else ("struct" if k == 7 else "hindexed")
    if k == 8:                # resized = struct(LB at lb, old at 0, UB at lb+extent)
        return "struct" if a[0] != 0 else None
    return None


def affected(t, c, observed=None):
    """Root cause that explains a wrong transfer of c consecutive elements of t, or None. A defect of a component (moved with
    count = block length) comes first; when that component was itself tested as a type of its own with that count, what was
    observed there decides whether its defect is at work (observed: {(type id, count): failed?})."""
    if t.kind == 0 or c < 1:
        return None
    for kid, bl in blocks(t):
        if kid.kind == 0 or bl < 1:
            continue
        if observed is not None and (kid.id, bl) in observed and not observed[(kid.id, bl)]:
            continue
        r = affected(kid, bl, observed)
        if r:
            return r
    return own_trigger(t) if c >= 2 else None


def meta_cause(t, rule):
    if rule == "size":
        return None
    if t.kind == 9:
        nd = t.args[0]
        if nd == 1:
            return "subarray-1d"
        total = 1
        for s in t.args[1:1 + nd]:
            total *= s
        return "subarray-extent" if rule == "extent" and total > 1 else None
    if t.kind in (4, 5, 6, 7):
        bs = blocks(t)
        if any(k.lb != 0 for k, _ in bs):
            return "bounds-old-lb"
        if any(bl == 0 for _, bl in bs):
            return "bounds-empty-block"
    return None


def features(t):
    f = []
    cl = sorted({k.cls() for k in t.kids})
    f.append("old=" + (cl[0] if len(cl) == 1 else "mixed"))
    a = t.args
    if t.kind == 9:
        f.append("ndims=%d" % a[0])
    if t.kind == 8 and a[0] != 0:
        f.append("lb>0")
    zero = (t.kind == 1 and a[0] == 0) or (t.kind in (2, 3) and (a[0] == 0 or a[1] == 0)) or \
           (t.kind in (4, 5, 7) and 0 in a[1:1 + a[0]]) or t.size == 0
    if zero:
        f.append("zero")
    return ":".join(f)


def cnt_class(c):
    return "0" if c == 0 else "1" if c == 1 else "n"


# ---------------------------------------------------------------------------------------------------------------------------------
class Batch:
    """One case file = a list of type nodes (components before composites), run in one or several smpirun processes."""

    def __init__(self, ctx, exe, tmp, roots, witness, name, corrupt=None):
        self.ctx, self.exe, self.witness, self.corrupt = ctx, exe, witness, corrupt
        self.order, text = D.case_lines(roots)
        self.byid = {t.id: t for t in self.order}
        self.index = {t.id: i for i, t in enumerate(self.order)}
        self.path = os.path.join(tmp, name + ".case")
        with open(self.path, "w") as f:
            f.write(text)
        self.meta, self.xs, self.deaths = {}, {}, {}
        self.tainted = set()     # nodes that are wrong in a way that makes whatever is built on them unpredictable
        self.observed = {}       # (type id, count) -> did a transfer of that many elements of that type fail?

    @staticmethod
    def parse(out):
        """-> (complete, crash=(sig, rank) or None, last progress line of each rank, meta lines, transfer results)"""
        prog, crash, meta, xs = {}, None, {}, {}
        for line in out.splitlines():
            p = line.split()
            if not p:
                continue
            try:
                if p[0] == "m":
                    meta[int(p[1])] = list(map(int, p[2:8]))
                elif p[0] == "x":
                    xs.setdefault(int(p[1]), []).append((int(p[2]), int(p[3]), int(p[4]), int(p[5])))
                elif p[0] == "p":
                    prog[int(p[1])] = (int(p[2]), int(p[3]), int(p[4]))
                elif p[0] == "CRASH":
                    crash = (int(p[1]), int(p[2]))
            except (ValueError, IndexError):
                pass
        return out.count("DONE ") == 2, crash, prog, meta, xs

    def smpirun(self, args):
        res = mpi.smpirun(self.exe, 2, [self.path] + args, timeout=300)
        self.ctx.evaluation()
        if self.corrupt:
            res.out = self.corrupt(res.out)
        return res

    def where_died(self, crash, prog):
        """-> (signal, (type id, count, path)). The ranks share one heap: a synchronous fault (SIGFPE/SIGSEGV/SIGBUS) is the running
        rank's own, an abort (glibc heap check, xbt_die, deadlock) is attributed to the transfer of the rank that is ahead."""
        sig = crash[0] if crash else 0
        if crash and sig in (8, 11, 7) and crash[1] in prog:
            return sig, prog[crash[1]]
        if prog:
            return sig, max(prog.values(), key=lambda w: (self.index.get(w[0], -1), w[1], w[2]))
        return sig, None

    def run(self):
        ctx = self.ctx
        start = 0
        for _ in range(len(self.order) + 1):
            if start >= len(self.order):
                break
            res = self.smpirun(["from=%d" % start])
            if res.timed_out:
                ctx.inconclusive("smpirun watchdog")
                return
            complete, crash, prog, meta, xs = self.parse(res.out)
            self.meta.update(meta)
            if complete:
                self.xs.update(xs)
                break
            # the process died: find the transfer it died in, judge it, go on after that type
            sig, where = self.where_died(crash, prog)
            if where is None or where[0] not in self.index or (where[1] >= 0 and self.index[where[0]] < start):
                ctx.violation("C30:abort:unattributed", "smpirun rc=%s died outside the transfers (%s): %s" % (
                    res.rc, where, (res.err or res.out)[-300:]), self.witness)
                return
            tid, cnt, pth = where
            err = res.err or ""
            if cnt < 0:       # in a constructor: every process would die there again
                self.xs.update(xs)
                self.deaths[tid] = (cnt, pth, self.kind_of(sig, res), sig, err[-300:])
                ctx.count("types_lost_after_constructor_death", len(self.order) - self.index[tid] - 1)
                return
            report = True
            if any(code != 0 for l in xs.values() for _, _, code, _ in l):
                # Wrong transfers were seen in this process before it died (they are judged on their own): they may have written
                # out of bounds, so this death proves nothing by itself. Run the type alone in a fresh process.
                r2 = self.smpirun(["only=%d" % tid])
                if r2.timed_out:
                    ctx.inconclusive("smpirun watchdog")
                    xs.pop(tid, None)
                    report = False
                else:
                    c2, crash2, prog2, _, xs2 = self.parse(r2.out)
                    xs[tid] = xs2.get(tid, [])
                    sig2, where2 = self.where_died(crash2, prog2)
                    if c2:
                        report = False
                        ctx.count("deaths_not_reproduced_alone")
                    elif any(code != 0 for _, _, code, _ in xs[tid]) or where2 is None or where2[0] != tid or where2[1] < 0:
                        report = False        # again after wrong transfers, of this very type: their consequence
                        ctx.count("deaths_after_wrong_transfers_of_the_type")
                    else:
                        sig, (tid, cnt, pth), err, res = sig2, where2, r2.err or "", r2
            self.xs.update(xs)
            if report:
                self.deaths[tid] = (cnt, pth, self.kind_of(sig, res), sig, err[-300:])
            start = self.index[tid] + 1

    @staticmethod
    def kind_of(sig, res):
        return "crash:sig%d" % sig if sig else ("deadlock" if "eadlock" in (res.err or "") + res.out else "abort")

    def desc_tainted(self, t):
        return any(k.kind != 0 and (k.id in self.tainted or self.desc_tainted(k)) for k in t.kids)

    def judge(self):
        ctx = self.ctx
        for t in self.order:
            m = self.meta.get(t.id)
            w = dict(self.witness, type_id=t.id, type=D.describe(t))
            what0 = "%s  reference: size=%d lb=%d extent=%d%s segments=%s" % (D.describe(t), t.size, t.lb, t.extent,
                                                                              ("|%d" % t.ext1) if t.ext1 != t.extent else "", t.segs[:12])
            masked = self.desc_tainted(t)
            ft = features(t)
            if m is None:
                if t.id in self.deaths and not masked:
                    self.tainted.add(t.id)
                    ctx.violation("C30:create:%s:%s:%s" % (self.deaths[t.id][2], t.name, ft), "the run died in the constructor of " + what0, w)
                continue
            ctx.count("types_checked")
            if m[0] != 0:
                self.tainted.add(t.id)
                if not masked:
                    ctx.violation("C30:create:error:%s:%s" % (t.name, ft), "constructor failed (rc=%d) for %s" % (m[0], what0), w)
                continue
            rc, size, lb, ext, tlb, text = m
            ext_bad = False
            rules = [("size", size, size == t.size)]
            if t.segs:        # the standard defines lb/ub from the entries of the type map: nothing to compare for an empty one
                rules += [("lb", lb, lb == t.lb), ("extent", ext, ext in (t.extent, t.ext1))]
            else:
                ctx.count("empty_typemap_bounds_not_judged")
            for rule, got, ok in rules:
                ctx.count("meta_checks")
                if ok:
                    continue
                self.tainted.add(t.id)
                ext_bad = ext_bad or rule == "extent"
                if masked:
                    ctx.count("masked_by_component")
                    continue
                cause = meta_cause(t, rule)
                key = RC[cause] if cause else "C30:meta:%s:%s:%s" % (rule, t.name, ft)
                ctx.violation(key, "MPI answers %s=%d for %s" % (rule, got, what0), w)
            if t.segs:
                tl = min(o for o, _ in t.segs)
                te = max(o + l for o, l in t.segs) - tl
                if (tlb, text) != (tl, te):
                    ctx.count("true_extent_differs_not_judged")
            # transfers: group the failed checks by count
            fails = {}
            for cnt, path, code, where in self.xs.get(t.id, []):
                ctx.count("transfer_checks")
                if code != 0:
                    fails.setdefault(cnt, []).append((path, code, where))
            death = self.deaths.get(t.id)
            if death and death[0] >= 0:
                fails.setdefault(death[0], []).append((death[1], -1, 0))
            for cnt in {c for c, _, _, _ in self.xs.get(t.id, [])} | set(fails):
                self.observed[(t.id, cnt)] = cnt in fails
            meta_bad = t.id in self.tainted
            for cnt in sorted(fails):
                fl = sorted(fails[cnt])
                if t.size == 0 and cnt >= 1 and any(c == -1 for _, c, _ in fl) and death[3] == 8:
                    cause = "zero-size"
                elif t.kind == 9 and t.args[0] == 1 and meta_bad and cnt >= 1:
                    cause = "subarray-1d"
                else:
                    cause = affected(t, cnt, self.observed)
                if cnt <= 1 or not cause:
                    self.tainted.add(t.id)
                if masked:
                    ctx.count("masked_by_component")
                    continue
                if ext_bad and (cnt > 1 or all(p in (7, 9) for p, _, _ in fl)):
                    ctx.count("consequence_of_wrong_extent")
                    continue
                ps = sorted({p for p, _, _ in fl})
                first = fl[0]
                if first[1] == -1:
                    how = "the run died (%s: %s)" % (death[2], death[4].strip()[-160:])
                    fam = death[2]
                else:
                    how = "%s at byte %d" % (CODES.get(first[1]), first[2])
                    ser = any(p in (2, 4) for p in ps)            # typed -> contiguous bytes
                    unser = any(p in (3, 5) for p in ps)          # contiguous bytes -> typed
                    fam = "+".join(x for x, on in (("serialize", ser), ("unserialize", unser)) if on) or \
                          "only=" + ",".join(PATHS[p] for p in ps)
                key = RC[cause] if cause else "C30:transfer:%s:%s:count=%s:%s" % (t.name, ft, cnt_class(cnt), fam)
                ctx.violation(key, "count=%d through %s: %s (failing paths: %s) for %s" % (
                    cnt, PATHS[first[0]] if first[0] >= 0 else "?", how, ",".join(PATHS[p] for p in ps if p >= 0), what0), w)
            if t.id in self.xs and (len(t.segs) >= 2 or t.extent != t.size):
                ctx.nontrivial("%s/%s" % (t.name, t.args))
            if t.id in self.xs and not fails and not masked:
                ctx.count("types_fully_sound")

    def close(self):
        if os.path.exists(self.path):
            os.unlink(self.path)


def run_random(ctx, exe, tmp, seed, ntrees, name, corrupt=None):
    rng = random.Random(seed)
    g = D.Gen(rng)
    roots = [g.tree(rng.choice([1, 2, 2, 3, 3])) for _ in range(ntrees)]
    b = Batch(ctx, exe, tmp, roots, {"seed": seed, "ntrees": ntrees}, name, corrupt)
    try:
        b.run()
        b.judge()
    finally:
        b.close()
    return roots


def run_directed(ctx, exe, tmp, name, corrupt=None):
    ent = [e for e in DIRECTED if e[0] == name][0]
    root, _ = D.parse(ent[1])
    b = Batch(ctx, exe, tmp, [root], {"directed": name}, "d-" + name, corrupt)
    try:
        b.run()
        b.judge()
    finally:
        b.close()
    ctx.count("directed_types")


def run(ctx):
    n = ctx.size(36, 1500)        # batches
    per = 12
    exe = build.smpicc("mpi/dtype.c", "hooks")
    tmp = tempfile.mkdtemp(prefix="verif-C30-")
    try:
        jobs = [("d", e[0]) for e in DIRECTED] + [("r", i) for i in range(n)]
        mpi.hostfile()

        def one(j):
            if j[0] == "d":
                run_directed(ctx, exe, tmp, j[1])
            else:
                roots = run_random(ctx, exe, tmp, ctx.sub_seed(j[1]) % (1 << 40), per, "b%d" % j[1])
                if j[1] == 0:
                    for r in roots[:3]:
                        ctx.sample({"type": D.describe(r), "size": r.size, "lb": r.lb, "extent": r.extent, "segments": r.segs[:8]})
        ctx.pmap(one, jobs)
    finally:
        mpi.cleanup()
        shutil.rmtree(tmp, ignore_errors=True)


def replay(ctx, w):
    exe = build.smpicc("mpi/dtype.c", "hooks")
    tmp = tempfile.mkdtemp(prefix="verif-C30-")
    try:
        if "directed" in w:
            run_directed(ctx, exe, tmp, w["directed"])
        else:
            run_random(ctx, exe, tmp, w["seed"], w["ntrees"], "replay")
    finally:
        mpi.cleanup()
        shutil.rmtree(tmp, ignore_errors=True)
