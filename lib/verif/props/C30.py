"""C30 Derived datatypes have MPI layout and transfer exactly their bytes."""
import os
import random
import shutil
import tempfile

from verif import build, proc
from verif.gen import mpi, dtype as D

META = {
    "id": "C30", "engine": "E5 smpi programs", "engine_path": "harness/mpi/dtype.c",
    "engine_kind": "generated datatype descriptions interpreted by one MPI harness binary under the real smpirun/SMPI (2 ranks)",
    "level": "exploration",
    "technique": "reference type map computed in Python from the MPI standard's constructor definitions; size/lb/extent compared, "
                 "every transfer path checked byte by byte against the type map (selected bytes arrive, all others keep a guard fill)",
    "level_text": "Random trees of contiguous/vector/hvector/indexed/hindexed/indexed_block/struct/resized/subarray constructors (depth <= 3, "
                  "non-negative displacements, zero counts and block lengths at the root), every node of every tree tested as a type of its own: "
                  "MPI_Type_size and MPI_Type_get_extent against the reference, then counts 0,1,2,3,5 through Sendrecv-to-self, Send/Recv and "
                  "Isend/Irecv typed-typed, typed->bytes and bytes->typed (wire order), Pack, Unpack, Bcast, Gather, Scatter. A failure of a "
                  "composite type is attributed to its deepest failing component.",
    "level_note": "Hooks flavour only (SMPI's dlopen privatisation under ASan reports in the sanitizer's own sigaltstack interceptor), so "
                  "out-of-bounds accesses are only seen through 64-byte guard zones or crashes. The alignment padding of MPI extents is "
                  "implementation-defined: where it matters (roots only) both the padded and the unpadded extent are accepted. "
                  "MPI_Type_get_true_extent is printed but not judged (not in the statement).",
    "rule": "case = one datatype node (constructor + arguments + old types) with its reference type map; non-trivial = a derived type "
            "with >= 2 segments or a non-trivial extent whose tests ran; distinct by constructor arguments",
    "ready": False,
}
PATHS = ["sendrecv-self", "send-recv", "typed-to-bytes", "bytes-to-typed", "pack", "unpack", "bcast", "gather", "isend-irecv", "scatter"]
CODES = {1: "wrong-or-missing", 2: "outside-modified", 3: "mpi-error", 4: "wrong-count"}


def features(t):
    f = []
    cl = sorted({k.cls() for k in t.kids})
    f.append("old=" + (cl[0] if len(cl) == 1 else "mixed"))
    a = t.args
    if t.kind == 9:
        f.append("ndims=%d" % a[0])
    if t.kind == 8 and a[0] != 0:
        f.append("lb>0")
    zero = (t.kind == 1 and a[0] == 0) or (t.kind in (2, 3) and (a[0] == 0 or a[1] == 0)) or \
           (t.kind in (4, 5, 7) and 0 in a[1:1 + a[0]]) or t.size == 0
    if zero:
        f.append("zero")
    return ":".join(f)


def judge_batch(ctx, order, out, witness, complete):
    meta, xs, begun = {}, {}, {}
    crash = None
    for line in out.splitlines():
        p = line.split()
        if not p:
            continue
        try:
            if p[0] == "m":
                meta[int(p[1])] = list(map(int, p[2:8]))
            elif p[0] == "x":
                xs.setdefault(int(p[1]), []).append((int(p[2]), int(p[3]), int(p[4]), int(p[5])))
            elif p[0] == "b":
                begun[int(p[2])] = int(p[3])
            elif p[0] == "CRASH":
                crash = (int(p[1]), int(p[2]), int(p[3]), int(p[4]))
        except (ValueError, IndexError):
            pass
    bad = {}      # type id -> True when something about this node is wrong (used to mask its ancestors)
    byid = {t.id: t for t in order}

    def desc_bad(t):
        return any(k.kind != 0 and (bad.get(k.id) or desc_bad(k)) for k in t.kids)

    for t in order:
        m = meta.get(t.id)
        if m is None:
            continue
        ctx.count("types_checked")
        masked = desc_bad(t)
        what0 = "%s  reference: size=%d lb=%d extent=%d%s segments=%s" % (D.describe(t), t.size, t.lb, t.extent,
                                                                          ("|%d" % t.ext1) if t.ext1 != t.extent else "", t.segs[:12])
        w = dict(witness, type_id=t.id)
        ft = features(t)
        if m[0] != 0:
            bad[t.id] = True
            if not masked:
                ctx.violation("C30:create:error:%s:%s" % (t.name, ft), "constructor failed (rc=%d) for %s" % (m[0], what0), w)
            continue
        rc, size, lb, ext, tlb, text = m
        ext_bad = False
        for rule, got, ok in (("size", size, size == t.size), ("lb", lb, lb == t.lb), ("extent", ext, ext in (t.extent, t.ext1))):
            ctx.count("meta_checks")
            if not ok:
                bad[t.id] = True
                ext_bad = ext_bad or rule == "extent"
                if masked:
                    ctx.count("masked_by_component")
                else:
                    ctx.violation("C30:meta:%s:%s:%s" % (rule, t.name, ft), "MPI answers %s=%d for %s" % (rule, got, what0), w)
        if t.segs:
            tl = min(o for o, _ in t.segs)
            te = max(o + l for o, l in t.segs) - tl
            if (tlb, text) != (tl, te):
                ctx.count("true_extent_differs_not_judged")
        fails = {}
        for cnt, path, code, where in xs.get(t.id, []):
            ctx.count("transfer_checks")
            if code != 0:
                fails.setdefault(path, []).append((cnt, code, where))
        if fails:
            bad[t.id] = True
            allf = sorted((c, p_, code, where) for p_, l in fails.items() for c, code, where in l)
            cnt = allf[0][0]
            if masked:
                ctx.count("masked_by_component")
            elif ext_bad and cnt > 1:
                ctx.count("consequence_of_wrong_extent")
            else:
                ser = any(p_ in (2, 4) for p_ in fails)           # typed -> contiguous bytes
                unser = any(p_ in (3, 5) for p_ in fails)         # contiguous bytes -> typed
                fam = "+".join(x for x, on in (("serialize", ser), ("unserialize", unser)) if on) or \
                      "only=" + ",".join(PATHS[p_] for p_ in sorted(fails))
                codes = sorted({CODES.get(code, "?") for _, p_, code, _ in allf if code != 1}) or ["wrong-or-missing"]
                first = allf[0]
                ctx.violation("C30:transfer:%s:%s:count=%s:%s" % (t.name, ft, "0" if cnt == 0 else "1" if cnt == 1 else "n", fam),
                              "count=%d through %s: %s at byte %d (failing paths: %s; failing counts %s; kinds %s) for %s" % (
                                  cnt, PATHS[first[1]], CODES.get(first[2]), first[3], ",".join(PATHS[p_] for p_ in sorted(fails)),
                                  sorted({c for c, _, _, _ in allf}), codes, what0), w)
        if t.id in xs and len(t.segs) >= 2 or (t.id in xs and t.extent != t.size):
            ctx.nontrivial("%s/%s" % (t.name, t.args))
    return crash, begun, bad


def run_batch(ctx, exe, tmp, seed, ntrees, name):
    rng = random.Random(seed)
    g = D.Gen(rng)
    roots = [g.tree(rng.choice([1, 2, 2, 3, 3])) for _ in range(ntrees)]
    order, text = D.case_lines(roots)
    path = os.path.join(tmp, name + ".case")
    with open(path, "w") as f:
        f.write(text)
    witness = {"seed": seed, "ntrees": ntrees}
    skip = []
    for attempt in range(6):
        res = mpi.smpirun(exe, 2, [path] + skip, timeout=300)
        ctx.evaluation()
        if res.timed_out:
            ctx.inconclusive("smpirun watchdog")
            break
        complete = res.out.count("DONE ") == 2
        crash, begun, bad = judge_batch(ctx, order, res.out, witness, complete) if attempt == 0 or True else (None, {}, {})
        if complete:
            break
        # the run died: attribute it to the type under test and run the rest again without it
        if crash:
            sig, tid, cnt, pth = crash
        else:
            tid = max(begun) if begun else None
            sig, cnt, pth = 0, begun.get(tid, -1) if begun else -1, -1
        if tid is None or str(tid) in skip:
            ctx.violation("C30:abort:unattributed", "smpirun rc=%s: %s" % (res.rc, (res.err or res.out)[-300:]), witness)
            break
        t = {x.id: x for x in order}[tid]
        comp_bad = any(k.kind != 0 and bad.get(k.id) for k in D.nodes(t) if k is not t)
        if not comp_bad:
            kind = "crash:sig%d" % sig if crash else ("deadlock" if "Deadlock" in res.err + res.out else "abort")
            ctx.violation("C30:transfer:%s:%s:count=%s:%s" % (t.name, features(t), "0" if cnt == 0 else "1" if cnt == 1 else "n", kind),
                          "the run died (%s) while moving count=%d of %s: %s" % (kind, cnt, D.describe(t), (res.err or "")[-300:]),
                          dict(witness, type_id=tid))
        else:
            ctx.count("masked_by_component")
        skip.append(str(tid))
    os.unlink(path)


def run(ctx):
    n = ctx.size(40, 1500)        # batches
    per = 12
    exe = build.smpicc("mpi/dtype.c", "hooks")
    tmp = tempfile.mkdtemp(prefix="verif-C30-")
    try:
        ctx.pmap(lambda i: run_batch(ctx, exe, tmp, ctx.sub_seed(i) % (1 << 40), per, "b%d" % i), range(n))
    finally:
        mpi.cleanup()
        shutil.rmtree(tmp, ignore_errors=True)


def replay(ctx, w):
    exe = build.smpicc("mpi/dtype.c", "hooks")
    tmp = tempfile.mkdtemp(prefix="verif-C30-")
    try:
        run_batch(ctx, exe, tmp, w["seed"], w["ntrees"], "replay")
    finally:
        mpi.cleanup()
        shutil.rmtree(tmp, ignore_errors=True)
