"""C15 Sharing solvers never exceed capacities."""
from verif import build, proc
from verif.core import HarnessFailure
from verif.gen import lmm

META = {
    "id": "C15", "engine": "E2 lmm_fuzz", "engine_path": "harness/lmm_fuzz.cpp",
    "engine_kind": "direct driver of kernel::lmm::System with monitors after every solve/modification",
    "level": "exploration",
    "technique": "capacity/bound/penalty-0 invariants after every solve of random modification histories (selective system and fresh rebuild), maxmin and fairbottleneck, with and without concurrency limits, plain+ASan",
    "level_text": "After every solve() of generated histories (create/expand/free variables, change penalties incl. 0, bounds, capacities; "
                  "20% fat-pipe constraints; weights 0.05/1/random; optional concurrency limits) the harness recomputes from its own "
                  "bookkeeping the weighted sum (shared) or maximum (fat-pipe) per constraint and compares with the capacity at the solver's "
                  "own 1e-5 relative precision, and checks 0<=rate<=bound and rate 0 for disabled variables, on the selectively updated "
                  "system and on a fresh rebuild. Sampled, not exhaustive.",
    "level_note": "fairbottleneck is run mostly on systems without fat-pipes (plus a small fat-pipe batch that re-finds the known finding; it also converges so slowly there that a 90 s watchdog may cut the batch short = inconclusive). bmf is not exercised (it aborts with its explicit 'Unable to find a BMF allocation' on these generated systems within 2 "
                  "iterations when driven without an Engine); dynamic-capacity callbacks are not exercised. Harness bookkeeping of weights "
                  "(sum for shared, max for fat-pipe on repeated expand) is trusted.",
    "rule": "case = one history of 40 steps (seed,solver,limit,index); non-trivial = history with >=1 solve where >=2 variables got a positive rate",
    "ready": True,
}

# (solver, limit, nofat, scale of the number of histories)
CONFIGS = [("maxmin", -1, False, 1.0), ("maxmin", 3, False, 1.0), ("fairbottleneck", -1, True, 0.5), ("fairbottleneck", -1, False, 0.04)]


def judge(ctx, out, seed, nhist, limit, solver, fl, nofat=False):
    for e in out["events"]:
        if e["kind"] not in ("CAP", "NEG", "OVERBOUND", "PEN0"):
            continue
        fat = ":fatpipe" if "fat=1" in e["rest"] else (":shared" if e["kind"] == "CAP" else "")
        key = "C15:%s:%s%s:%s" % (e["kind"], solver, fat, "fresh" if e["sys"] == "B" else "history")
        ctx.violation(key, "%s solver, history %d step %d (seed %d, limit %d): %s system %s"
                      % (solver, e["h"], e["step"], seed, limit, "fresh" if e["sys"] == "B" else "selective", e["kind"] + " " + e["rest"]),
                      dict(lmm.witness(seed, nhist, limit, solver, fl, e), nofat=nofat))


def run(ctx):
    nhist = ctx.size(800, 10000)
    jobs = []
    for fl in ("hooks", "asan"):
        build.harness("lmm_fuzz.cpp", fl, internal=True)
        for solver, limit, nofat, sc in CONFIGS:
            for part in range(ctx.size(1, 4) if fl == "hooks" else 1):
                n = max(20, int((nhist if fl == "hooks" else nhist // 5) * sc))
                jobs.append((fl, ctx.sub_seed(solver, limit, part) % 1000003, n, limit, solver, nofat))

    def one(j):
        fl, seed, n, limit, solver, nofat = j
        res = lmm.run_fuzz(ctx, fl, seed, n, limit, solver, nofat=nofat, timeout=90 if (solver == "fairbottleneck" and not nofat) else 600)
        out = lmm.parse(res)
        if res.timed_out:
            # fairbottleneck with fat-pipes converges extremely slowly on some systems (same defect as the known finding): what
            # was printed before the watchdog is still judged, the rest is inconclusive
            ctx.inconclusive("lmm_fuzz watchdog (%s%s)" % (solver, "" if nofat else "+fatpipe"))
            judge(ctx, out, seed, n, limit, solver, fl)
            return
        if not out["complete"]:
            reps = proc.sanitizer_reports(res.err)
            ctx.violation("C15:crash:%s:limit%s" % (solver, "on" if limit > 0 else "off"), "lmm_fuzz died rc=%s (seed %d): %s" % (res.rc, seed, reps[:1] or res.err[-400:]),
                          {"seed": seed, "nhist": n, "limit": limit, "solver": solver, "flavour": fl})
            return
        judge(ctx, out, seed, n, limit, solver, fl, nofat)
        for h, (solves, multi, staged) in out["hist"].items():
            ctx.evaluation()
            if multi > 0:
                ctx.nontrivial("%s|%d|%d|%d" % (solver, limit, seed, h))
        ctx.count("solves.%s" % solver, int(out["sum"]["solves"]))
        ctx.count("rates_checked", int(out["sum"]["vars_checked"]))
        ctx.count("runs." + fl)
    ctx.pmap(one, jobs)
    ctx.sample({"solver": jobs[0][4], "limit": jobs[0][3], "seed": jobs[0][1], "histories": jobs[0][2], "steps_per_history": 40,
                "how_to_print": "TRACE_H=<h> lmm_fuzz <seed> <histories> <limit> <solver>"})


def replay(ctx, w):
    res = lmm.run_fuzz(ctx, w["flavour"], w["seed"], w["nhist"], w["limit"], w["solver"], trace_h=w["hist"], nofat=w.get("nofat", False))
    out = lmm.parse(res)
    print("\n".join(out["trace"]))
    judge(ctx, out, w["seed"], w["nhist"], w["limit"], w["solver"], w["flavour"])
    ctx.evaluation()
