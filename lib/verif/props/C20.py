"""C20 Isolated activities follow the documented formulas."""
import math
import shutil
import tempfile

from verif import build, core, proc
from verif.gen import iso
from verif.oracles import models_doc as doc

META = {
    "id": "C20", "engine": "E1 s4u harness (isolated activities)", "engine_path": "harness/iso.cpp",
    "engine_kind": "S4U program building a generated platform through the C++ platform API and running generated activities one at a time; python reference",
    "level": "exploration",
    "technique": "closed-form reference differential: every activity duration compared with an independent Python transcription of Models.rst / Configuring_SimGrid.rst",
    "level_text": "Platforms (3-6 hosts with 1-3 pstates and 1-16 cores, 4-14 links shared / fatpipe / split-duplex with latencies 0..1 s and "
                  "bandwidths 1e3..1e12, symmetric and asymmetric routes of 1-8 links, disks) are generated as plain numbers and built through "
                  "NetZone::add_host/add_link/add_split_duplex_link/add_route/Host::add_disk. One actor then runs the generated activities one "
                  "after the other (exec with pstate and bound, sleep, direct host-to-host comm, loopback comm, disk read/write, pure-computation "
                  "ptask under host/model:ptask_L07) and the harness prints the clock before/after and the activity's start/finish time. The Python "
                  "reference (lib/verif/oracles/models_doc.py) is written from the documentation only: W/min(S_pstate,bound); d; "
                  "lat*lat_factor(size) + size/(bw_factor(size)*min(share, gamma/(2 lat))) with share = min over link constraints of bw/(1 [+0.05 "
                  "if cross-traffic and the reverse route uses the same constraint]), the defaults of raw/CM02/LV08/SMPI, interval factors with the "
                  "semantics documented by the tree under test (the sentence of Configuring_SimGrid.rst explaining 0:1;1000:2;5000:3 is parsed: [b_i, b_i+1) today), TCP-gamma 0 / default / custom, cross-traffic on/off, custom constant and interval factors; "
                  "size/read_bw|write_bw; max flops_i/speed_i. Tolerance: precision/timing (1e-9 s) plus 1e-12 relative to the clock (rounding of "
                  "the double clock).",
    "level_note": "Where the documentation is ambiguous both readings are accepted and counted: bandwidth factor x TCP window when the window is the "
                  "limit and the factor is not 1 (size/(factor*window), 'the size of your message is increased by a few percents', or the statement's "
                  "literal size/min(bw*factor, window); counters points.gamma_limited_two_readings, gamma_limited.observed_matches.*). Every run first "
                  "checks that the reference reproduces the numbers printed in Models.rst (0.996079, 1, 1.00001, 4.77, 476.84+0.1, 0.81) and runs "
                  "directed cases on the platform of Models.rst (sizes 0, 1, every interval boundary -1/0/+1, loopback, exec, sleep, I/O). Multi-threaded execs (set_thread_count) are not "
                  "judged (the documentation of their cost is ambiguous). ptask_L07 runs in its own processes and only ptasks of pure computation, "
                  "sequential execs, sleeps and I/Os are judged there. 10% of the processes also run under ASan+UBSan.",
    "rule": "point = one isolated activity on one generated platform under one model configuration; non-trivial = distinct (configuration, kind, "
            "regime, route length / bound / pstate class) classes whose duration was compared with the reference",
    "assumptions": ["the documented formula is evaluated in double precision; 1e-12 relative to the simulated clock is allowed for rounding on top of precision/timing"],
    "ready": True,
}

PREC_TIMING = 1e-9      # documented precision/timing
REL = 1e-12             # rounding of the double clock (ulp = 2.2e-16 relative), a few operations

DOC_EXAMPLE_LAT = "0:1;1000:2;5000:3"             # the very example of Configuring_SimGrid.rst
DOC_EXAMPLE_BW = "0:1;1000:0.5;5000:0.25"


def configs(rng):
    """(name, command-line flags, documented parameters) ; None parameters = ptask_L07 process."""
    g = rng.choice([65536.0, 1e6, 2.0 ** 22, 1e9, 20000.0])
    lf = float("%.4g" % iso.logu(rng, 0.5, 20))
    bf = float("%.4g" % iso.logu(rng, 0.2, 1.5))
    out = []

    def add(name, model, flags, **over):
        prm = dict(doc.MODEL_DEFAULTS[model])
        prm.update(over)
        fl = (["--cfg=network/model:%s" % model] if model != "LV08" else []) + flags
        out.append((name, fl, prm))
    add("raw", "raw", [])
    add("CM02", "CM02", [])
    add("CM02:gamma0", "CM02", ["--cfg=network/TCP-gamma:0"], gamma=0.0)
    add("CM02:noct", "CM02", ["--cfg=network/crosstraffic:0"], crosstraffic=False)
    add("LV08", "LV08", [])
    add("LV08:noct", "LV08", ["--cfg=network/crosstraffic:0"], crosstraffic=False)
    add("LV08:gamma0", "LV08", ["--cfg=network/TCP-gamma:0"], gamma=0.0)
    add("LV08:gammaX", "LV08", ["--cfg=network/TCP-gamma:%r" % g], gamma=g)
    add("SMPI", "SMPI", [])
    add("SMPI:noct:gamma0", "SMPI", ["--cfg=network/crosstraffic:0", "--cfg=network/TCP-gamma:0"], crosstraffic=False, gamma=0.0)
    add("LV08:factors", "LV08", ["--cfg=network/latency-factor:%r" % lf, "--cfg=network/bandwidth-factor:%r" % bf],
        lat_factor=repr(lf), bw_factor=repr(bf))
    add("CM02:intervals", "CM02", ["--cfg=network/latency-factor:%s" % DOC_EXAMPLE_LAT, "--cfg=network/bandwidth-factor:%s" % DOC_EXAMPLE_BW],
        lat_factor=DOC_EXAMPLE_LAT, bw_factor=DOC_EXAMPLE_BW)
    out.append(("L07", ["--cfg=host/model:ptask_L07"], None))
    return out


_SEM = {}


def semantics():
    """Closed end of the intervals of interval-based factors, as documented by the tree under test (VERIF_REPO)."""
    if "v" not in _SEM:
        v = doc.interval_semantics(build.REPO)
        if v is None:
            raise core.HarnessFailure("C20: the sentence of docs/source/Configuring_SimGrid.rst that defines interval-based factors "
                                      "(example 0:1;1000:2;5000:3) was not found or not understood in %s: re-read the documentation and "
                                      "update verif.oracles.models_doc.interval_semantics" % build.REPO)
        _SEM["v"] = v
    return _SEM["v"]


def expected(p, op, prm):
    """-> (acceptable durations, class string, extra info)."""
    k = op["k"]
    if k == "E":
        h = [h for h in p["hosts"] if h["name"] == op["host"]][0]
        sp = h["speeds"][op["pstate"]]
        cls = "exec:%s:%s:%s" % ("pstate0" if op["pstate"] == 0 else "pstateN", "multicore" if h["cores"] > 1 else "1core",
                                 "unbound" if op["bound"] <= 0 else ("bound<speed" if op["bound"] < sp else "bound>=speed"))
        return [doc.exec_time(op["flops"], sp, op["bound"])], cls, {}
    if k == "S":
        return [op["d"]], "sleep:%s" % ("zero" if op["d"] == 0 else "sub-precision" if op["d"] < PREC_TIMING else "plain"), {}
    if k == "I":
        d = [d for d in p["disks"] if d["name"] == op["disk"]][0]
        return [doc.io_time(op["size"], d["rbw"], d["wbw"], op["rw"])], "io:%s" % ("read" if op["rw"] == "R" else "write"), {}
    if k == "P":
        parts = []
        for hn, f in op["parts"]:
            h = [h for h in p["hosts"] if h["name"] == hn][0]
            parts.append((f, h["speeds"][0]))
        return [doc.ptask_time(parts)], "ptask:%dparts:%s" % (len(parts), "with-zero" if any(f == 0 for f, _ in parts) else "all-positive"), {}
    if k == "C":
        links = {l["name"]: l for l in p["links"]}
        params = {"lf": doc.Factor(prm["lat_factor"], semantics()), "bf": doc.Factor(prm["bw_factor"], semantics()), "gamma": prm["gamma"]}
        if op["src"] == op["dst"]:
            fwd = [("loopback", doc.LOOPBACK_BW, "F")]
            back = fwd
            lat = doc.LOOPBACK_LAT
            shape = "loopback"
        else:
            rt = iso.route_tables(p)

            def cons(route):
                return [((n, d), links[n]["bw"], "F" if links[n]["pol"] == "F" else "S") for n, d in route]
            fr, br = rt[(op["src"], op["dst"])], rt[(op["dst"], op["src"])]
            fwd, back = cons(fr), cons(br)
            lat = 0.0
            for n, _ in fr:        # same order of summation as a left-to-right walk of the route
                lat += links[n]["lat"]
            shape = "len%s:%s" % (len(fr) if len(fr) < 3 else "3+", "".join(sorted(set(links[n]["pol"] for n, _ in fr))))
        cap = doc.comm_caps(fwd, back, prm["crosstraffic"])
        exp, regime = doc.comm_time(op["size"], lat, cap, params)
        onb = op["size"] in params["lf"].boundaries() or op["size"] in params["bf"].boundaries()
        info = {"lat": lat, "cap": cap, "lf": params["lf"](op["size"]), "bf": params["bf"](op["size"]), "on_boundary": onb}
        if onb:
            p2 = {"lf": params["lf"].other_reading, "bf": params["bf"].other_reading, "gamma": prm["gamma"]}
            info["other_reading"] = doc.comm_time(op["size"], lat, cap, p2)[0]
        return exp, "comm:%s:%s%s" % (regime, shape, ":on-boundary" if onb else ""), info
    raise ValueError(k)


def close(obs, exp, clock):
    return abs(obs - exp) <= PREC_TIMING + REL * max(abs(clock), abs(exp))


def run_process(flavour, flags, p, ops, timeout=300):
    exe = build.harness("iso.cpp", flavour, deps=["plat.hpp"])
    text = "\n".join(iso.platform_text(p) + [iso.op_text(o) for o in ops]) + "\n"
    return proc.run([exe, "--log=root.thres:critical"] + flags, stdin=text, timeout=timeout)


def judge(ctx, cfgname, flags, prm, flavour, p, ops, res, directed=False):
    """Compare every printed record with the reference. Returns the number of judged points."""
    w0 = {"flavour": flavour, "cfg": cfgname, "flags": flags, "params": prm, "platform": p}
    if res.timed_out:
        ctx.inconclusive("iso harness watchdog")
        return 0
    recs = [l.split() for l in res.out.splitlines() if l and l[0].isdigit()]
    done = len(recs)
    if res.rc != 0 or "END %d" % len(ops) not in res.out:
        bad = ops[min(done, len(ops) - 1)]
        san = proc.sanitizer_reports(res.err)
        ctx.violation("C20:crash:%s:%s" % (cfgname.split(":")[0], bad["k"]),
                      "iso harness died rc=%s during activity #%d %r under %s: %s" % (res.rc, done, bad, cfgname, san[:1] or res.err[-400:]),
                      dict(w0, ops=[bad]))
    n = 0
    for rec, op in zip(recs, ops):
        t0, t1, st, ft = (float(x) for x in rec[2:6])
        ctx.evaluation()
        n += 1
        exp, cls, info = expected(p, op, prm if prm else doc.MODEL_DEFAULTS["LV08"])
        ctx.count("points." + op["k"])
        durs = [("clock", t1 - t0)]
        if st >= 0:
            durs.append(("activity", ft - st))
        ok = all(any(close(d, e, t1) for e in exp) for _, d in durs)
        if "gamma-limited" in cls and len(exp) > 1:
            # exp[0]: size/(bw_factor*window) ("the size of your message is increased by a few percents");  exp[1]: size/min(bw*bw_factor, window)
            ctx.count("points.gamma_limited_two_readings")
            if ok:
                ctx.count("gamma_limited.observed_matches." + ("message-inflated-reading" if close(durs[0][1], exp[0], t1) else "min(bw*factor,window)-reading"))
        err = max(min(abs(d - e) for e in exp) for _, d in durs)
        if ok:
            ctx.maximum("held.worst_err_over_tolerance", err / (PREC_TIMING + REL * max(abs(t1), abs(exp[0]))))
            if err > 0:
                ctx.maximum("held.worst_err_relative_to_clock", err / max(abs(t1), abs(exp[0]), 1e-300) if exp[0] > 1e-3 else 0.0)
        if ok:
            ctx.nontrivial("%s|%s" % (cfgname, cls))
            continue
        key = "C20:%s:%s" % (cfgname.split(":")[0] if op["k"] == "C" else ("L07" if prm is None else "any"), cls)
        what = ("%s under %s: documented duration %s, observed %r (clock) / %r (activity timestamps); %s; activity %r"
                % (op["k"], cfgname, "/".join(repr(e) for e in exp), durs[0][1], durs[-1][1], info, op))
        if op["k"] == "C" and info.get("on_boundary") and all(any(close(d, e, t1) for e in info["other_reading"]) for _, d in durs):
            key = "C20:comm:factor-interval-boundary"
            what = ("size %r is a boundary of the interval factors (%s): the documentation of this tree says that a boundary belongs to the "
                    "interval that %s ('%s'), the observed duration %r is the one of the other reading (documented value %r; latency factor "
                    "%r, bandwidth factor %r)"
                    % (op["size"], cfgname, "starts there" if semantics() == "lower" else "ends there",
                       "[b_i, b_i+1)" if semantics() == "lower" else "(b_i, b_i+1]", durs[0][1], exp[0], info["lf"], info["bf"]))
        ctx.violation(key, what, dict(w0, ops=[op]))
    return n


DIRECTED_PLATFORM = {
    "hosts": [{"name": "h%d" % i, "cores": 1, "speeds": [1e9]} for i in range(6)],
    "links": [{"name": "l0", "bw": 1e6, "lat": 0.01, "pol": "S"},       # the platform of Models.rst, LV08 section (1MBps, 10ms)
              # Models.rst, CM02 section: 1e10 bytes over a 1e10 B/s link "that is otherwise unused", latency 0 / 1e-5 / 1e-3 / 0.1
              {"name": "g0", "bw": 1e10, "lat": 0.0, "pol": "D"}, {"name": "g1", "bw": 1e10, "lat": 1e-5, "pol": "D"},
              {"name": "g2", "bw": 1e10, "lat": 1e-3, "pol": "D"}, {"name": "g3", "bw": 1e10, "lat": 0.1, "pol": "D"}],
    "routes": [{"src": "h0", "dst": "h1", "sym": 1, "links": [("l0", "N")]}] +
              [{"src": "h0", "dst": "h%d" % (i + 2), "sym": 1, "links": [("g%d" % i, "U")]} for i in range(4)],
    "disks": [{"host": "h0", "name": "d0", "rbw": 1e8, "wbw": 5e7}],
}
# sizes around every boundary of the SMPI defaults and of the example of Configuring_SimGrid.rst, 0, 1, and the 100kB of Models.rst
DIRECTED_SIZES = [800000, 0, 1, 999, 1000, 1001, 4999, 5000, 5001] + [b + d for b in iso.SMPI_BOUNDS for d in (-1, 0, 1)]
DIRECTED_OPS = ([{"k": "C", "src": "h0", "dst": "h1", "size": float(s)} for s in DIRECTED_SIZES] +
                [{"k": "C", "src": "h1", "dst": "h0", "size": 800000.0}, {"k": "C", "src": "h1", "dst": "h1", "size": 1e9}] +
                [{"k": "E", "host": "h0", "pstate": 0, "bound": -1.0, "flops": 1e9}, {"k": "E", "host": "h0", "pstate": 0, "bound": 2.5e8, "flops": 1e9},
                 {"k": "S", "d": 0.0}, {"k": "S", "d": 1e-9}, {"k": "S", "d": 1.5},
                 {"k": "I", "disk": "d0", "rw": "R", "size": 10 ** 8}, {"k": "I", "disk": "d0", "rw": "W", "size": 10 ** 8}] +
                [{"k": "C", "src": "h0", "dst": "h%d" % (i + 2), "size": 1e10} for i in range(4)])


def oracle_reproduces_documentation():
    """The numbers printed in Models.rst must come out of the transcription (otherwise the reference, not SimGrid, is wrong)."""
    def t(model, size, src, dst, **over):
        prm = dict(doc.MODEL_DEFAULTS[model], **over)
        return expected(DIRECTED_PLATFORM, {"k": "C", "src": src, "dst": dst, "size": size}, prm)[0][0]
    checks = [
        (t("LV08", 800000.0, "h0", "h1"), 0.996079, 5e-7),      # '0.01 * 13.01 + 800000 / ((0.97 * 1e6) / 1.05) =  0.996079 seconds'
        (t("CM02", 1e10, "h0", "h2"), 1.0, 0),                    # 'If the link latency is 0, the communication, expectedly, takes one second'
        (t("CM02", 1e10, "h0", "h3"), 1.00001, 1e-12),            # 'the communication takes 1.00001s'
        (t("CM02", 1e10, "h0", "h4"), 4.77, 5e-3),                # 'takes about 4.77s'
        (t("CM02", 1e10, "h0", "h5"), 476.84 + 0.1, 5e-3),        # 'takes about 476.84 + 0.1 seconds'
        (t("raw", 800000.0, "h0", "h1"), 0.81, 1e-15),            # '0.01 + 8e5/1e6 = 0.81'
        (doc.Factor("0:1;1000:2;5000:3", "lower")(1000), 2.0, 0), (doc.Factor("0:1;1000:2;5000:3", "lower")(999), 1.0, 0),
        (doc.Factor("0:1;1000:2;5000:3", "lower")(5000), 3.0, 0), (doc.Factor("0:1;1000:2;5000:3", "upper")(5000), 2.0, 0),
        (doc.Factor(doc.SMPI_LAT, "lower")(256), 2.01467, 0),     # 'a message smaller than 257 bytes will get a latency multiplier of 2.01467'
        (doc.Factor(doc.SMPI_LAT, "lower")(20000), 3.48845, 0), (doc.Factor(doc.SMPI_LAT, "upper")(20000), 3.48845, 0),
    ]
    for i, (got, want, tol) in enumerate(checks):
        if not abs(got - want) <= tol:
            raise core.HarnessFailure("C20: the reference does not reproduce documented example #%d: %r instead of %r" % (i, got, want))


def run(ctx):
    nplat = ctx.size(3, 100)          # platforms per configuration
    nops = 120                        # activities per process
    tmp = tempfile.mkdtemp(prefix="verif-C20-")
    try:
        ctx.count("interval_factors.documented_closed_end." + semantics())
        oracle_reproduces_documentation()
        for fl in ("hooks", "asan"):
            build.harness("iso.cpp", fl, deps=["plat.hpp"])
        jobs = []
        cfgs = configs(ctx.sub_rng("cfg"))
        for ci, (name, flags, prm) in enumerate(cfgs):
            if prm is not None:
                jobs.append((name, flags, prm, "hooks", DIRECTED_PLATFORM, DIRECTED_OPS, True))
            for pi in range(nplat):
                rng = ctx.sub_rng("case", name, pi)
                p = iso.platform(rng, small_lat=(pi % 2 == 1))
                extra = [1000, 5000] if "intervals" in name else []
                ops = iso.ops(rng, p, nops, l07=(prm is None), extra_bounds=extra)
                # small durations first: the clock stays small while they are measured
                ops.sort(key=lambda o: expected(p, o, prm if prm else doc.MODEL_DEFAULTS["LV08"])[0][0])
                jobs.append((name, flags, prm, "hooks", p, ops, False))
                if pi % 25 == 0:      # ASan+UBSan: process start and context switches are slow, fewer and shorter processes
                    jobs.append((name, flags, prm, "asan", p, ops[::3], False))
        ctx.sample({"cfg": jobs[0][0], "platform": iso.platform_text(DIRECTED_PLATFORM), "ops": [iso.op_text(o) for o in DIRECTED_OPS]})
        ctx.sample({"cfg": jobs[1][0], "flags": jobs[1][1], "platform": iso.platform_text(jobs[1][4]), "ops": [iso.op_text(o) for o in jobs[1][5][:12]]})

        def one(j):
            name, flags, prm, fl, p, ops, directed = j
            res = run_process(fl, flags, p, ops)
            ctx.count("processes." + fl)
            judge(ctx, name, flags, prm, fl, p, ops, res, directed)
        ctx.pmap(one, jobs)
    finally:
        shutil.rmtree(tmp, ignore_errors=True)


def replay(ctx, w):
    p = w["platform"]
    for r in p["routes"]:           # JSON turned the (link, direction) pairs into lists
        r["links"] = [tuple(x) for x in r["links"]]
    for o in w["ops"]:
        if o["k"] == "P":
            o["parts"] = [tuple(x) for x in o["parts"]]
    res = run_process(w["flavour"], w["flags"], p, w["ops"])
    judge(ctx, w["cfg"], w["flags"], w["params"], w["flavour"], p, w["ops"], res)
