"""C16 Max-min allocations are fair (exact rational reference)."""
import multiprocessing
from fractions import Fraction as F

from verif import build, proc
from verif.gen import lmm

META = {
    "id": "C16", "engine": "E2 lmm_fuzz", "engine_path": "harness/lmm_fuzz.cpp",
    "engine_kind": "direct driver of kernel::lmm::System with monitors after every solve/modification",
    "level": "exploration",
    "technique": "exact rational weighted progressive-filling reference (fractions.Fraction) compared with the maxmin solver on freshly built random systems",
    "level_text": "Every fresh system dumped by the fuzzer (<=5 constraints incl. fat-pipes, <=~12 variables, penalties incl. 0, bounds, "
                  "weights 0.05/1/random) is solved by the real maxmin solver and by an independent exact implementation of weighted max-min "
                  "fairness (levels lambda with rate = lambda/penalty; a shared constraint saturates when the weighted sum reaches its "
                  "capacity, a fat-pipe when its largest weighted rate does, a variable freezes at its bound); every rate must agree at "
                  "1e-5 relative (the configured precision). The unique max-min allocation is therefore checked, which implies the "
                  "bottleneck characterisation of the statement.",
    "level_note": "bmf half of the statement is not decided (solver aborts on the generated systems, see C15 note): only maxmin is claimed here. "
                  "Systems whose two closest filling levels differ by less than 1e-4 relative are counted as statement-ambiguous and not compared.",
    "rule": "case = one dumped system; non-trivial = distinct systems with >=2 enabled variables and >=2 distinct filling levels in the exact solution",
    "ready": True,
}


def _solve_one(d):
    cons = [(F(b), f) for b, f in d["cons"]]
    vars_ = [(F(p), F(b), [F(x) for x in w]) for p, b, w in d["vars"]]
    exp, levels = lmm.exact_maxmin(cons, vars_)
    lv = sorted(set(levels))
    gap = min([float((b - a) / b) for a, b in zip(lv, lv[1:])] or [1.0])
    worst, bad = 0.0, None
    for i, (r, e) in enumerate(zip(d["res"], exp)):
        e = float(e)
        err = abs(r - e) / max(1.0, abs(e))
        if err > worst:
            worst, bad = err, (i, r, e)
    en = sum(1 for p, b, w in vars_ if p > 0 and any(x > 0 for x in w))
    return (d["h"], d["step"], worst, bad, gap, len(lv), en)


def run(ctx):
    nhist = ctx.size(500, 5000)
    seeds = [ctx.sub_seed(i) % 1000003 for i in range(ctx.size(2, 8))]
    build.harness("lmm_fuzz.cpp", "hooks", internal=True)
    dumps = []
    for seed in seeds:
        res = lmm.run_fuzz(ctx, "hooks", seed, nhist, -1, "maxmin", dump=True)
        if res.timed_out:
            ctx.inconclusive("lmm_fuzz watchdog")
            continue
        out = lmm.parse(res)
        if not out["complete"]:
            ctx.violation("C16:crash:maxmin", "lmm_fuzz died rc=%s (seed %d): %s" % (res.rc, seed, res.err[-400:]), {"seed": seed, "nhist": nhist})
            continue
        for d in out["dumps"]:
            d["seed"] = seed
        dumps += out["dumps"]
    if dumps:
        ctx.sample({"constraints(bound,fatpipe)": dumps[0]["cons"], "variables(penalty,bound,weights)": dumps[0]["vars"], "solver_rates": dumps[0]["res"]})
    with multiprocessing.Pool(min(16, multiprocessing.cpu_count())) as pool:
        results = pool.map(_solve_one, dumps, chunksize=64)
    for d, (h, step, worst, bad, gap, nlev, en) in zip(dumps, results):
        ctx.evaluation()
        if gap < 1e-4:
            ctx.count("ambiguous_close_levels")
            continue
        ctx.maximum("worst_rel_err", worst)
        if worst > 1e-5:
            i, r, e = bad
            ctx.violation("C16:not-maxmin-fair:maxmin", "seed %d history %d step %d: variable %d gets %.10g, exact weighted max-min fair rate is %.10g "
                          "(system: %r / %r)" % (d["seed"], h, step, i, r, e, d["cons"], d["vars"]), {"system": d})
        elif en >= 2 and nlev >= 2:
            ctx.nontrivial({"c": d["cons"], "v": d["vars"]})
        ctx.count("systems_compared")


def replay(ctx, w):
    d = w["system"]
    seed = d["seed"]
    res = lmm.run_fuzz(ctx, "hooks", seed, d["h"] + 1, -1, "maxmin", dump=True)
    out = lmm.parse(res)
    for x in out["dumps"]:
        if x["h"] == d["h"] and x["step"] == d["step"]:
            x["seed"] = seed
            h, step, worst, bad, gap, nlev, en = _solve_one(x)
            ctx.evaluation()
            if worst > 1e-5 and gap >= 1e-4:
                ctx.violation("C16:not-maxmin-fair:maxmin", "still differs: %r" % (bad,), {"system": x})
