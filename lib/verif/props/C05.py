"""C05 Semaphore semantics: token conservation, FIFO, timeouts (S4U leg, real scheduler)."""
from verif import build, proc
from verif.gen import sync as G
from verif.oracles import sync as O

META = {
    "id": "C05", "engine": "E1 s4u harness (semaphore scripts)", "engine_path": "harness/sync.cpp",
    "engine_kind": "S4U program executing generated per-actor scripts on the real kernel, python sequential model over the recorded history",
    "level": "exploration",
    "technique": "boundary-recorded call/return history of acquire/acquire_timeout/release/get_capacity checked against a sequential semaphore "
                 "model (value, FIFO queue with deadlines) replayed in request order; capacity compared after every scheduling round",
    "level_text": "2-5 actors run generated scripts (acquire, acquire_timeout with timeouts of 0/1e-12/1-4 time units, release, get_capacity, sleeps "
                  "of 1-3 units, yields, occasionally Actor::kill of an actor blocked in an acquire) on 1-3 semaphores of capacity 0-3. The time unit is "
                  "2^-10 s, so releases fall exactly on deadlines, in the same scheduling round or one round apart. Calls are logged before the call "
                  "and after the return; the kernel is sequential, so the order of the request lines is the order in which it handled them. The model "
                  "replays them: a request takes a free token or queues FIFO with its deadline, a release hands a token to the queue head or raises the "
                  "value, a waiter whose deadline passed leaves the queue without a token. Every return is checked (acquired only with a model token "
                  "in FIFO order; timeout only if no token reached it by the deadline, and not before the deadline); get_capacity() read by actors and "
                  "by a quiescent-point hook after every scheduling round must equal capacity+releases-grants whenever nobody waits; at the end every "
                  "blocked actor must be one the model still has queued without deadline.",
    "level_note": "S4U API only: the model-checker leg (all interleavings) of the design is not built. A release exactly at a deadline is a tie the "
                  "statement leaves open: the model takes the answer the call gave and requires the rest of the history to agree. Negative timeouts "
                  "are not generated (acquire() itself is acquire_timeout(-1): negative means no timeout); a zero timeout is a timeout "
                  "(nothing documents 0 as 'forever', ActivityImpl::wait_for treats 0 as an immediate timeout, and the statement has no exception). A killed waiter is required to stop waiting (later tokens go to the others / to the capacity); "
                  "histories where a killed actor still issues a request in the round of its death are not judged.",
    "rule": "case = one scenario (capacities + per-actor scripts); non-trivial = distinct scenarios, fully checked, in which >=1 acquire had to wait "
            "or a timeout fired",
    "ready": True,
}

# minimal witnesses that are always run
DIRECTED = [
    {"mode": "sem", "caps": [0], "scripts": [["T0:0"], ["S1", "C0"]]},                       # F2: acquire_timeout(0), no token: must time out
    {"mode": "sem", "caps": [0], "scripts": [["T0:0", "C0"], ["S1", "R0", "C0"]]},           # F2: ... then a late release
    {"mode": "sem", "caps": [0], "scripts": [["T0:2", "C0"], ["S2", "R0", "C0"]]},           # release exactly at the deadline
    {"mode": "sem", "caps": [0], "scripts": [["T0:2", "C0"], ["T0:2"], ["S2", "R0", "S1", "C0"]]},
    {"mode": "sem", "caps": [1], "scripts": [["A0", "S2", "R0"], ["T0:1", "C0"], ["A0", "C0", "R0"], ["S3", "C0"]]},
    {"mode": "sem", "caps": [0], "scripts": [["A0", "C0"], ["S1", "X0", "R0", "C0"], ["S1", "A0", "C0"]]},   # killed waiter must not swallow the token
    {"mode": "sem", "caps": [0], "scripts": [["T0:t", "C0"], ["S1", "R0"]]},
    {"mode": "sem", "caps": [2, 0], "scripts": [["A0", "A0", "T0:1", "R1"], ["A1", "R0", "C0", "C1"]]},
]


def judge(ctx, fl, sc, res, out):
    w = {"flavour": fl, "scenario": sc}
    c = G.crashed(res)
    if c:
        ctx.violation("C05:crash", "semaphore harness died: %s; history tail %r" % (c, out.splitlines()[-8:]), w)
        return
    f = O.check_sem(ctx, sc, out, w)
    if f == "skip":
        ctx.count("scenarios_not_judged(killed actor still issuing requests)")
        return
    if not f:
        return
    for k in ("waited", "immediate", "timeouts", "ties", "kills", "releases", "handoffs"):
        if f[k]:
            ctx.count("events.%s" % k, f[k])
    ctx.count("checks.capacity_read_by_actor", f["creads"])
    ctx.count("checks.capacity_at_quiescence", f["kreads"])
    if f["forever"]:
        ctx.count("scenarios_ending_with_legitimately_blocked_actors")
    if f["ties"]:
        ctx.count("scenarios_with_release_exactly_at_a_deadline")
    if f["waited"] or f["timeouts"]:
        ctx.nontrivial(sc)


def run(ctx):
    n = ctx.size(600, 20000)
    scs = DIRECTED + [G.gen_sem(ctx.sub_rng(i)) for i in range(n)]
    ctx.sample(DIRECTED[2])
    ctx.sample(scs[len(DIRECTED)])
    for fl in ("hooks", "asan"):
        G.exe(fl)
    j = lambda fl, sc, res, out: judge(ctx, fl, sc, res, out)
    G.run_many(ctx, [("asan", scs[: len(DIRECTED) + max(60, n // 10)], 70), ("hooks", scs, 20)], j)


def replay(ctx, w):
    res, out = G.run_one(w["flavour"], w["scenario"])
    ctx.evaluation()
    print(out)
    judge(ctx, w["flavour"], w["scenario"], res, out)
