"""C01 Simulations are reproducible: the same program on the same platform with the same configuration yields the same
sequence of actor events (dates, values), whatever the address-space layout of the process.

Every scenario (generated S4U program, harness/progvm.cpp) is run several times per build flavour; the only things that change
between the runs of a group are the process address-space layout and the heap contents:
  hooks flavour (raw contexts):   ASLR on | ASLR on + seeded heap perturbation + large environment + MALLOC_PERTURB_ + no tcache
                                  | ASLR off (setarch -R) | ASLR off + another heap perturbation + mmap threshold/top pad tunables
  asan flavour (thread contexts): plain | seeded heap perturbation          (another allocator: another order of the addresses)
The complete boundary logs of a group must be byte-identical.

Test-only switch (oracle self-test): VERIF_SELFTEST=swap|date|drop|value damages the log of the last layout of every group
the way a kernel defect would before the comparison; the run must then report violations.
"""
import os
import platform
import random
import shutil

from verif import build, core, proc
from verif import progvm_common as pc
from verif.gen import prog

META = {
    "id": "C01", "engine": "E1 S4U program VM", "engine_path": "harness/progvm.cpp",
    "engine_kind": "generated S4U programs interpreted on the real kernel, complete actor-boundary log of each run",
    "level": "exploration",
    "technique": "self-differential: byte comparison of the complete event logs of >=4 runs per scenario that differ only by address-space "
                 "layout (ASLR on/off, seeded heap perturbation, allocator tunables, environment size, ASan allocator)",
    "level_text": "Reproducibility is a statement about pairs of runs, so it is decided by running every generated program several times and "
                  "comparing everything the program can observe: each actor logs every API call and return with the date (%.17g) and the values "
                  "it got (received payloads, which activity wait_any/test_any reported, timeouts, try_lock/acquire results, barrier return "
                  "values, start/finish dates of execs and I/Os, pids of created actors, exception classes), maestro logs actor creations and "
                  "terminations; actors are named, never identified by address. Programs are built from motifs that produce many events at "
                  "exactly the same date (k actors woken in one round by sleeps/execs/I/Os/barriers/notify_all, several ready activities in "
                  "one wait_any, timeouts tying with completions, several actors killed at once or by same-date kill timers, an actor "
                  "dying with many pending communications, daemons swept at the end), each followed by a contended mutex/semaphore/mailbox "
                  "so that any order the kernel picks shows up in later dates and values as well as in the order of the lines. Between the "
                  "runs of a group only the address-space layout changes; the heap perturbation permutes the address order of the kernel "
                  "objects with respect to their creation order, which is what pointer-ordered containers, hash iteration and uninitialised "
                  "reads are sensitive to.",
    "level_note": "Layout diversity is what glibc malloc (with/without ASLR, tcache, mmap threshold, seeded hole patterns) and the ASan allocator "
                  "give on this machine; no claim for other libcs. Logs are compared within a flavour and context factory (asan runs use "
                  "the thread factory because ForcefulKillException unwinding on raw stacks upsets ASan); agreement across flavours is only "
                  "counted. Operations that other properties already report as crashing/undefined (kill of a barrier or mutex waiter, timed "
                  "operations on message queues, suspend in the round of creation) are not generated. Host/link failures are not generated.",
    "rule": "case = one scenario (platform + objects + scripts); non-trivial = distinct scenarios whose runs all completed and whose log has "
            ">=1 date at which >=3 different actors saw a return/exception/exit (a tie the kernel had to order)",
    "assumptions": ["two runs of a group execute the same binary with the same scenario and engine flags; only environment variables read "
                    "by the allocator (and VERIF padding read by the harness before the Engine exists) differ"],
    "ready": True,
}

FILL = "x" * 6000
NOASLR = ["setarch", platform.machine() or "x86_64", "-R"]
STACK = ["--cfg=contexts/stack-size:256"]     # KiB; the default 8 MiB stacks cost seconds per run once MALLOC_PERTURB_ fills them


def layouts(flavour, seed_of):
    """[(name, prefix command, env, padseed, engine flags)] for a flavour."""
    if flavour == "hooks":
        return [
            ("aslr", [], {}, 0, STACK),
            ("aslr+pad", [], {"VERIF_ENV_FILL": FILL, "MALLOC_PERTURB_": "165", "GLIBC_TUNABLES": "glibc.malloc.tcache_count=0"},
             1 + seed_of(1) % 100000, STACK),
            ("noaslr", NOASLR, {}, 0, STACK),
            ("noaslr+pad", NOASLR, {"MALLOC_PERTURB_": "90", "MALLOC_MMAP_THRESHOLD_": "4096", "MALLOC_TOP_PAD_": "1048576"},
             1 + seed_of(2) % 100000, STACK),
        ]
    return [
        ("asan", [], {}, 0, ["--cfg=contexts/factory:thread"]),
        ("asan+pad", [], {"VERIF_ENV_FILL": FILL}, 1 + seed_of(3) % 100000, ["--cfg=contexts/factory:thread"]),
    ]


def have_setarch():
    if shutil.which("setarch") is None:
        return False
    r = proc.run(NOASLR + ["true"], timeout=60)
    return r.rc == 0


def run_group(flavour, scs, seed_of, budget):
    """Run the scenarios scs (list of (tag, scenario)) under every layout of the flavour. Returns {layout: {tag: result}}."""
    binp = build.harness("progvm.cpp", flavour)
    out = {}
    for name, prefix, env, pad, flags in layouts(flavour, seed_of):
        if prefix and not run_group.setarch:
            continue
        cases = [(tag, pad, flags, sc["text"]) for tag, sc in scs]
        out[name] = pc.run_batch(binp, cases, per_case_budget=budget, env=env, prefix=prefix)
    return out


run_group.setarch = True


def judge(ctx, flavour, tag, sc, per_layout, selftest=None):
    """Compare the runs of one scenario within a flavour. Returns True when the scenario was fully compared."""
    names = list(per_layout)
    runs = [per_layout[n][tag] for n in names]
    if any(r["watchdog"] for r in runs):
        ctx.inconclusive("watchdog:%s" % flavour)
        return False
    if selftest:
        runs[-1] = dict(runs[-1])
        runs[-1]["log"] = pc.corrupt(runs[-1]["log"], selftest, random.Random(len(tag)))
    ref = runs[0]
    witness = {"flavour": flavour, "scenario": sc["text"], "motifs": sc["motifs"], "layouts": names}
    ctx.count("runs.%s" % flavour, len(runs))
    # sanitizer reports are findings of their own (undefined behaviour is the first enemy of reproducibility)
    for n, r in zip(names, runs):
        sk = pc.sanitizer_key(r["err"])
        if sk is not None:
            ctx.count("sanitizer_reports")
            ctx.violation("C01:sanitizer:%s:%s" % sk, "%s report in layout %s (%s flavour), scenario %s %s\n%s" %
                          (sk[0], n, flavour, tag, sc["motifs"], pc.scrub(r["err"])[-1800:]), witness)
            break
    ok = True
    for n, r in zip(names[1:], runs[1:]):
        if (r["rc"], r["sig"]) != (ref["rc"], ref["sig"]):
            ctx.violation("C01:diverge:exit-status:rc=%s/sig=%s-vs-rc=%s/sig=%s" % (ref["rc"], ref["sig"], r["rc"], r["sig"]),
                          "%s: layout %s ends with rc=%s sig=%s, layout %s with rc=%s sig=%s\n%s" %
                          (flavour, names[0], ref["rc"], ref["sig"], n, r["rc"], r["sig"], pc.scrub(r["err"])[-800:]), witness)
            ok = False
            continue
        d = pc.divergence_key("C01", ref["log"], r["log"])
        ctx.count("log_pairs_compared")
        ctx.count("log_lines_compared", min(len(ref["log"]), len(r["log"])))
        if d is not None:
            key, text, det = d
            ctx.count("divergences.%s" % det["situation"])
            ctx.violation(key, "%s flavour, scenario %s %s: the logs of layouts '%s' and '%s' differ (%s)\n%s" %
                          (flavour, tag, sc["motifs"], names[0], n, det["shape"], text), dict(witness, pair=[names[0], n]))
            ok = False
    if ref["rc"] != 0 or ref["sig"]:
        ctx.count("scenarios_ending_abnormally_in_every_layout" if ok else "scenarios_ending_abnormally")
        return False
    return True


def examine(ctx, jobs_out, scs, selftest=None):
    by_tag = dict(scs)
    cross = {}
    for flavour, chunk, per_layout in jobs_out:
        for tag, _sc in chunk:
            sc = by_tag[tag]
            ctx.evaluation(len(per_layout))
            full = judge(ctx, flavour, tag, sc, per_layout, selftest)
            first = per_layout[next(iter(per_layout))][tag]
            cross.setdefault(tag, {})[flavour] = first["log"]
            if flavour == "hooks" and not first["watchdog"]:
                nt, mx, nev = pc.tie_stats(first["log"])
                ctx.count("events_logged", nev)
                ctx.count("tie_dates(>=3 actors)", nt)
                ctx.maximum("largest_tie", mx)
                if any(" DL" in l for l in first["log"][-40:]):
                    ctx.count("scenarios_ending_in_deadlock")
                for m in sc["motifs"]:
                    ctx.count("motif." + m.split(":")[0])
                if full and nt >= 1:
                    ctx.nontrivial(core.stable_hash(sc["text"]))
                ctx.sample({"scenario": tag, "motifs": sc["motifs"], "actors": sc["nactors"], "log_lines": len(first["log"]),
                            "tie_dates": nt, "log_excerpt": first["log"][len(first["log"]) // 2:][:6]})
    for tag, d in cross.items():
        if "hooks" in d and "asan" in d:
            ctx.count("cross_flavour.raw-vs-asan+thread.%s" % ("equal" if d["hooks"] == d["asan"] else "differ(not judged)"))


def run(ctx):
    n = ctx.size(quick=42, thorough=1200)
    budget = 150
    run_group.setarch = have_setarch()
    if not run_group.setarch:
        ctx.assume("setarch -R is not usable here: the ASLR-off layouts were skipped")
    flavours = os.environ.get("VERIF_C01_FLAVOURS", "hooks,asan").split(",")     # development knob (scratch worktrees: hooks only)
    for fl in flavours:
        build.harness("progvm.cpp", fl)
    scs = [("d:" + d["name"], d) for d in prog.directed()]
    for i in range(n):
        scs.append(("g%d" % i, prog.generate(ctx.sub_rng("sc", i))))
    nasan = len(prog.directed()) + max(4, n // (6 if ctx.tier == "quick" else 10))
    chunk = 6
    jobs = []
    for fl, sub in (("hooks", scs), ("asan", scs[:nasan])):
        if fl not in flavours:
            continue
        for k in range(0, len(sub), chunk):
            jobs.append((fl, sub[k:k + chunk], k))

    def work(job):
        fl, part, k = job
        return fl, part, run_group(fl, part, lambda j: ctx.sub_seed("pad", fl, k, j), budget)

    outs = ctx.pmap(work, jobs)
    examine(ctx, outs, scs, os.environ.get("VERIF_SELFTEST"))


def replay(ctx, w):
    run_group.setarch = have_setarch()
    sc = {"text": w["scenario"], "motifs": w.get("motifs", []), "nactors": 0}
    fl = w["flavour"]
    for trial in range(3):          # the layouts are re-drawn: a pointer-order defect shows with high probability per draw
        per_layout = run_group(fl, [("replay", sc)], lambda j: ctx.sub_seed("replay", trial, j), 300)
        ctx.evaluation(len(per_layout))
        judge(ctx, fl, "replay", sc, per_layout)
