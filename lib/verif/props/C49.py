"""C49 Parallel map processes each element exactly once.

Monitor: per-element atomic counters incremented by the function applied through the real Parmap; after every apply each
counter must equal the number of applies so far (exactly once per apply: never 0 = lost, never 2 = duplicated).
Runs in the plain and the ASan+UBSan flavours (the template is header-only, so the harness itself is instrumented).
"""
from verif import build, proc

META = {
    "id": "C49", "engine": "E4 unit harness", "engine_path": "harness/parmap.cpp",
    "engine_kind": "C++ drivers linked to the real libsimgrid, python reference models",
    "level": "exploration",
    "technique": "exactly-once counters per element after every apply, all 3 synchronisation modes x 6 worker counts x 13 lengths, repeated, plain+ASan/UBSan",
    "level_text": "Stress of the real Parmap template over every synchronisation mode (posix, futex, busy-wait), worker counts 1..16 and "
                  "vector lengths 0..2000 (below, equal to and above the worker count), many applies on the same pool so that "
                  "round/wake-up hand-offs between applies are exercised; an element counted 0 or 2 times in any apply is a violation. "
                  "Holds only on the interleavings the OS scheduler produced.",
    "level_note": "No TSan flavour in this round (see DESIGN.md 'what was built'): data races that do not perturb the counters are not seen. "
                  "Watchdog firing is inconclusive (re-run once, then reported as hang).",
    "rule": "case = (mode, workers, length) driven for `reps` applies; non-trivial = distinct (mode, workers, length) with length>0 whose "
            "counters were all checked",
    "ready": True,
}

MODES = {0: "posix", 1: "futex", 2: "busy_wait"}


def one(ctx, fl, seed, reps, retry=True):
    exe = build.harness("parmap.cpp", fl, internal=True)
    res = proc.run([exe, str(seed), str(reps)], timeout=300)
    cfgs = [l.split() for l in res.out.splitlines() if l.startswith("CFG ")]
    for c in cfgs:
        mode, nw, ln, applies, items, bad, mx, mn = map(int, c[1:])
        ctx.evaluation()
        ctx.count("applies", applies)
        ctx.count("element_checks", items)
        if bad:
            kind = "duplicated" if mx > 0 else "lost"
            ctx.violation("C49:%s:%s" % (kind, MODES.get(mode, mode)), "Parmap mode=%s workers=%d len=%d: %d element checks off (count-expected in [%d,%d])"
                          % (MODES.get(mode, mode), nw, ln, bad, mn, mx), {"flavour": fl, "seed": seed, "reps": reps, "cfg": c})
        elif ln > 0:
            ctx.nontrivial("%s|%d|%d" % (MODES.get(mode, mode), nw, ln))
    expected = 3 * 6 * 13
    if res.timed_out:
        last = cfgs[-1] if cfgs else None
        if retry:
            ctx.count("watchdog_retries")
            return one(ctx, fl, seed, reps, retry=False)
        ctx.inconclusive("parmap harness watchdog fired twice (after cfg %r)" % (last,))
        return
    reps_ = proc.sanitizer_reports(res.err)
    if res.rc != 0 or len(cfgs) != expected:
        nxt = len(cfgs)
        mode = MODES.get(nxt // (6 * 13), "?")
        ctx.violation("C49:crash:%s" % mode, "parmap stress died rc=%s after %d configs; %s" % (res.rc, len(cfgs), reps_[:1] or res.err[-400:]),
                      {"flavour": fl, "seed": seed, "reps": reps})


def run(ctx):
    reps = ctx.size(15, 60)
    rounds = ctx.size(2, 12)
    jobs = [(fl, ctx.sub_seed(fl, i) % 100000, reps) for i in range(rounds) for fl in ("hooks", "asan")]
    build.harness("parmap.cpp", "hooks", internal=True)
    build.harness("parmap.cpp", "asan", internal=True)
    ctx.sample({"flavour": jobs[0][0], "seed": jobs[0][1], "reps": reps, "modes": list(MODES.values()), "workers": [1, 2, 3, 5, 8, 16]})
    # sequentially: the stress itself uses up to 16 threads
    for j in jobs:
        one(ctx, *j)
        ctx.count("runs." + j[0])


def replay(ctx, w):
    one(ctx, w["flavour"], w["seed"], w["reps"])
