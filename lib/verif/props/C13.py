"""C13 Workflow dependencies are respected."""
import os
import shutil
import tempfile

from verif import build, proc
from verif.gen import dag as G
from verif.oracles import dag as O

META = {
    "id": "C13", "engine": "E1 s4u harness (workflow construction scripts)", "engine_path": "harness/dag.cpp",
    "engine_kind": "S4U program executing generated DAG-construction scripts on the real engine (maestro-driven and actor-driven), python "
                   "history checker",
    "level": "exploration",
    "technique": "signal-history checker: every on_start/on_completion record (per-activity and class-wide, with clock and a get_state() "
                 "snapshot) is checked against a model of the declared dependencies and assignments replayed from the recorded operations",
    "level_text": "Random DAGs (2..30 Exec / host-to-host Comm / Io activities; chains, diamonds, wide fan-in, fan-out, layered, random) are "
                  "built through the API by maestro (operations between Engine::run_until calls) or by actors (ActivitySet::wait_any, "
                  "sequential wait() in a random topological order, test() polling, one waiter actor per activity; helper actors assign / "
                  "start / declare dependencies concurrently), with a random construction schedule: resources set before / after start(), at "
                  "a later date, in the on_veto callback once the dependencies are solved, in the completion callback of another activity; "
                  "start() explicit, late or left to the release by the last predecessor; dependencies declared before / after the start "
                  "requests, later, in callbacks, declared then removed; zero-cost activities; dyadic durations so that branches tie exactly. "
                  "The same for DAGs loaded by create_DAG_from_json / create_DAG_from_DAX from generated files (the dependencies declared by "
                  "the file must be in the built DAG). On every start record the checker requires that every predecessor declared at that "
                  "moment has finished (completion signal seen or get_state()==FINISHED; completion date <= start date; get_finish_time <= "
                  "get_start_time; get_dependencies() empty) and that the activity is assigned; at the end that every activity of a complete, "
                  "failure-free scenario finished (a livelock of the engine is detected in-harness, not by a watchdog); and that an activity "
                  "assigned no later than the latest finish date of its predecessors starts exactly then (1e-9 = precision/timing).",
    "level_note": "The oracle never predicts a duration: it only compares recorded dates with each other. It does not demand exactly-once "
                  "signals nor an order between the completion signal of a predecessor and the start signal of its successor at the same date "
                  "(SimGrid fires Comm::on_completion after the successors of a maestro-driven Comm were started: counted, not judged). In "
                  "the actor-driven modes 'finished' is the date at which the completion is processed (wait/test returns), which is when "
                  "SimGrid releases the successors. The generated programs never let two actors operate on the same activity at once "
                  "(starting an activity is not atomic in SimGrid: it spans a simcall). Mailbox (put/get) Comms, parallel Execs, Io streams "
                  "and failures are not exercised; DOT loader not exercised (SimGrid built without graphviz). One DAX per process (the "
                  "loader keeps static state). Plain and ASan+UBSan flavours (ASan runs are batched; scenarios ending with actors killed "
                  "by the engine's deadlock handling run on the plain flavour only: ASan reports inside its own sigaltstack interceptor "
                  "when the stack of a killed actor unwinds).",
    "rule": "case = one scenario (DAG + construction schedule + driver mode); non-trivial = distinct scenarios, fully checked, in which at "
            "least one activity asked to start before one of its predecessors finished (the veto really held it back)",
    "assumptions": ["DOT loader not exercised: SimGrid is built without graphviz here"],
    "ready": True,
}

CFGS = {
    "cm02": ["--cfg=network/model:CM02", "--cfg=network/crosstraffic:0"],      # dyadic durations: exact ties
    "lv08": [],                                                                 # default network model
}
BASE_ARGS = ["--log=root.thres:critical"]
# violation classes that the oracle attributes to a cause visible in the scenario's own operations (no isolated re-run needed)
CLASSIFIED = {"C13:livelock:repeated-veto:C", "C13:start-date-not-latest-pred-finish:zero-byte-comm-started-before-assignment",
              "C13:never-starts:dependency-added-after-predecessor-finished", "C13:never-starts:last-dependency-removed-while-vetoed",
              "C13:never-starts:zero-byte-comm-started-before-assignment"}

# ---------------------------------------------------------------------------------------------------------------------------------
# Directed scenarios (always run). Names starting with 'known-' are the minimal witnesses of the open known findings.
# ---------------------------------------------------------------------------------------------------------------------------------
DIRECTED = {
    "diamond-tie": """S diamond-tie M
new a E 1
new b E 2
new c E 2
new d E 1
dep a b
dep a c
dep b d
dep c d
host a 0
host b 0
host c 3
host d 1
start a
start b
start c
start d
E
""",
    "fanin6-tie": """S fanin6-tie M
new p0 E 2
new p1 E 4
new p2 E 8
new p3 E 2
new p4 E 4
new p5 E 8
new j E 1
start j
host p0 0
host p1 1
host p2 2
host p3 3
host p4 4
host p5 5
dep p0 j
dep p1 j
dep p2 j
dep p3 j
dep p4 j
dep p5 j
start p0
start p1
start p2
start p3
start p4
start p5
host j 0
E
""",
    "zero-chain": """S zero-chain M
new a E 0
new c C 0
new i I 0 r
new b E 0
new z E 1
src c 0
dst c 1
disk i 2
host a 0
host b 1
host z 1
dep a c
dep c i
dep i b
dep b z
start a
E
""",
    "assign-at-veto": """S assign-at-veto A
new p1 E 1
new p2 E 2
new ch E 1
veto ch host ch 2
dep p1 ch
dep p2 ch
host p1 0
host p2 0
start p1
start p2
start ch
E
""",
    "assign-at-finish-date": """S assign-at-finish-date M
new a E 2
new b E 1
dep a b
host a 0
start a
start b
run 2.0
host b 1
E
""",
    "assign-later": """S assign-later M
new a E 2
new b C 4
new c I 4096 w
dep a b
dep b c
host a 0
start a
start b
run 3.0
src b 0
run 3.5
dst b 2
disk c 2
E
""",
    "seq-wait-delays-completion": """S seq-wait-delays-completion W
waitorder l s j
new s E 1
new l E 4
new j E 1
dep s j
host s 0
host l 3
host j 1
start s
start l
E
""",
    "comm-chain-actor": """S comm-chain-actor A
new e1 E 1
new c1 C 2
new e2 E 2
new i1 I 4096 r
dep e1 c1
dep c1 e2
dep e2 i1
start e1
start c1
host e1 0
src c1 0
dst c1 1
host e2 1
disk i1 1
E
""",
    "dep-in-own-completion-callback": """S dep-in-own-completion-callback M
new a E 1
new b E 1
on a depf a b
on a host b 1
host a 0
start a
start b
E
""",
    "helper-assigns": """S helper-assigns T
new a E 2
new b E 1
new c C 2
dep a b
dep b c
start a
start b
host a 0
@1 run 1.0
@1 host b 1
@1 src c 1
@2 run 5.0
@2 dst c 2
E
""",
    "remove-then-restart": """S remove-then-restart M
new a E 4
new b E 1
host a 0
host b 1
dep a b
start a
start b
run 1.0
undeps a b
E
""",
    "known-dep-after-finish": """S known-dep-after-finish M
new a E 1
new b E 1
host a 0
host b 1
start a
run 2.0
depf a b
start b
E
""",
    "known-remove-last-dep": """S known-remove-last-dep M
new a E 4
new b E 1
host a 0
host b 1
dep a b
start a
start b
run 1.0
undep a b
E
""",
    "known-typed-wait-on-vetoed-comm": """S known-typed-wait-on-vetoed-comm Q
new e1 E 2
new c1 C 2
dep e1 c1
host e1 0
src c1 0
dst c1 1
start e1
E
""",
    "waiter-per-activity": """S waiter-per-activity P
new e1 E 2
new c1 C 2
new i1 I 2048 w
new e2 E 1
waiters
dep e1 c1
dep c1 e2
dep e1 i1
dep i1 e2
host e1 0
src c1 0
dst c1 1
host e2 1
start e1
@1 run 1.0
@1 disk i1 2
E
""",
    "known-zero-comm-late-start": """S known-zero-comm-late-start T
new c C 0
new e E 1
dep e c
host e 0
dst c 1
veto c src c 2
start e
start c
E
""",
    "known-zero-comm": """S known-zero-comm M
new c C 0
start c
src c 0
dst c 1
E
""",
}

DIRECTED_JSON = {
    "name": "json-directed", "schemaVersion": "1.4",
    "workflow": {"tasks": [
        {"name": "c1", "type": "compute", "parents": [], "runtimeInSeconds": 2, "machine": "h0"},
        {"name": "t1", "type": "transfer", "parents": ["c1"], "writtenBytes": 4, "machine": "h1"},
        {"name": "c2", "type": "compute", "parents": [], "runtimeInSeconds": 4, "machine": "h3"},
        {"name": "c3", "type": "compute", "parents": ["t1", "c2"], "runtimeInSeconds": 1},
    ], "machines": [{"nodeName": "h%d" % i} for i in range(6)]},
}
DIRECTED_JSON_TEXT = "S json-directed M\nload json @FILE@\nrun 1.0\nhost c3 2\nE\n"
DIRECTED_JSON_EDGES = [("c1", "t1"), ("t1", "c3"), ("c2", "c3")]


def _args(cfg):
    return BASE_ARGS + CFGS[cfg]


def run_batch(fl, cfg, text, timeout):
    exe = build.harness("dag.cpp", fl)
    return proc.run([exe] + _args(cfg), stdin=text, timeout=timeout)


def materialize(sc, tmp):
    """Write the loader input file of a scenario (if any) and return the harness text."""
    text = sc["text"]
    if "file_content" in sc:
        path = os.path.join(tmp, sc["name"] + sc["file_ext"])
        with open(path, "w") as f:
            f.write(sc["file_content"])
        text = text.replace("@FILE@", path)
    return text


def witness_of(sc, fl, cfg):
    w = {"flavour": fl, "cfg": cfg, "name": sc["name"], "text": sc["text"]}
    for k in ("file_content", "file_ext", "expected_edges"):
        if k in sc:
            w[k] = sc[k]
    return w


def judge(ctx, sc, fl, cfg, lines, complete, res_proc, confirm):
    """Check one scenario's records. confirm(sc) -> Result of an isolated re-run (or None) is used before reporting a violation that
    was seen in a batch."""
    r = O.check(lines, expected_edges=[tuple(e) for e in sc["expected_edges"]] if "expected_edges" in sc else None)
    if confirm is not None and any(k not in CLASSIFIED for k, _ in r.violations):
        r2 = confirm(sc)
        if r2 is None:
            ctx.inconclusive("could not re-run a scenario in isolation")
            return None
        if sorted(k for k, _ in r2.violations) != sorted(k for k, _ in r.violations):
            ctx.count("batch_only_differences")
            if not r2.violations:
                ctx.inconclusive("violation seen only inside a batch, not when the scenario runs alone")
                return None
        r = r2
    ctx.evaluation()
    for k, v in r.stats.items():
        ctx.count(k, v)
    ctx.count("scenarios.mode%s.%s" % (sc.get("mode", "M"), fl))
    for (key, what) in r.violations:
        ctx.violation(key, "[%s, %s, %s] %s" % (sc["name"], fl, cfg, what), witness_of(sc, fl, cfg))
    if r.nontrivial and r.fully_checked and not r.violations:
        ctx.nontrivial(sc["text"])
    return r


def run_group(ctx, tmp, fl, cfg, scs, timeout=300, clean=None):
    """Run a batch of scenarios in one process and judge each of them. clean (a set) receives the names of the scenarios in which
    every activity finished."""
    by_name = {sc["name"]: sc for sc in scs}
    text = "".join(materialize(sc, tmp) for sc in scs)
    res = run_batch(fl, cfg, text, timeout)
    if res.timed_out:
        ctx.inconclusive("dag harness watchdog")
        return
    seen = set()

    def confirm(sc):
        r1 = run_batch(fl, cfg, materialize(sc, tmp), 120)
        if r1.timed_out:
            return None
        blocks = list(O.split_scenarios(r1.out))
        if len(blocks) != 1 or not blocks[0][3]:
            return None
        return O.check(blocks[0][2], expected_edges=[tuple(e) for e in sc["expected_edges"]] if "expected_edges" in sc else None)

    crashed = None
    for (name, mode, lines, complete) in O.split_scenarios(res.out):
        sc = by_name.get(name)
        if sc is None:
            continue
        seen.add(name)
        if not complete and not any(l.startswith("L ") for l in lines):
            crashed = sc
            continue
        r = judge(ctx, sc, fl, cfg, lines, complete, res, confirm if len(scs) > 1 else None)
        if clean is not None and r is not None and r.all_finished:
            clean.add(name)
    ok_end = res.rc == 0 and res.out.rstrip().endswith("END")
    if not ok_end and res.rc == 0 and crashed is None and res.out.rstrip().splitlines()[-1:][0:1] and res.out.rstrip().splitlines()[-1].startswith("L "):
        # the harness stopped on a livelock (reported by the oracle): run what was behind it
        rest = [sc for sc in scs if sc["name"] not in seen]
        if rest:
            run_group(ctx, tmp, fl, cfg, rest, timeout, clean)
    elif not ok_end:
        # the process died: blame the scenario that was running, after confirming alone
        culprit = crashed
        if culprit is None:
            missing = [sc for sc in scs if sc["name"] not in seen]
            culprit = missing[0] if missing else scs[-1]
        r1 = run_batch(fl, cfg, materialize(culprit, tmp), 120)
        if r1.timed_out:
            ctx.inconclusive("dag harness watchdog (isolated re-run)")
        elif "__interceptor_sigaltstack" in r1.err:
            # ASan's own sigaltstack interceptor reports when an exception unwinds the stack of an actor killed by the engine
            # (not a SimGrid defect, see FRAMEWORK.md): scenarios that end in a deadlock are not run under ASan, this is a safety net
            ctx.inconclusive("ASan false positive in its sigaltstack interceptor (actor killed by the engine)")
        elif r1.rc != 0 or not r1.out.rstrip().endswith("END"):
            reps = proc.sanitizer_reports(r1.err)
            kind = reps[0][0] if reps else ("rc%s" % r1.rc)
            ctx.evaluation()
            ctx.violation("C13:crash:%s:mode%s" % (kind, culprit.get("mode", "M")),
                          "[%s, %s, %s] the harness died (rc=%s): %s" % (culprit["name"], fl, cfg, r1.rc,
                                                                         (reps[0][1] if reps else r1.err[-400:])),
                          witness_of(culprit, fl, cfg))
        else:
            ctx.inconclusive("harness died inside a batch (rc=%s) but the scenario runs fine alone" % res.rc)
        # the scenarios after the crash were not run: run them again without the culprit
        rest = [sc for sc in scs if sc["name"] not in seen and sc is not culprit]
        if rest:
            run_group(ctx, tmp, fl, cfg, rest, timeout, clean)


def directed_cases():
    out = []
    for name, text in DIRECTED.items():
        mode = text.split("\n", 1)[0].split()[2]
        out.append({"name": name, "mode": mode, "text": text, "tags": ["directed"]})
    import json
    out.append({"name": "json-directed", "mode": "M", "text": DIRECTED_JSON_TEXT, "file_content": json.dumps(DIRECTED_JSON, indent=1),
                "file_ext": ".json", "expected_edges": DIRECTED_JSON_EDGES, "tags": ["directed", "json"]})
    return out


def loader_case(rng, name, kind, tmp):
    path = os.path.join(tmp, "gen-" + name + (".json" if kind == "json" else ".xml"))
    c = G.gen_json_case(rng, name, path) if kind == "json" else G.gen_dax_case(rng, name, path)
    with open(path) as f:
        content = f.read()
    os.unlink(path)
    return {"name": name, "mode": "M", "text": c["text"].replace(path, "@FILE@"), "file_content": content,
            "file_ext": ".json" if kind == "json" else ".xml", "expected_edges": [list(e) for e in c["expected_edges"]],
            "tags": c["tags"], "n": c["n"]}


def run(ctx):
    tmp = tempfile.mkdtemp(prefix="verif-C13-")
    try:
        flavours = os.environ.get("VERIF_C13_FLAVOURS", "hooks,asan").split(",")     # dev knob: "hooks" skips the ASan build
        for fl in flavours:
            build.harness("dag.cpp", fl)
        n_api = ctx.size(1200, 40000)
        n_big = ctx.size(60, 2000)
        n_json = ctx.size(150, 4000)
        n_dax = ctx.size(60, 1500)
        jobs = []     # (flavour, cfg, [scenarios])
        directed = directed_cases()
        for sc in directed:
            jobs.append(("hooks", "cm02", [sc]))
        ctx.sample({"directed": "diamond-tie", "text": DIRECTED["diamond-tie"]})
        api = []
        for i in range(n_api):
            api.append(G.gen_scenario(ctx.sub_rng("api", i), "r%d" % i))
        for i in range(n_big):
            api.append(G.gen_scenario(ctx.sub_rng("big", i), "b%d" % i, big=True))
        for sc in api[:2]:
            ctx.sample({"scenario": sc["name"], "mode": sc["mode"], "shape": sc["shape"], "text": sc["text"]})
        for sc in api:
            for t in sc["tags"]:
                ctx.count("generated.tag." + t)
        # hooks flavour: 30 scenarios per process, alternating network models
        B = 30
        for b in range(0, len(api), B):
            jobs.append(("hooks", "cm02" if (b // B) % 3 else "lv08", api[b:b + B]))
        js = [loader_case(ctx.sub_rng("json", i), "j%d" % i, "json", tmp) for i in range(n_json)]
        for b in range(0, len(js), B):
            jobs.append(("hooks", "cm02" if (b // B) % 2 else "lv08", js[b:b + B]))
        dx = [loader_case(ctx.sub_rng("dax", i), "x%d" % i, "dax", tmp) for i in range(n_dax)]
        for i, sc in enumerate(dx):
            jobs.append(("hooks", "cm02" if i % 2 else "lv08", [sc]))      # one DAX per process
        if js:
            ctx.sample({"scenario": js[0]["name"], "text": js[0]["text"], "json": js[0]["file_content"]})
        clean = set()
        ctx.pmap(lambda j: run_group(ctx, tmp, j[0], j[1], j[2], clean=clean), jobs)
        # ASan+UBSan flavour: a process costs seconds to start, so everything is batched (60 per process); a scenario that ends
        # with actors killed by the engine (deadlock report) is not run there (ASan false positive while the actor's stack unwinds),
        # which is known from the plain run since the simulation is deterministic
        def ok_for_asan(sc):
            return sc["mode"] == "M" or sc["name"] in clean
        jobs = [("asan", "cm02", [sc for sc in directed if not sc["name"].startswith("known-") and ok_for_asan(sc)])]
        asan_part = [sc for sc in api[:: 7] if ok_for_asan(sc)]
        ctx.count("asan.skipped_deadlock_ending", len(api[:: 7]) - len(asan_part))
        for b in range(0, len(asan_part), 60):
            jobs.append(("asan", "cm02", asan_part[b:b + 60]))
        for b in range(0, len(js[::4]), 60):
            jobs.append(("asan", "cm02", js[::4][b:b + 60]))
        for sc in dx[::30]:
            jobs.append(("asan", "cm02", [sc]))
        if "asan" in flavours:
            ctx.pmap(lambda j: run_group(ctx, tmp, j[0], j[1], j[2]), jobs)
        else:
            ctx.assume("ASan+UBSan flavour skipped (VERIF_C13_FLAVOURS)")
    finally:
        shutil.rmtree(tmp, ignore_errors=True)


def replay(ctx, w):
    tmp = tempfile.mkdtemp(prefix="verif-C13-")
    try:
        sc = dict(w)
        run_group(ctx, tmp, w["flavour"], w["cfg"], [sc])
    finally:
        shutil.rmtree(tmp, ignore_errors=True)
