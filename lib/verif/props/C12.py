"""C12 Timed waits are exact (wait_for / wait_until / wait_for_or_cancel / ActivitySet::wait_any_for on exec, comm, io, mess)."""
import math
import os
import sys
import threading
import time

from verif import build, core, proc

META = {
    "id": "C12", "engine": "E1 s4u harness (isolated timed waits)", "engine_path": "harness/timedwait.cpp",
    "engine_kind": "S4U program running one isolated activity per forked process on the real kernel; python decides on the boundary log",
    "level": "exploration",
    "technique": "differential against the un-timed run of the same program: the natural completion date T is measured, the deadline is placed "
                 "at T-d, T, T+d and the outcome, the return date and the fate of the activity are checked on the recorded boundary log",
    "level_text": "For generated isolated activities (exec alone or sharing the CPU, mailbox comm with the peer arriving before/with/after the "
                  "waiter, disk read/write, message-queue put/get), the same program is first run with an un-timed wait(): that gives the date c "
                  "of the call and the natural completion date T (no closed-form model is used). The program is then re-run with the deadline at "
                  "T-d, T and T+d (d from 1e-12 to a large fraction of T-c, call placed before, exactly at and after T) and at the call date itself "
                  "(timeout 0) through wait_for (typed and "
                  "Activity:: entry points, on started and on not-yet-started activities), wait_until, wait_for_or_cancel and "
                  "ActivitySet::wait_any_for (alone, with a never-ending and with an earlier-ending second activity). Demanded: timeout iff T is "
                  "after the deadline, success iff before, success on an exact tie for activities carried by a resource action; the call returns at "
                  "the deadline resp. at max(T, c); a successful return means the activity really completed (state, completion signal, payload "
                  "delivered); after a plain timeout the activity is still alive and completes at T; after wait_for_or_cancel it is CANCELED, its "
                  "remaining work does not move, the host/link load is 0, a cancelled send is never delivered, a cancelled receive is never "
                  "filled, and the same activity run again alone takes its isolated duration; wait_any_for returns an activity that has completed.",
    "level_note": "Tolerance = precision/timing (1e-9) + 4 ulp of the dates; a deadline closer to T than that (or than the work a model rounds "
                  "away: 1e-5 flop/byte, 1 byte for disks) is a tie zone where both outcomes are accepted, as are exact ties for message-queue "
                  "rendez-vous (completion caused by another actor at the same date) and for wait_any_for (the statement says 'before'). "
                  "Outside the tie zone the observed return dates are exact (error <= 1 ulp, reported as worst_*_date_error_outside_tie_zone); the "
                  "verdict still uses the documented 1e-9. That an activity survives a plain wait_for timeout (and completes at T) is read from "
                  "the statement's distinction between wait_for and wait_for_or_cancel. wait_until with a limit that is not in the future returns "
                  "silently by design of the code; the statement does not cover it and it is not generated. wait_for on a not-yet-started activity "
                  "is a documented use (Activity.hpp: start() is optional; examples exec-waitfor, energy-exec-ptask) and is only generated with the "
                  "call at the creation date. No failures, no suspension, default models (Cas01/LV08 lazy, S19 disk). The asan flavour (thread "
                  "contexts) runs a third of the at-creation variants of half of the directed bases and a sixteenth of the generated bases. VERIF_C12_CORRUPT falsifies the harness log "
                  "for the oracle self-test only.",
    "rule": "case = one timed variant (activity, call placement, wait flavour, deadline); non-trivial = distinct variants fully checked whose call "
            "happens while the activity is still in flight (c < T)",
    "assumptions": ["two runs of the same program prefix give bit-identical dates (checked: the call date of every timed run is compared with "
                    "the reference run, a mismatch is inconclusive)"],
    "ready": True,
}

HARNESS = "timedwait.cpp"
# SimGrid's fibre annotation gives ASan a zero stack size for raw/boost actor stacks ("ASan is ignoring requested
# __asan_handle_no_return ... false positive error reports may follow"): every exception unwinding on such a stack (and timeouts are
# exceptions) leaves stale stack poison behind. The asan leg therefore runs the actors on real threads.
FLAVOUR_ARGS = {"hooks": [], "asan": ["--cfg=contexts/factory:thread"]}
PREC = 1e-9
CHUNK = 16


# ------------------------------------------------------------------------------------------------ harness driving
def fnum(x):
    return repr(x) if isinstance(x, float) else str(x)


def spec_line(d):
    return " ".join("%s=%s" % (k, fnum(v)) for k, v in d.items() if not k.startswith("_"))


def corrupt(line, how):
    """Oracle self-test only (VERIF_C12_CORRUPT=flip-outcome|shift-ret|early-ret|cancel-noop|any-wrong|lost-payload|dup-payload): falsifies
    what the harness reported for the timed runs (ids *.vN / var), as a defect of the timed waits would."""
    t = line.split()
    if len(t) < 4 or t[0] != "R" or not (".v" in t[1] or t[1] == "var"):
        return line
    kv = dict(x.split("=", 1) for x in t[4:] if "=" in x)
    who, tag = t[2], t[3]
    if who == "waiter" and tag == "ret":
        if how == "flip-outcome":
            kv["out"] = "timeout" if kv["out"] == "ok" else "ok"
        elif how == "shift-ret":
            kv["clock"] = repr(float(kv["clock"]) + 1e-6)
        elif how == "early-ret" and kv["out"] == "timeout":
            kv["clock"] = repr(float(kv["clock"]) * (1 - 1e-7) - 1e-8)
        elif how == "any-wrong" and kv["which"] == "main":
            kv["which"] = "decoy"
        else:
            return line
    elif who == "waiter" and tag in ("cancelchk", "later") and how == "cancel-noop":
        kv["state"] = "STARTED"
    elif who == "waiter" and tag == "rbuf" and how == "lost-payload" and kv["payload"] == "orig":
        kv["payload"] = "null"
    elif who == "peer" and tag == "get" and how == "dup-payload" and kv.get("payload") == "bye":
        kv["payload"] = "orig"
    else:
        return line
    return " ".join(t[:4] + ["%s=%s" % x for x in kv.items()])


def parse(out):
    res, cur = {}, None
    how = os.environ.get("VERIF_C12_CORRUPT")
    for line in out.splitlines():
        if how:
            line = corrupt(line, how)
        if line.startswith("B "):
            cur = line[2:].strip()
            res[cur] = {"status": None, "recs": [], "noise": []}
        elif line.startswith("X "):
            t = line.split()
            if t[1] in res:
                res[t[1]]["status"] = int(t[2])
            cur = None
        elif line.startswith("R "):
            t = line.split()
            if len(t) >= 4 and t[1] in res:
                kv = dict(x.split("=", 1) for x in t[4:] if "=" in x)
                res[t[1]]["recs"].append((t[2], t[3], kv))
        elif cur is not None and line.strip():
            res[cur]["noise"].append(line)
    return res


def run_batch(ctx, fl, specs, workers=None):
    """Run the scenarios (dicts with an 'id') -> {id: parsed run or None when the watchdog fired}."""
    exe = build.harness(HARNESS, fl)
    chunks = [specs[i:i + CHUNK] for i in range(0, len(specs), CHUNK)]

    def one(ch):
        res = proc.run([exe, "--log=root.thres:critical"] + FLAVOUR_ARGS[fl], stdin="\n".join(spec_line(s) for s in ch) + "\n", timeout=120 + 10 * len(ch))
        got = parse(res.out)
        out = {}
        for s in ch:
            r = got.get(str(s["id"]))
            out[str(s["id"])] = r if r is not None and r["status"] is not None else None
        return out

    allr = {}
    t0 = time.time()
    for d in ctx.pmap(one, chunks, workers):
        allr.update(d)
    if os.environ.get("VERIF_DEBUG"):
        sys.stderr.write("[C12] %s: %d scenarios in %.1fs\n" % (fl, len(specs), time.time() - t0))
    return allr


def first(run, who, tag):
    for w, t, kv in run["recs"]:
        if w == who and t == tag:
            return kv
    return None


def every(run, who, tag):
    return [kv for w, t, kv in run["recs"] if w == who and t == tag]


# ------------------------------------------------------------------------------------------------ generation
PRES = [0.0, 0.1, 1.0 / 3.0, 0.7, 1000.0, 123456.789]
DELTAS = [1e-12, 1e-10, 2.5e-9, 1e-6, 1e-3]


def gen_base(rng):
    kind = rng.choice(["exec", "exec", "comm", "comm", "io", "mess"])
    b = {"kind": kind, "pre": rng.choice(PRES)}
    if kind == "exec":
        speed = rng.choice([1e3, 1e6, 1e9, 7.3e9])
        dur = rng.choice([0.01, 0.1 + 0.2, 1.0 / 3.0, 1.0, 2.5, 1000.0]) * rng.choice([1.0, 1.0, rng.uniform(0.5, 1.5)])
        b.update(speed=speed, flops=speed * dur)
        if rng.random() < 0.2:
            b["bg"] = b["flops"] * rng.choice([0.5, 1.0, 3.0])
    elif kind == "comm":
        b.update(role=rng.choice(["send", "recv"]), bw=rng.choice([1e6, 1e8, 1.25e9]), lat=rng.choice([0.0, 1e-4, 1e-2]),
                 size=rng.choice([1.0, 1e3, 1e6, 1e8, float(rng.randint(1, 10 ** 7))]))
        b["p"] = max(0.0, b["pre"] + rng.choice([-0.05, 0.0, 0.0, 0.05, 1.0]))
    elif kind == "io":
        b.update(ioop=rng.choice(["read", "write"]), rbw=rng.choice([1e6, 1e8, 4.2e7]), wbw=rng.choice([1e6, 5e7, 4.2e7]),
                 iosize=float(rng.choice([1000, 10 ** 6, 10 ** 8, 123457, rng.randint(1, 10 ** 7)])))
    else:
        b.update(role=rng.choice(["put", "get"]))
        b["p"] = b["pre"] + rng.choice([0.0, 1e-3, 0.3, 0.3, 7.0])
    return b


def rate_and_quantum(b):
    """Largest rate at which the activity can progress and the amount of work the models round away."""
    if b["kind"] == "exec":
        return b["speed"], 2e-5
    if b["kind"] == "comm":
        return b["bw"], 2e-5
    if b["kind"] == "io":
        return max(b["rbw"], b["wbw"]), 1.0
    return 0.0, 0.0


def timeout_for(c, D):
    """A timeout t >= 0 such that c + t == D exactly when one exists (the kernel computes the deadline as clock + timeout)."""
    t = D - c
    if t < 0:
        return None
    for cand in (t, math.nextafter(t, math.inf), math.nextafter(t, 0.0)):
        if cand >= 0 and c + cand == D:
            return cand
    return t


def named_placement(name, c0, T0):
    span = T0 - c0
    if name == "in-flight":
        return {"_pl": name, "w": 0.4 * span}
    if name == "at-completion":
        return {"_pl": name, "wabs": T0}
    if name == "after-completion":
        return {"_pl": name, "w": span * 1.5 + 0.25}
    return {"_pl": "at-creation"}


def placements(rng, b, c0, T0):
    """Where the timed call is placed w.r.t. the natural completion date measured by the first reference run."""
    span = T0 - c0
    out = [named_placement("at-creation", c0, T0)]
    alts = []
    if span > 0:
        alts.append(named_placement("in-flight", c0, T0))
        alts.append(named_placement("at-completion", c0, T0))
    alts.append(named_placement("after-completion", c0, T0))
    out.append(rng.choice(alts))
    if rng.random() < 0.6:
        long_ = rng.random() < 0.5
        d = {"_pl": "at-creation+decoy-%s" % ("long" if long_ else "short"), "dspeed": 1e9}
        d["decoy"] = 1e15 if long_ else max(1.0, 1e9 * span * rng.choice([0.25, 0.5, 0.9]))
        out.append(d)
    return out


MODES_STARTED = [("for", "typed", 1), ("for", "base", 1), ("until", "typed", 1), ("forcancel", "typed", 1), ("anyfor", "typed", 1)]
MODES_UNSTARTED = [("for", "typed", 0), ("for", "base", 0), ("until", "typed", 0), ("forcancel", "typed", 0)]


def variants(rng, b, pl, ref, n):
    c, T, Td = ref["c"], ref["T"], ref.get("Td")
    span = max(T - c, 0.0)
    offs = [0.0]
    for d in DELTAS + ([0.37 * span] if span > 0 else []):
        offs += [-d, d]
    offs += [0.5, 1000.0]
    anchors = [T] if Td is None else [T, Td]
    if "decoy" in pl:
        modes = [("anyfor", "typed", 1)]
    elif pl["_pl"] == "at-creation":
        modes = MODES_STARTED + MODES_UNSTARTED
    else:
        modes = MODES_STARTED
    picks = [(0.0, rng.choice(modes))]
    neg = [o for o in offs if o < 0]
    pos = [o for o in offs if o > 0]
    if neg:
        picks.append((rng.choice(neg), rng.choice(modes)))
    picks.append((rng.choice(pos), rng.choice(modes)))
    while len(picks) < n:
        picks.append((rng.choice(offs), rng.choice(modes)))
    out, seen = [], set()
    for off, (mode, via, started) in picks:
        D = rng.choice(anchors) + off
        if D < c or (mode == "until" and D <= c):
            continue
        tv = D if mode == "until" else timeout_for(c, D)
        if tv is None or (mode, via, started, tv) in seen:
            continue
        seen.add((mode, via, started, tv))
        v = dict(b)
        v.update({k: x for k, x in pl.items()})
        v.update(mode=mode, via=via, started=started, tv=tv)
        if mode == "forcancel":
            v["z"] = rng.choice([0.0, 1e-3, 0.05])
        elif mode in ("anyfor", "for") and D < T - 1e-6 and "decoy" not in pl and b["kind"] in ("comm", "mess") and rng.random() < 0.5:
            # after the timeout, a second timed wait (on an exec that cannot complete) across the natural completion date of the
            # first activity: an expired timed wait that left a registration behind would answer it when that activity completes
            v["zs"] = (T - D) + rng.choice([0.25, 1.0]) * max(T - c, 0.01)
        if b["kind"] in ("exec", "io") and "bg" not in b and mode in ("forcancel", "for"):
            v["probe"] = 1
        out.append(v)
    return out


# ------------------------------------------------------------------------------------------------ oracle
def ulps(*xs):
    return 4 * math.ulp(max(abs(x) for x in xs))


def read_ref(run):
    """(c, T, Td, created) of an un-timed run, or None when it did not behave as a reference."""
    if run is None or run["status"] != 0:
        return None
    call, ret, cr = first(run, "waiter", "call"), first(run, "waiter", "ret"), first(run, "waiter", "created")
    if not call or not ret or not cr or ret["out"] != "ok" or ret["state"] != "FINISHED":
        return None
    ref = {"c": float(call["clock"]), "T": float(ret["clock"]), "created": float(cr["clock"])}
    for kv in every(run, "sig", "exec"):
        # the completion signal is emitted when a waiter notices the completion; the activity's own finish time is the natural date
        if kv["name"] == "decoy" and kv["state"] == "FINISHED" and float(kv["finish"]) <= float(kv["clock"]):
            ref["Td"] = float(kv["finish"])
    return ref


def delivered(spec, run):
    """How many times the payload of the timed comm/mess reached a receiver, and what the timed receive buffer holds at the end."""
    role = spec.get("role", "send" if spec["kind"] == "comm" else "put")
    if role in ("send", "put"):
        n = sum(1 for kv in every(run, "peer", "get") if kv["out"] == "ok" and kv["payload"] == "orig")
        return n, None
    rb = every(run, "waiter", "rbuf")
    last = rb[-1]["payload"] if rb else None
    n = (1 if last == "orig" else 0) + sum(1 for kv in every(run, "waiter", "get") if kv["out"] == "ok" and kv["payload"] == "orig")
    return n, last


def judge(ctx, ref, spec, run, w):
    """Decide one timed variant. Returns True when it was fully checked."""
    kind, mode, via = spec["kind"], spec["mode"], spec.get("via", "typed")
    tag = "%s:%s/%s:%s" % (kind, mode, via, "started" if spec.get("started", 1) else "unstarted")
    c, T, Td = ref["c"], ref["T"], ref.get("Td")
    tv = spec["tv"]
    D = tv if mode == "until" else c + tv
    Tm = T
    if mode == "anyfor" and Td is not None and Td < T:
        Tm = Td
    eps = PREC + ulps(T, D, c)
    rate, quantum = rate_and_quantum(spec)
    zone = abs(Tm - D) <= eps or (rate > 0 and abs(Tm - D) * rate <= quantum)
    cls = "tie" if zone else ("before" if Tm < D else "after")
    ctx.count("variants.%s.%s.%s" % (kind, mode, cls))
    if run is None:
        ctx.inconclusive("timed run: watchdog")
        return False

    def vio(rule, what):
        ctx.violation("C12:%s:%s" % (rule, tag), "%s\n  reference: call at c=%r, natural completion T=%r%s; deadline D=%r (%s, D-T=%.3g); placement %s\n  spec: %s\n  log: %s"
                      % (what, c, T, "" if Td is None else ", decoy completes at %r" % Td, D, cls, D - T, spec.get("_pl"), spec_line(spec),
                         " | ".join("%s %s %s" % (a, b_, " ".join("%s=%s" % kv for kv in d.items())) for a, b_, d in run["recs"][:14])), w)
        return False

    noise = run["noise"]
    san = [l for l in noise if "ERROR: AddressSanitizer" in l or "runtime error:" in l]
    if san:
        return vio("sanitizer", "sanitizer report: %s" % san[0][:200])
    if run["status"] != 0:
        msg = [l for l in noise if "ssertion" in l or "CRITICAL" in l or "xception" in l][:2]
        return vio("crash:%s" % {"after": "timeout-expires", "tie": "tie", "before": "completes-first"}[cls],
                   "the program died (status %d) instead of returning from the timed wait: %s" % (run["status"], msg or noise[:2]))
    if any("Deadlock detected" in l for l in noise):
        return vio("deadlock", "the simulation ended in a deadlock report")
    call, ret = first(run, "waiter", "call"), first(run, "waiter", "ret")
    if call is None or ret is None:
        return vio("stuck", "the timed call never returned (no deadlock report either)")
    if float(call["clock"]) != c:
        ctx.inconclusive("the call date of the timed run differs from the reference run")
        return False
    out, rc, which, state = ret["out"], float(ret["clock"]), ret["which"], ret["state"]
    if out.startswith("exc:"):
        return vio("unexpected-exception:" + out[4:], "the timed wait raised %s" % out[4:])

    # ---- outcome
    if cls == "before" and out != "ok":
        return vio("spurious-timeout", "timeout raised although the activity completes %.3g s before the deadline" % (D - Tm))
    if cls == "after" and out != "timeout":
        return vio("missed-timeout", "no timeout although the activity is not complete at the deadline (it completes %.3g s later); the call returned "
                   "'%s' at %r with state %s" % (Tm - D, out, rc, state))
    if cls == "tie" and Tm == D and kind != "mess" and mode != "anyfor" and out != "ok":
        return vio("tie-timeout", "completion exactly at the deadline must count as completed, a timeout was raised")
    # ---- return date
    want = max(Tm, c) if out == "ok" else D
    if abs(rc - want) > eps + (abs(Tm - D) if cls == "tie" else 0.0):
        return vio("return-date:" + out, "the call returned '%s' at %r, expected %r (off by %.3g)" % (out, rc, want, rc - want))
    ctx.maximum("worst_return_date_error", abs(rc - want))
    if cls != "tie":
        ctx.maximum("worst_%s_date_error_outside_tie_zone" % out, abs(rc - want))
        if out == "timeout" and rc == D:
            ctx.count("timeout.raised-at-exactly-call+t")
    if rc < c:
        return vio("clock-went-back", "returned at %r before the call date %r" % (rc, c))

    sigs = [kv for kv in every(run, "sig", kind) if kv.get("name") == "main"] if kind in ("exec", "io") else []
    ndel, rbuf = delivered(spec, run) if kind in ("comm", "mess") else (None, None)
    role = spec.get("role")
    cancelled = (out == "timeout" and mode == "forcancel")

    # ---- a successful return means completion
    if out == "ok":
        if mode == "anyfor":
            date = {"main": T, "decoy": Td}.get(which)
            if date is None or date > rc + eps:
                return vio("wait_any-returned-noncompleted", "wait_any_for returned '%s' at %r, which has not completed by then" % (which, rc))
        else:
            if state != "FINISHED":
                return vio("ok-without-completion", "the wait returned normally but the activity is in state %s" % state)
        main_returned = (mode != "anyfor" or which == "main")
        if main_returned and kind in ("exec", "io") and not any(s["state"] == "FINISHED" and float(s["clock"]) <= rc for s in sigs):
            return vio("ok-without-completion", "the wait returned normally but no completion of the activity was signalled by then")
        if main_returned and kind in ("comm", "mess") and role in ("recv", "get"):
            rb = every(run, "waiter", "rbuf")
            if not rb or rb[0]["payload"] != "orig":
                return vio("ok-without-completion", "the timed receive returned normally but its buffer holds '%s'" % (rb[0]["payload"] if rb else None))

    # ---- after a timeout without cancel: still alive, completes at its natural date
    slept = first(run, "waiter", "slept")
    if slept is not None:
        s0, s1, sd = float(slept["from"]), float(slept["clock"]), float(slept["d"])
        if slept["out"] != "timeout" or abs(s1 - (s0 + sd)) > eps + ulps(s0, s1):
            return vio("later-timed-wait-answered-early", "after the timeout, wait_for(%r) on an exec that cannot complete, called at %r, "
                       "returned '%s' at %r with the exec %s (the first activity completes at %r): the expired timed wait answered "
                       "a later one" % (sd, s0, slept["out"], s1, slept.get("exstate"), T))
        ctx.count("checked.second-timed-wait-across-completion-after-timeout")
    again = first(run, "waiter", "again")
    if not cancelled and again is not None:
        if again["out"] != "ok" or again["state"] != "FINISHED":
            return vio("disturbed", "after the timed call the activity could not be waited to completion: %s, state %s" % (again["out"], again["state"]))
        T2 = float(again["clock"])
        slack = eps + (2.0 / min(spec["rbw"], spec["wbw"]) if kind == "io" else 0.0)
        if out == "timeout" and T2 < D - eps:
            return vio("disturbed", "timeout at %r, yet the activity then completed at %r, before the deadline" % (rc, T2))
        if abs(T2 - max(T, rc, float(slept["clock"]) if slept is not None else rc)) > slack:
            return vio("disturbed", "after the timed call the activity completed at %r instead of its natural date %r (off by %.3g)" % (T2, T, T2 - T))
        ctx.count("checked.completes-at-natural-date-after-timeout")
    if not cancelled and kind in ("comm", "mess") and ndel != 1:
        return vio("message-count", "the payload of the timed %s was delivered %d times" % (kind, ndel))

    # ---- after wait_for_or_cancel timed out: really stopped
    if cancelled:
        chk, later = first(run, "waiter", "cancelchk"), first(run, "waiter", "later")
        if chk is None or later is None:
            return vio("stuck", "the waiter did not get past the cancelling timed wait")
        for r in (chk, later):
            if r["state"] != "CANCELED":
                return vio("cancel-ineffective", "state %s after wait_for_or_cancel timed out" % r["state"])
        if kind in ("exec", "io") and float(later["rem"]) != float(chk["rem"]):
            return vio("cancel-ineffective", "remaining work moved from %s to %s after the cancel" % (chk["rem"], later["rem"]))
        if kind == "exec" and "bg" not in spec and (float(chk["hostload"]) != 0 or float(later["hostload"]) != 0):
            return vio("cancel-ineffective", "host load %s / %s after the cancel" % (chk["hostload"], later["hostload"]))
        if kind == "comm" and (float(chk["linkload"]) != 0 or float(later["linkload"]) != 0):
            return vio("cancel-ineffective", "link load %s / %s after the cancel" % (chk["linkload"], later["linkload"]))
        if any(s["state"] == "FINISHED" for s in sigs):
            return vio("cancel-ineffective", "the cancelled activity signalled a normal completion")
        if kind in ("comm", "mess") and role in ("send", "put") and ndel != 0:
            return vio("cancel-ineffective", "the payload of the cancelled %s was delivered to the peer" % role)
        if kind in ("comm", "mess") and role in ("recv", "get") and rbuf != "null":
            return vio("cancel-ineffective", "the buffer of the cancelled %s holds '%s'" % (role, rbuf))
        ctx.count("checked.cancelled-really-stopped")
    pr = first(run, "waiter", "probe")
    if pr is not None:
        dur, nat = float(pr["end"]) - float(pr["start"]), ref["nat"]
        slack = eps + ulps(float(pr["end"])) + (2.0 / min(spec["rbw"], spec["wbw"]) if kind == "io" else 0.0)
        if abs(dur - nat) > slack:
            return vio("cancel-ineffective:probe" if cancelled else "probe-duration",
                       "the same activity run again alone took %r instead of %r (off by %.3g)" % (dur, nat, dur - nat))
        ctx.count("checked.probe-duration")
    if first(run, "waiter", "end") is None:
        return vio("stuck", "the waiter never reached its end")
    ctx.count("outcome.%s.%s" % (out, cls))
    return True


# ------------------------------------------------------------------------------------------------ pipeline
def ref_spec(b, pl=None):
    s = dict(b)
    if pl:
        s.update(pl)
    s.update(mode="none", via="typed", started=1)
    return s


def pipeline(ctx, fl, bases, nvar, workers=None):
    """bases: list of (name, base dict). Three batches: first reference, reference per placement, timed variants."""
    r0 = run_batch(ctx, fl, [dict(ref_spec(b), id="%s.r0" % n) for n, b in bases], workers)
    todo = []          # (name, base, placement, ref spec)
    for n, b in bases:
        ctx.evaluation()
        ref0 = read_ref(r0.get("%s.r0" % n))
        if ref0 is None:
            ctx.inconclusive("reference run failed or timed out")
            continue
        ref0["nat"] = ref0["T"] - ref0["created"]      # isolated duration of the activity (started at its creation in the reference)
        pls = ([named_placement(x, ref0["c"], ref0["T"]) for x in b["_placements"]] if "_placements" in b
               else placements(ctx.sub_rng("pl", n), b, ref0["c"], ref0["T"]))
        for k, pl in enumerate(pls):
            todo.append(("%s.p%d" % (n, k), b, pl, ref_spec(b, pl), ref0 if len(pl) == 1 else None, ref0["nat"]))
    need = [dict(rs, id=n) for n, b, pl, rs, known, nat in todo if known is None]
    r1 = run_batch(ctx, fl, need, workers)
    jobs = []
    for n, b, pl, rs, known, nat in todo:
        ref = known
        if ref is None:
            ctx.evaluation()
            ref = read_ref(r1.get(n))
            if ref is not None:
                ref["nat"] = nat
        if ref is None:
            ctx.inconclusive("reference run failed or timed out")
            continue
        if "_directed" in b:
            k0, step = b["_directed"]
            vs = directed_variants(b, pl, ref)[k0::step]
        else:
            vs = variants(ctx.sub_rng("v", n), b, pl, ref, nvar)
        for k, v in enumerate(vs):
            v = dict(v)
            v.update({x: y for x, y in b.items() if not x.startswith("_")})
            v.update(pl)
            v["id"] = "%s.v%d" % (n, k)
            jobs.append((v, ref, rs))
    runs = run_batch(ctx, fl, [v for v, _, _ in jobs], workers)
    for v, ref, rs in jobs:
        ctx.evaluation()
        w = {"flavour": fl, "ref_spec": {k: x for k, x in rs.items()}, "spec": v}
        if judge(ctx, ref, v, runs.get(str(v["id"])), w) and ref["c"] < ref["T"]:
            ctx.nontrivial({k: x for k, x in v.items() if k != "id"})
    return jobs


# Directed cases: always run (the known findings are re-found by them on every run).
def directed():
    out = []
    # exact tie and both sides of it for each kind / flavour, call at creation; for some also in flight and exactly at the completion date
    for kind, extra, pls in (("exec", {"speed": 1e9, "flops": 3e8}, ["at-creation", "at-completion"]),
                             ("io", {"ioop": "read", "rbw": 1e8, "wbw": 5e7, "iosize": 1e8}, ["at-creation"]),
                             ("comm", {"role": "send", "bw": 1e8, "lat": 1e-4, "size": 1e7, "p": 0.25}, ["at-creation"]),
                             ("comm", {"role": "recv", "bw": 1e8, "lat": 1e-4, "size": 1e7, "p": 0.0}, ["at-creation", "in-flight"]),
                             ("mess", {"role": "get", "p": 0.45}, ["at-creation", "at-completion"]),
                             ("mess", {"role": "put", "p": 0.45}, ["at-creation"])):
        b = {"kind": kind, "pre": 0.1}
        b.update(extra)
        b["_placements"] = pls
        b["_directed"] = (0, 1)
        out.append(b)
    return out


def directed_variants(b, pl, ref):
    """Deadline at T-1e-3, T, T+1e-3 and at the call date itself (timeout 0) through every wait flavour, on started and (when the call is
    placed at the creation, so that the start date is the same as in the reference run) on not-yet-started activities."""
    c, T = ref["c"], ref["T"]
    modes = MODES_STARTED + (MODES_UNSTARTED if pl["_pl"] == "at-creation" else [])
    vs = []
    for off in (-1e-3, 0.0, 1e-3, None):
        for mode, via, started in modes:
            D = c if off is None else T + off
            if D < c or (mode == "until" and D <= c):
                continue
            tv = D if mode == "until" else (0.0 if off is None else timeout_for(c, D))
            v = {"mode": mode, "via": via, "started": started, "tv": tv}
            if mode == "forcancel":
                v["z"] = 1e-3
            if b["kind"] in ("exec", "io") and mode in ("for", "forcancel"):
                v["probe"] = 1
            if b["kind"] in ("comm", "mess") and mode in ("for", "anyfor") and off == -1e-3:
                v["zs"] = 1e-3 + 0.25 * max(T - c, 0.01)     # second timed wait across the completion date after the timeout
            if v not in vs:
                vs.append(v)
    return vs


def run(ctx):
    nb = ctx.size(44, 2000)
    nvar = 6
    for fl in ("hooks", "asan"):
        build.harness(HARNESS, fl)
    dbases = [("d%d" % i, b) for i, b in enumerate(directed())]
    gbases = [("g%d" % i, gen_base(ctx.sub_rng("b", i))) for i in range(nb)]
    # asan leg (slow: a forked ASan child costs ~10x a plain one): three directed bases with a third of their variants and a few generated
    # bases, run beside the hooks leg on a third of the workers
    na = max(3, nb // 16)
    abases = [(n, dict(b, _directed=(k, 3), _placements=["at-creation"])) for k, (n, b) in enumerate(dbases[::2])] + [("a%d" % i, b) for i, (_, b) in enumerate(gbases[:na])]
    err = []

    def asan_leg():
        try:
            pipeline(ctx, "asan", abases, 3, workers=max(2, int(os.environ.get("VERIF_JOBS", core.NCPU)) // 3))
        except Exception as e:       # re-raised in the main thread: a harness failure, not a verdict
            err.append(e)
    th = threading.Thread(target=asan_leg)
    th.start()
    jobs = pipeline(ctx, "hooks", dbases + gbases, nvar)
    th.join()
    if err:
        raise err[0]
    for v, ref, rs in jobs[:2] + jobs[len(jobs) // 2:len(jobs) // 2 + 2]:
        ctx.sample({"spec": spec_line(v), "reference": ref})


def replay(ctx, w):
    fl = w["flavour"]
    rs = dict(w["ref_spec"], id="ref")
    v = dict(w["spec"], id="var")
    runs = run_batch(ctx, fl, [rs, v])
    ctx.evaluation()
    ref = read_ref(runs.get("ref"))
    if ref is None:
        ctx.inconclusive("reference run failed")
        return
    for who, tag, kv in (runs.get("var") or {"recs": []})["recs"]:
        print("  ", who, tag, kv)
    judge(ctx, ref, v, runs.get("var"), w)
