"""C33 Cartesian topologies follow MPI rules."""
from verif import build, proc
from verif.gen import mpi

META = {
    "id": "C33", "engine": "E5 smpi programs", "engine_path": "harness/mpi/cart.c",
    "engine_kind": "self-checking MPI C programs run under the real smpirun/SMPI",
    "level": "exploration",
    "technique": "in-program reference from the MPI standard (row-major rank<->coords, wrap-around, shift definition, Cart_sub, Dims_create) over generated grids, every rank checking itself",
    "level_text": "Generated grids (1-4 dimensions, extents 1-5, all periodicity masks, worlds of 1-24 ranks incl. ranks left out of the grid): "
                  "every rank checks Cart_coords/Cart_rank as inverse bijections over the whole grid, wrap-around of out-of-range coordinates on "
                  "periodic dimensions, Cart_shift in every direction for displacements in [-2d,2d] (MPI_PROC_NULL off a non-periodic edge), "
                  "Cart_get, Cart_sub (size, kept dims/periods, own kept coordinates) and Dims_create (product, given entries kept, free "
                  "entries non-increasing). One grid per smpirun execution.",
    "level_note": "One grid per process: sequences of several topology communicators in one run are not explored (see DESIGN.md, the "
                  "multi-grid variant deadlocks inside SMPI, which is outside this statement). Hooks flavour only (SMPI's dlopen "
                  "privatisation under ASan reports in the sanitizer's own sigaltstack interceptor).",
    "rule": "case = (np, seed) -> one grid + one Dims_create request; non-trivial = distinct grid descriptions (dims, periods, remain mask) "
            "with >=2 nodes whose checks all ran to the SUM line",
    "ready": True,
}


def judge(ctx, res, np_, seed):
    lines = res.out.splitlines()
    desc = next((l for l in lines if l.startswith("CASE ")), None)
    crash = [l for l in lines if l.startswith("CRASH")]
    bads = [l for l in lines if l.startswith("BAD ")]
    summ = next((l for l in lines if l.startswith("SUM ")), None)
    w = {"np": np_, "seed": seed}
    seen = set()
    for b in bads:
        rule = b.split()[1]
        if rule in seen:
            continue
        seen.add(rule)
        ctx.violation("C33:%s" % rule, "np=%d seed=%d: %s" % (np_, seed, b), w)
    for c in crash:
        op = c.split("op=")[1].split()[0]
        ctx.violation("C33:crash:%s" % op, "np=%d seed=%d: %s" % (np_, seed, c), w)
    if not crash and (res.rc != 0 or summ is None):
        ctx.violation("C33:abort", "np=%d seed=%d: smpirun rc=%s without SUM line: %s" % (np_, seed, res.rc, res.err[-300:]), w)
        return None
    if summ and not crash:
        ctx.count("mpi_result_checks", int(summ.split()[1].split("=")[1]))
        return desc
    return None


def run(ctx):
    n = ctx.size(100, 3000)
    exe = build.smpicc("mpi/cart.c", "hooks")
    nps = [1, 2, 3, 4, 6, 7, 8, 12, 16, 24]
    jobs = [(nps[i % len(nps)] if i % 3 else ctx.sub_rng(i).randint(1, 24), ctx.sub_seed(i) % 1000003) for i in range(n)]

    def one(j):
        np_, seed = j
        res = mpi.smpirun(exe, np_, [seed, 1])
        ctx.evaluation()
        if res.timed_out:
            ctx.inconclusive("smpirun watchdog")
            return
        desc = judge(ctx, res, np_, seed)
        if desc and "nodes=1" not in desc.split()[-1:]:
            ctx.nontrivial(" ".join(desc.split()[2:]))
        if desc:
            ctx.sample({"np": np_, "seed": seed, "grid": " ".join(desc.split()[2:])})
    try:
        ctx.pmap(one, jobs)
    finally:
        mpi.cleanup()


def replay(ctx, w):
    exe = build.smpicc("mpi/cart.c", "hooks")
    try:
        res = mpi.smpirun(exe, w["np"], [w["seed"], 1])
        ctx.evaluation()
        judge(ctx, res, w["np"], w["seed"])
    finally:
        mpi.cleanup()
