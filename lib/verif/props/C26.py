"""C26 Structured topologies follow their routing algorithms (torus, fat-tree, dragonfly, star; loopback and limiter links as configured)."""
import os
import shutil
import tempfile

from verif import core
from verif.gen import zones as G
from verif.oracles import topo as T

META = {
    "id": "C26", "engine": "E3 route_dump", "engine_path": "harness/route_dump2.cpp",
    "engine_kind": "C++ harness building one generated cluster zone per platform through the C++ platform API (callbacks for hosts, loopback and limiter "
                   "links) or loading the equivalent XML <cluster>; one forked child per platform under a CPU-time watchdog; python reference",
    "level": "exploration",
    "technique": "reference-topology walk check: the physical topology is rebuilt in python from the shape parameters as the documentation describes it, the "
                 "generated link names are decoded into its cables, and Host::route_to() of every ordered pair must be a connected walk of the documented form "
                 "(star zones and flat clusters: exact expected list)",
    "level_text": "Torus (1-5 dimensions, sizes 1-5, <= 64 nodes, odd and even sizes for the tie rule), fat-trees (1-3 levels, random down/up/cable-count vectors), "
                  "dragonflies (<= 3 groups x 3 chassis x 3 routers x 3 nodes, random cable multiplicities), Star zones with arbitrary up/down/loopback routes "
                  "and shared backbone links, and flat XML clusters (with/without backbone); with and without loopback and limiter links, SHARED / FATPIPE / "
                  "SPLITDUPLEX cables, through the C++ API and through XML <cluster> tags. For every ordered pair (source==destination included) the route is "
                  "checked link by link: connected walk over existing cables from source to destination; torus: one dimension after the other, min(d, size-d) "
                  "hops per dimension (either way on ties); fat-tree: strictly up to the nearest common ancestor level then strictly down over cables the PGFT "
                  "labelling connects; dragonfly: local, then only the green/black/blue hops the documented hierarchy needs (links to the nth group on the nth "
                  "router), local; star/flat cluster: up links of the source then down links of the destination without repetition; loopback link alone when "
                  "configured and source==destination; the limiter of every traversed element exactly once; split-duplex halves used consistently; latency = "
                  "sum of the latencies of the returned links.",
    "level_note": "The order of the dimensions of a torus, the choice among parallel cables and among equivalent parents of a fat tree, and the green/black order "
                  "inside a dragonfly group are left free (the documentation does not fix them). The position of limiter links inside the list is not judged, only "
                  "their multiset. Dragonflies with more groups than routers per group are not generated (the documented 'nth router of the group' does not exist). "
                  "Link bandwidths (cable multiplicities) are not observed. Dragonfly pairs whose documented route uses a group router outside chassis 0 (open "
                  "finding: out-of-bounds read) are asked last through a query that survives SIGSEGV/SIGABRT (at most 40 per shape, 3 under ASan). The decoding of "
                  "fat-tree switch ids and of the group of a green dragonfly cable follows the order in which SimGrid numbers them (their names do not spell it).",
    "rule": "case = one shape (topology parameters x loopback x limiter x sharing policy x API/XML); non-trivial = distinct shapes with >= 2 nodes fully answered and checked",
    "assumptions": ["node numbering of clusters: rank = mixed radix of the coordinates, first coordinate fastest for torus, (group, chassis, blade, node) slowest-to-fastest for dragonfly",
                    "generated link names spell the endpoints of the cable they model (documented naming of cluster links)"],
    "ready": True,
}

LOOP_LAT = 0.0005      # harness/route_dump2.cpp: latency of API loopback links


class Case:
    def __init__(self, cid, kind, params, via, flavour, policy, lat, loopback, limiter, limlat, mult=None):
        self.id = "%s/%s/%s" % (cid, via, flavour)
        self.cid, self.kind, self.params, self.via, self.flavour = cid, kind, params, via, flavour
        self.policy, self.lat, self.loopback, self.limiter, self.limlat = policy, lat, loopback, limiter, limlat
        self.mult = mult or (1, 1, 1)
        self.zone = "c"
        split = policy == "D"
        if kind == "torus":
            self.shape = T.Torus(self.zone, params, via, loopback, limiter, split)
        elif kind == "fattree":
            self.shape = T.FatTree(self.zone, params[0], params[1], params[2], params[3], via, loopback, limiter, split)
        elif kind == "dragonfly":
            self.shape = T.Dragonfly(self.zone, params[0], params[1], params[2], params[3], via, loopback, limiter, split)
        self.n = self.shape.n
        self.xml_path = None

    def host(self, i):
        return ("%s_n%d" % (self.zone, i)) if self.via == "api" else "n%d" % i

    def spec_lines(self, scratch):
        pol = self.policy
        if self.via == "api":
            lo, li = "1" if self.loopback else "0", "1" if self.limiter else "0"
            if self.kind == "torus":
                z = "Z %s - torus %r %s %s %s %s %r" % (self.zone, self.lat, pol, ",".join(map(str, self.params)), lo, li, self.limlat)
            elif self.kind == "fattree":
                h, m, w, p = self.params
                z = "Z %s - fattree %r %s %d %s %s %s %s %s %r" % (self.zone, self.lat, pol, h, ",".join(map(str, m)), ",".join(map(str, w)),
                                                               ",".join(map(str, p)), lo, li, self.limlat)
            else:
                g, c, b, n = self.params
                z = "Z %s - dragonfly %r %s %d,%d %d,%d %d,%d %d %s %s %r" % (self.zone, self.lat, pol, g, self.mult[0], c, self.mult[1], b, self.mult[2], n,
                                                                        lo, li, self.limlat)
            return [z, "S " + self.zone]
        if self.xml_path is None:
            fd, self.xml_path = tempfile.mkstemp(prefix="clu-", suffix=".xml", dir=scratch)
            with os.fdopen(fd, "w") as f:
                f.write(self.xml())
        return ["XML " + self.xml_path]

    def xml(self):
        pol = {"S": "SHARED", "F": "FATPIPE", "D": "SPLITDUPLEX"}[self.policy]
        if self.kind == "torus":
            topo, tp = "TORUS", ",".join(map(str, self.params))
        elif self.kind == "fattree":
            h, m, w, p = self.params
            topo, tp = "FAT_TREE", "%d;%s;%s;%s" % (h, ",".join(map(str, m)), ",".join(map(str, w)), ",".join(map(str, p)))
        else:
            g, c, b, n = self.params
            topo, tp = "DRAGONFLY", "%d,%d;%d,%d;%d,%d;%d" % (g, self.mult[0], c, self.mult[1], b, self.mult[2], n)
        extra = ""
        if self.loopback:
            extra += ' loopback_bw="100MBps" loopback_lat="%rs"' % LOOP_LAT
        if self.limiter:
            extra += ' limiter_link="150MBps"'
        return ("<?xml version='1.0'?>\n<!DOCTYPE platform SYSTEM \"https://simgrid.org/simgrid.dtd\">\n<platform version=\"4.1\">\n"
                " <zone id=\"world\" routing=\"Full\">\n  <cluster id=\"%s\" prefix=\"n\" suffix=\"\" radical=\"0-%d\" speed=\"1Gf\" bw=\"125MBps\" lat=\"%rs\" "
                "sharing_policy=\"%s\" topology=\"%s\" topo_parameters=\"%s\"%s/>\n </zone>\n</platform>\n"
                % (self.zone, self.n - 1, self.lat, pol, topo, tp, extra))

    def link_latency(self, name):
        s = self.shape.special(name)
        if s is None:
            return self.lat
        if s[0] == "loop":
            return LOOP_LAT
        return self.limlat if self.via == "api" else 0.0

    def describe(self):
        return "%s %r policy=%s loopback=%d limiter=%d%s via=%s" % (self.kind, self.params, self.policy, self.loopback, self.limiter,
                                                                     (" limiter-latency=%r" % self.limlat) if self.limiter and self.via == "api" else "", self.via)

    def witness(self):
        return dict(cid=self.cid, kind=self.kind, params=self.params, via=self.via, flavour=self.flavour, policy=self.policy, lat=self.lat,
                    loopback=self.loopback, limiter=self.limiter, limlat=self.limlat, mult=self.mult)


def case_from_witness(w):
    return Case(w["cid"], w["kind"], w["params"], w["via"], w["flavour"], w["policy"], w["lat"], w["loopback"], w["limiter"], w["limlat"], tuple(w.get("mult") or (1, 1, 1)))


class RunPlat:
    def spec(self):
        return "P %s\n%s\nE\n" % (self.id, "\n".join(self.lines))


# ---------------------------------------------------------------------------------------------------------------------
def pair_features(case, a, b):
    if case.kind == "dragonfly":
        return case.shape.features(a, b)
    if case.kind == "torus" and sum(1 for d in case.params if d == 1) >= 2:
        return ["two-dimensions-of-size-1"]
    return []


def shape_key(case):
    f = [case.kind]
    if case.limiter:
        f.append("limiter")
    if case.policy == "D":
        f.append("splitduplex")
    return ":".join(f)


def pair_order(case):
    """All ordered pairs; for dragonflies, the pairs whose documented route goes through a group router outside chassis 0 last
    (they read out of bounds on this tree and may kill the child)."""
    pairs = [(a, b) for a in range(case.n) for b in range(case.n)]
    if case.kind == "dragonfly":
        pairs.sort(key=lambda pr: 1 if risky(case, *pr) else 0)
        nr = sum(1 for pr in pairs if risky(case, *pr))
        cap = 3 if case.flavour == "asan" else 40      # a sanitizer report cannot be survived: every one costs a new process
        if nr > cap:
            pairs = pairs[:len(pairs) - nr + cap]
    return pairs


def risky(case, a, b):
    return case.kind == "dragonfly" and "group-router-outside-chassis-0" in case.shape.features(a, b)


def close(a, b):
    return abs(a - b) <= 1e-9 * max(abs(a), abs(b)) + 1e-15


def judge_pair(ctx, case, a, b, lat, links, exc):
    ctx.count("pairs_judged")
    w = dict(case.witness(), pair=[a, b])
    feats = pair_features(case, a, b)
    fs = (":" + "+".join(feats)) if feats else ""
    if exc is not None and exc.startswith("CRASH "):
        ctx.violation("C26:%s:crash:%s%s" % (case.kind, exc[6:], fs), "%s [%s]: route_to(%d -> %d) killed the process (%s)" % (case.id, case.describe(), a, b, exc[6:]), w)
        return False
    if exc is not None:
        ctx.violation("C26:%s:exception%s" % (shape_key(case), fs), "%s [%s]: route_to(%d -> %d) raised %r" % (case.id, case.describe(), a, b, exc), w)
        return False
    bad = case.shape.check(a, b, links)
    if bad is not None:
        rule, detail = bad
        ctx.violation("C26:%s:%s%s" % (case.kind, rule, fs), "%s [%s]: route_to(%d -> %d) = %r: %s" % (case.id, case.describe(), a, b, links, detail), w)
        return False
    want = sum(case.link_latency(l) for l in links)
    if not close(lat, want):
        lim = sum(case.link_latency(l) for l in links if (case.shape.special(l) or ("",))[0] == "lim")
        if lim and close(lat, want - lim):
            ctx.violation("C26:latency:limiter-latency-not-counted", "%s [%s]: route_to(%d -> %d) = %r has latency %.12g; its links' latencies sum to %.12g "
                          "(the %.12g of the limiter links is missing)" % (case.id, case.describe(), a, b, links, lat, want, lim), w)
        else:
            ctx.violation("C26:%s:latency-not-sum-of-links" % case.kind, "%s [%s]: route_to(%d -> %d) = %r has latency %.17g, its links' latencies sum to %.17g"
                          % (case.id, case.describe(), a, b, links, lat, want), w)
        return False
    ctx.count("links_checked", len(links))
    if a == b and case.loopback:
        ctx.count("loopback_routes_checked")
    if case.limiter:
        ctx.count("routes_with_limiters_checked")
    ctx.maximum("max_links_in_a_route." + case.kind, len(links))
    return True


def judge_case(ctx, case, scratch, state, corrupt=None):
    ctx.evaluation()
    cpu, wall = G.budgets(case.flavour)
    remaining = pair_order(case) if "pairs" not in state.get(case.id + "#", {}) else state[case.id + "#"]["pairs"]
    verdict = "ok"
    attempt = 0
    pre = state.pop(case.id, None)
    while remaining:
        if pre is not None:
            res, pre = pre, None
        else:
            rp = runnable(case, remaining, "~r%d" % attempt, scratch)
            res = G.run_batch(case.flavour, [rp], cpu, wall, scratch)[rp.id]
        attempt += 1
        if res.status in ("wall", "missing"):
            ctx.inconclusive("wall-clock watchdog (%s)" % res.status)
            return "inconclusive"
        if res.build_errors:
            raise core.HarnessFailure("generator built a platform SimGrid rejects: %s [%s]: %s" % (case.id, case.describe(), res.build_errors[:2]))
        answered = res.routes
        if corrupt:
            answered = corrupt(answered)
        for (s, d, lat, links, exc) in answered:
            a, b = case.shape.host_rank(s), case.shape.host_rank(d)
            if a is None or b is None:
                raise core.HarnessFailure("%s: unexpected host names %s %s" % (case.id, s, d))
            if not judge_pair(ctx, case, a, b, lat, links, exc):
                verdict = "bad"
        n = len(res.routes)
        if res.status == "ok" and res.done:
            if n != len(remaining):
                raise core.HarnessFailure("%s: %d answers for %d queries" % (case.id, n, len(remaining)))
            break
        if n >= len(remaining):
            ctx.violation("C26:%s:crash-after-last-query:%s" % (case.kind, res.status), "%s: child ended with %s after the last query: %s" % (case.id, res.status, res.noise[:3]), case.witness())
            return "bad"
        a, b = remaining[n]
        w = dict(case.witness(), pair=[a, b])
        feats = pair_features(case, a, b)
        fs = (":" + "+".join(feats)) if feats else ""
        if res.status == "spin":
            rp = runnable(case, [(a, b)], "~spin", scratch)
            again = G.run_batch("hooks", [rp], 4 * cpu, 4 * wall, scratch)[rp.id]
            if again.status == "spin":
                ctx.violation("C26:%s:spin%s" % (shape_key(case), fs), "%s [%s]: route_to(%d -> %d) did not return within %.0f s and then %.0f s of CPU time"
                              % (case.id, case.describe(), a, b, cpu, 4 * cpu), w)
                verdict = "bad"
            else:
                ctx.inconclusive("CPU budget exhausted once, not reproduced")
        else:
            reps = [l for l in res.noise if "Sanitizer" in l or "runtime error" in l or "CRITICAL" in l]
            sym = "crash:" + ("sanitizer" if res.status.startswith("exit") and reps else res.status)
            ctx.count("pairs_judged")
            ctx.violation("C26:%s:%s%s" % (case.kind, sym, fs), "%s [%s]: route_to(%d -> %d) killed the process (%s): %s" % (case.id, case.describe(), a, b, res.status, (reps or res.noise)[:2]), w)
            verdict = "bad"
        remaining = remaining[n + 1:]
        if n == 0 and attempt >= 2 and remaining:      # dies before the first answer twice in a row: the platform itself cannot be built
            ctx.count("pairs_not_asked_platform_cannot_be_built", len(remaining))
            break
        if attempt >= 4 and remaining:
            ctx.count("pairs_not_asked_after_repeated_crashes", len(remaining))
            break
    return verdict


def runnable(case, pairs, suffix, scratch):
    r = RunPlat()
    r.id = case.id.replace("/", "~") + suffix
    r.lines = case.spec_lines(scratch) + [("QF %s %s" if risky(case, a, b) else "Q %s %s") % (case.host(a), case.host(b)) for a, b in pairs]
    return r


# ---------------------------------------------------------------------------------------------------------------------
# star zones and flat clusters: exact expected lists
# ---------------------------------------------------------------------------------------------------------------------
class StarCase:
    def __init__(self, cid, plat, flavour="hooks"):
        self.id = "%s/api/%s" % (cid, flavour)
        self.kind = "star"
        self.flavour = flavour
        self.plat = plat
        self.via = "api"

    def hosts(self):
        return self.plat.all_hosts()

    def expected(self, a, b):
        ents = self.plat.star["s"]
        ea, eb = ents[a], ents[b]
        return T.star_route(ea["up"], eb["down"], ea["loop"], a == b)

    def lines(self, scratch):
        return list(self.plat.lines)

    def latency(self, links):
        return sum(self.plat.link_latency(l) for l in links)

    def witness(self):
        return dict(star=True, spec=list(self.plat.lines), cid=self.id.split("/")[0], flavour=self.flavour)

    def describe(self):
        return "star zone, %d members" % len(self.plat.star["s"])


class FlatCase:
    def __init__(self, cid, n, policy, backbone, loopback, limiter, lat, bblat, flavour="hooks"):
        self.id = "%s/xml/%s" % (cid, flavour)
        self.kind = "flat-cluster"
        self.flavour = flavour
        self.via = "xml"
        self.n, self.policy, self.backbone, self.loopback, self.limiter, self.lat, self.bblat = n, policy, backbone, loopback, limiter, lat, bblat
        self.ref = T.FlatCluster("c", n, policy == "D", backbone, loopback, limiter)
        self.xml_path = None

    def hosts(self):
        return ["n%d" % i for i in range(self.n)]

    def expected(self, a, b):
        return self.ref.expected(int(a[1:]), int(b[1:]))

    def lines(self, scratch):
        if self.xml_path is None:
            pol = {"S": "SHARED", "F": "FATPIPE", "D": "SPLITDUPLEX"}[self.policy]
            extra = ""
            if self.backbone:
                extra += ' bb_bw="1GBps" bb_lat="%rs"' % self.bblat
            if self.loopback:
                extra += ' loopback_bw="100MBps" loopback_lat="%rs"' % LOOP_LAT
            if self.limiter:
                extra += ' limiter_link="150MBps"'
            txt = ("<?xml version='1.0'?>\n<!DOCTYPE platform SYSTEM \"https://simgrid.org/simgrid.dtd\">\n<platform version=\"4.1\">\n <zone id=\"world\" routing=\"Full\">\n"
                   "  <cluster id=\"c\" prefix=\"n\" suffix=\"\" radical=\"0-%d\" speed=\"1Gf\" bw=\"125MBps\" lat=\"%rs\" sharing_policy=\"%s\"%s/>\n </zone>\n</platform>\n"
                   % (self.n - 1, self.lat, pol, extra))
            fd, self.xml_path = tempfile.mkstemp(prefix="flat-", suffix=".xml", dir=scratch)
            with os.fdopen(fd, "w") as f:
                f.write(txt)
        return ["XML " + self.xml_path]

    def latency(self, links):
        t = 0.0
        for l in links:
            if l.endswith("_backbone"):
                t += self.bblat
            elif l.endswith("_loopback"):
                t += LOOP_LAT
            elif l.endswith("_limiter"):
                t += 0.0
            else:
                t += self.lat
        return t

    def witness(self):
        return dict(flat=True, cid=self.id.split("/")[0], n=self.n, policy=self.policy, backbone=self.backbone, loopback=self.loopback, limiter=self.limiter,
                    lat=self.lat, bblat=self.bblat, flavour=self.flavour)

    def describe(self):
        return "flat cluster n=%d policy=%s backbone=%d loopback=%d limiter=%d" % (self.n, self.policy, self.backbone, self.loopback, self.limiter)


def judge_exact(ctx, case, scratch, state, corrupt=None):
    ctx.evaluation()
    cpu, wall = G.budgets(case.flavour)
    hosts = case.hosts()
    pairs = [(a, b) for a in hosts for b in hosts]
    res = state.pop(case.id, None)
    if res is None:
        rp = RunPlat()
        rp.id = case.id.replace("/", "~")
        rp.lines = case.lines(scratch) + ["Q %s %s" % pr for pr in pairs]
        res = G.run_batch(case.flavour, [rp], cpu, wall, scratch)[rp.id]
    if res.status in ("wall", "missing", "spin"):
        ctx.inconclusive("watchdog (%s)" % res.status)
        return "inconclusive"
    if res.build_errors:
        raise core.HarnessFailure("generator built a platform SimGrid rejects: %s: %s" % (case.id, res.build_errors[:2]))
    verdict = "ok"
    answered = corrupt(res.routes) if corrupt else res.routes
    for (s, d, lat, links, exc) in answered:
        ctx.count("pairs_judged")
        w = dict(case.witness(), pair=[s, d])
        want = case.expected(s, d)
        if exc is not None or links != want:
            ctx.violation("C26:%s:%s" % (case.kind, "exception" if exc else "not-up-then-down-without-repetition"),
                          "%s [%s]: route_to(%s -> %s) = %r (exception %r); up links of the source then down links of the destination without repetition give %r"
                          % (case.id, case.describe(), s, d, links, exc, want), w)
            verdict = "bad"
        elif not close(lat, case.latency(links)):
            ctx.violation("C26:%s:latency-not-sum-of-links" % case.kind, "%s: route_to(%s -> %s) = %r latency %.17g, links sum to %.17g" % (case.id, s, d, links, lat, case.latency(links)), w)
            verdict = "bad"
        else:
            ctx.count("links_checked", len(links))
            if s == d:
                ctx.count("loopback_routes_checked")
    if res.status != "ok" or not res.done or len(res.routes) != len(pairs):
        ctx.violation("C26:%s:crash:%s" % (case.kind, res.status), "%s [%s]: child ended with %s after %d of %d answers: %s"
                      % (case.id, case.describe(), res.status, len(res.routes), len(pairs), res.noise[:2]), case.witness())
        verdict = "bad"
    return verdict


def gen_star(rng, cid):
    p = G.Plat(cid)
    p.zone("s", None, "star")
    n = rng.randint(2, 7)
    mem = []
    for i in range(n):
        mem.append(p.host("h%d" % i, "s"))
    if rng.random() < 0.4:
        mem.append(p.router("r0", "s"))
    nl = [0]

    def new(policy=None):
        name = "l%d" % nl[0]
        nl[0] += 1
        return p.link(name, "s", rng.choice(G.LATS), policy or rng.choice(["S", "F", "D"]))

    shared = [new(rng.choice(["S", "F"])) for _ in range(rng.randint(0, 2))]

    def ll(kmin=0):
        out = []
        for _ in range(rng.choice([kmin, 1, 1, 2, 3])):
            name = new()
            out.append((name, rng.choice([G.UP, G.DOWN]) if p.links[name]["policy"] == "D" else G.NONE))
        return out

    for m in mem:
        up = ll()
        if shared and rng.random() < 0.7:
            up = up + [(rng.choice(shared), G.NONE)]
        if rng.random() < 0.5:
            p.star_route("s", m, up, sym=True, direction="up")
        else:
            down = ll()
            if shared and rng.random() < 0.7:
                down = [(rng.choice(shared), G.NONE)] + down
            if up and rng.random() < 0.3:          # the same link on the way up and on the way down of one member
                down = down + [up[0]]
            p.star_route("s", m, up, sym=False, direction="up")
            p.star_route("s", m, down, sym=False, direction="down")
        if rng.random() < 0.3 and p.np[m]["type"] == "host":
            p.star_route("s", m, ll(1), direction="loop")
    p.seal("s")
    return p


# ---------------------------------------------------------------------------------------------------------------------
def gen_shape(rng, i):
    kind = ["torus", "fattree", "dragonfly"][i % 3]
    policy = rng.choice(["S", "F", "D", "D"])
    loopback = rng.random() < 0.5
    limiter = rng.random() < 0.4
    limlat = 0.0
    lat = rng.choice([5e-5, 1e-4, 2.5e-4, 0.0])
    mult = (1, 1, 1)
    if kind == "torus":
        while True:
            nd = rng.choice([1, 2, 2, 3, 3, 4, 5])
            dims = [rng.choice([1, 2, 2, 3, 3, 4, 4, 5, 5]) for _ in range(nd)]
            n = 1
            for d in dims:
                n *= d
            if 1 <= n <= 64 and sum(1 for d in dims if d == 1) <= 1:     # two dimensions of size 1 cannot even be built (directed case)
                break
        params = dims
    elif kind == "fattree":
        while True:
            h = rng.choice([1, 2, 2, 3])
            m = [rng.choice([1, 2, 2, 3, 4]) for _ in range(h)]
            w = [rng.choice([1, 1, 2, 2, 3]) for _ in range(h)]
            p = [rng.choice([1, 1, 2, 3]) for _ in range(h)]
            n = 1
            for x in m:
                n *= x
            sw = 0
            for l in range(1, h + 1):
                c = 1
                for j in range(h):
                    c *= w[j] if j < l else m[j]
                sw += c
            if n <= 64 and sw <= 80:
                break
        params = [h, m, w, p]
    else:
        while True:
            g, c, b, nn = rng.randint(1, 3), rng.randint(1, 3), rng.randint(1, 3), rng.randint(1, 3)
            if g <= b:         # 'links to the nth group are attached to the nth router': the routing code looks that router up in the source's chassis
                break
            if g <= c * b and rng.random() < 0.5:
                break
        params = [g, c, b, nn]
        mult = (rng.randint(1, 4), rng.randint(1, 3), rng.randint(1, 3))
    return kind, params, policy, lat, loopback, limiter, limlat, mult


def xml_ok(kind, params, limiter):
    if kind == "fattree" and limiter:
        h, m, w, p = params
        n = 1
        for x in m:
            n *= x
        sw = 0
        for l in range(1, h + 1):
            c = 1
            for j in range(h):
                c *= w[j] if j < l else m[j]
            sw += c
        return sw <= n        # XML limiter names are built from ids that collide between leaves and switches otherwise
    return True


def directed():
    out = []
    # F6 witness: same group, same chassis 1, blades 0 -> 1
    out.append(Case("d-df-f6", "dragonfly", [2, 2, 2, 1], "api", "hooks", "S", 1e-4, False, False, 0.0, (1, 1, 1)))
    out.append(Case("d-df-groups-gt-blades", "dragonfly", [3, 2, 2, 1], "api", "hooks", "S", 1e-4, False, False, 0.0, (1, 1, 1)))
    out.append(Case("d-df-xml", "dragonfly", [3, 2, 3, 2], "xml", "hooks", "D", 5e-5, True, True, 0.0, (4, 2, 1)))
    out.append(Case("d-torus-even", "torus", [4, 2, 3], "api", "hooks", "D", 1e-4, True, True, 0.0))
    out.append(Case("d-torus-limlat", "torus", [3, 2], "api", "hooks", "S", 1e-4, False, True, 0.003))
    out.append(Case("d-torus-1x1", "torus", [3, 1, 1], "api", "hooks", "S", 1e-4, False, False, 0.0))
    out.append(Case("d-torus-xml", "torus", [3, 2, 2], "xml", "hooks", "D", 5e-5, True, False, 0.0))
    out.append(Case("d-ft-doc", "fattree", [2, [4, 4], [1, 2], [1, 2]], "xml", "hooks", "D", 5e-5, True, False, 0.0))
    out.append(Case("d-ft-3", "fattree", [3, [2, 2, 2], [2, 2, 2], [1, 2, 1]], "api", "hooks", "S", 1e-4, False, True, 0.0))
    return out


def gen_cases(ctx):
    n = ctx.size(60, 600)
    cases = directed()
    exact = []
    for i in range(n):
        rng = ctx.sub_rng("s", i)
        kind, params, policy, lat, loopback, limiter, limlat, mult = gen_shape(rng, i)
        via = "xml" if (i % 5 == 4 and xml_ok(kind, params, limiter)) else "api"
        if via == "api" and limiter and rng.random() < 0.15:
            limlat = 0.002
        cases.append(Case("s%d" % i, kind, params, via, "hooks", policy, lat, loopback, limiter, limlat, mult))
        if i % 10 == 7:
            cases.append(Case("s%d" % i, kind, params, via, "asan", policy, lat, loopback, limiter, limlat, mult))
    nstar = ctx.size(20, 300)
    for i in range(nstar):
        rng = ctx.sub_rng("star", i)
        exact.append(StarCase("st%d" % i, gen_star(rng, "st%d" % i), "asan" if i % 10 == 9 else "hooks"))
    nflat = ctx.size(12, 100)
    for i in range(nflat):
        rng = ctx.sub_rng("flat", i)
        exact.append(FlatCase("fl%d" % i, rng.randint(1, 6), rng.choice(["S", "F", "D", "D"]), rng.random() < 0.6, rng.random() < 0.5, rng.random() < 0.5,
                              rng.choice([5e-5, 1e-4]), rng.choice([0.0, 2e-4])))
    return cases, exact


def run(ctx):
    scratch = tempfile.mkdtemp(prefix="verif-C26-")
    try:
        cases, exact = gen_cases(ctx)
        for fl in sorted(set(c.flavour for c in cases + exact)):
            G.harness(fl)
        for c in cases[9:13]:
            ctx.sample({"case": c.id, "shape": c.describe(), "nodes": c.n})
        by_fl = {}
        for c in cases + exact:
            by_fl.setdefault(c.flavour, []).append(c)
        jobs = []
        for fl, cs in by_fl.items():
            for ch in G.chunks(cs, 2 if fl == "asan" else 5):
                jobs.append((fl, ch))
        state = {}

        def first(job):
            fl, ch = job
            cpu, wall = G.budgets(fl)
            rps = []
            for c in ch:
                if isinstance(c, Case):
                    rps.append(runnable(c, pair_order(c), "~r0", scratch))
                else:
                    rp = RunPlat()
                    rp.id = c.id.replace("/", "~")
                    hs = c.hosts()
                    rp.lines = c.lines(scratch) + ["Q %s %s" % (a, b) for a in hs for b in hs]
                    rps.append(rp)
            out = G.run_batch(fl, rps, cpu, wall, scratch)
            for c, rp in zip(ch, rps):
                state[c.id] = out[rp.id]

        ctx.pmap(first, jobs)

        def second(c):
            if isinstance(c, Case):
                v = judge_case(ctx, c, scratch, state)
                nt = c.n >= 2
            else:
                v = judge_exact(ctx, c, scratch, state)
                nt = len(c.hosts()) >= 2
            if v == "ok":
                ctx.count("shapes_fully_agreeing." + c.kind + "." + c.via)
            elif v == "bad":
                ctx.count("shapes_with_deviation." + c.kind)
            if v in ("ok", "bad") and nt:
                ctx.nontrivial(c.id)

        ctx.pmap(second, cases + exact)
    finally:
        shutil.rmtree(scratch, ignore_errors=True)


def replay(ctx, w):
    scratch = tempfile.mkdtemp(prefix="verif-C26-")
    try:
        if w.get("star"):
            c = StarCase(w["cid"], G.from_spec(w["cid"], w["spec"]), w.get("flavour", "hooks"))
            G.harness(c.flavour)
            judge_exact(ctx, c, scratch, {})
        elif w.get("flat"):
            c = FlatCase(w["cid"], w["n"], w["policy"], w["backbone"], w["loopback"], w["limiter"], w["lat"], w["bblat"], w.get("flavour", "hooks"))
            G.harness(c.flavour)
            judge_exact(ctx, c, scratch, {})
        else:
            c = case_from_witness(w)
            G.harness(c.flavour)
            st = {}
            if "pair" in w:
                st[c.id + "#"] = {"pairs": [tuple(w["pair"])]}
            judge_case(ctx, c, scratch, st)
    finally:
        shutil.rmtree(scratch, ignore_errors=True)
