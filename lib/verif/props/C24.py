"""C24 Hierarchical routes are composed correctly (up through gateways to the common ancestor, across, down; latency = sum; symmetrical routes reversed)."""
import os
import shutil
import tempfile

from verif import core
from verif.gen import zones as G
from verif.oracles import compose as O

META = {
    "id": "C24", "engine": "E3 route_dump", "engine_path": "harness/route_dump2.cpp",
    "engine_kind": "C++ harness building generated nested zones through the platform API (or loading the same platform as XML), one forked child per "
                   "platform under a CPU-time watchdog; python reference written from the documentation",
    "level": "exploration",
    "technique": "reference-composition differential: Host::route_to() of every ordered host pair of generated zone trees against an independent python "
                 "re-composition (documented recursion over the declared zone-local routes), link by link, plus latency = sum of link latencies (+ Vivaldi term)",
    "level_text": "Random zone trees of depth 1-4 (<= 40 hosts) mixing Full, Floyd, Dijkstra, DijkstraCache, Star and Vivaldi zones as inner nodes and as leaves; "
                  "gateways are hosts or routers, declared explicitly (directly in the child zone or deeper, as documented) or through the zones' default "
                  "gateways (set_gateway / single-host zones); inter-zone routes symmetrical or one declaration per direction with different links and "
                  "gateways; shared, fat-pipe and split-duplex links with directions; transit through a Floyd/Dijkstra zone between different gateways; "
                  "star backbones (no repetition), declared loopbacks, bypassZoneRoutes between sibling zones and bypassRoutes between two hosts. Every "
                  "ordered host pair (source==destination included) is asked through Host::route_to(); the reference recomputes the link list from the "
                  "declarations alone and compares it element by element, and compares the latency with the sum of the declared link latencies plus the "
                  "documented Vivaldi term. Platforms that XML can express are also written as XML files, loaded through the parser and judged by the same "
                  "reference. Plain flavour for every platform, ASan+UBSan for a share.",
    "level_note": "Cluster (torus/fat-tree/dragonfly), Wi-Fi and Empty zones are not part of the generated trees (their intra-zone routes are C26's subject); "
                  "Floyd/Dijkstra zones are generated as trees of two-way routes so that the minimal chain is unique (minimality itself is C25's subject), and Dijkstra "
                  "zones get one link per declared route because they list multi-link hops reversed (C25 finding). Pairs for which the documentation does not pin "
                  "the answer down are counted as unjudged: loopback of a Vivaldi member, a bypass route that matches a sub-route of the recursion. "
                  "Bypass routes between non-sibling zones are not generated. Pairs whose documented derivation runs into one of the open findings "
                  "(gateway declared in another sub-zone than the endpoint, Dijkstra transit between two gateways) are asked last, through a query that survives "
                  "SIGSEGV/SIGABRT, at most 60 per platform (4 under ASan), and any deviation on them is reported under that finding's key: other defects "
                  "that only show on such pairs are masked until those findings are fixed. A deviation on any other pair is first compared with the exact link "
                  "list each open order/loopback finding would produce; only an exact match (or, for nested bypasses, the same links up to order plus the "
                  "endpoints' own loopback routes) gets that finding's key.",
    "rule": "case = one generated platform (API or XML leg); non-trivial = distinct platforms fully answered in which at least one judged pair composes >= 3 zone-local routes",
    "assumptions": ["the documented recursive algorithm (Platform_routing.rst, 'Calculating network paths') is the specification of route composition",
                    "default loopback link '__loopback__' (latency 0) for a host of a routed leaf zone without declared loopback route"],
    "ready": True,
}

ROUTED_INT = ["full", "full", "floyd", "floyd", "star", "star", "dijkstra", "dijkstracache", "vivaldi"]
LEAVES = ["full", "full", "full", "floyd", "floyd", "star", "star", "dijkstra", "dijkstracache", "vivaldi"]
XML_INT = ["full", "full", "floyd", "dijkstra", "dijkstracache"]
XML_LEAF = ["full", "full", "floyd", "dijkstra", "dijkstracache"]
MAX_RISKY = 60


# ---------------------------------------------------------------------------------------------------------------------
# directed platforms (spec lines)
# ---------------------------------------------------------------------------------------------------------------------
D_TWO_LEVEL = """Z root - full
Z za root full
H a0 za
H a1 za
L la za 0.001 S
A za a0 a1 1 la
S za
Z zb root full
H b0 zb
H b1 zb
L lb zb 0.002 D
A zb b0 b1 1 lb:U
S zb
L x root 0.01 S
L y root 0.02 D
AZ root za zb a1 b0 1 x y:U
S root""".split("\n")

# three levels of Full zones: the gateway of z1 towards zd (g1) lives in the leaf z2b; hosts of the sibling leaf z2 must reach it through z1's route
D_DEEP_GW = """Z root - full
Z z1 root full
Z z2 z1 full
H s z2
H g2 z2
L c z2 0.001 S
A z2 s g2 1 c
S z2
Z z2b z1 full
H g1 z2b
H t z2b
L f z2b 0.001 S
A z2b g1 t 1 f
S z2b
L a z1 0.001 S
L b z1 0.001 S
AZ z1 z2 z2b g2 g1 1 a b
S z1
Z zd root full
H d zd
S zd
L x root 0.001 S
L y root 0.001 S
AZ root z1 zd g1 d 1 x y
S root""".split("\n")

# Star zone in the middle: the segment z2 -> r1 inside z1 has four links; on the way up it must come out as u1 u2 d2 d1
D_STAR_MID = """Z root - full
Z z1 root star
Z z2 z1 full
H s z2
H g2 z2
L c z2 0.001 S
A z2 s g2 1 c
S z2
R r1 z1
L u1 z1 0.001 S
L u2 z1 0.002 S
L d1 z1 0.003 S
L d2 z1 0.004 S
AS z1 z2 - g2 1 u1 u2
AS z1 r1 - - 1 d1 d2
S z1
Z zd root full
H d zd
S zd
L x root 0.001 S
L y root 0.001 S
AZ root z1 zd r1 d 1 x y
S root""".split("\n")


def d_f21(kind, mid="full"):
    # chain z0 - z1 - z2 under a Dijkstra (or Floyd) root; z1 is entered through h1a and left through h1b
    return ("""Z root - %s
Z z0 root full
H h0 z0
S z0
Z z1 root %s
H h1a z1
H h1b z1
L m z1 0.001 S
A z1 h1a h1b 1 m
S z1
Z z2 root full
H h2 z2
S z2
L b01 root 0.01 S
L b12 root 0.02 S
AZ root z0 z1 h0 h1a 1 b01
AZ root z1 z2 h1b h2 1 b12
S root""" % (kind, mid)).split("\n")


# bypassZoneRoute whose source gateway is the source host itself
D_BYPASS = """Z root - full
Z za root full
H a0 za
H a1 za
L la za 0.001 S
A za a0 a1 1 la
S za
Z zb root full
H b0 zb
H b1 zb
L lb zb 0.002 S
A zb b0 b1 1 lb
S zb
L x root 0.01 S
L y root 0.02 S
AZ root za zb a1 b0 1 x
B root za zb a0 b1 y
S root""".split("\n")


def directed():
    out = [("d-two-level", D_TWO_LEVEL), ("d-deep-gateway", D_DEEP_GW), ("d-star-mid", D_STAR_MID), ("d-bypass", D_BYPASS),
           ("d-floyd-transit", d_f21("floyd")), ("d-dijkstra-prepend", d_f21("floyd", "dijkstra")), ("d-f21-dijkstra", d_f21("dijkstra")), ("d-f21-dijkstracache", d_f21("dijkstracache"))]
    return [G.from_spec(pid, lines) for pid, lines in out]


# ---------------------------------------------------------------------------------------------------------------------
# one case = one platform leg
# ---------------------------------------------------------------------------------------------------------------------
class Case:
    def __init__(self, plat, via="api", flavour="hooks"):
        self.plat = plat
        self.via = via
        self.flavour = flavour
        self.id = "%s/%s/%s" % (plat.id, via, flavour)
        self.comp = O.Composer(plat)
        hosts = plat.all_hosts()
        self.exp = {}
        safe, risky = [], []
        for a in hosts:
            for b in hosts:
                links, lat, info = self.comp.expected(a, b)
                self.exp[(a, b)] = (links, lat, info)
                (risky if (info.deep or info.f21) else safe).append((a, b))
        cap = MAX_RISKY if flavour != "asan" else 4     # a sanitizer report cannot be survived: every one costs a new process
        if len(risky) > cap:                 # bounded, evenly spread sample
            step = len(risky) / float(cap)
            risky = [risky[int(i * step)] for i in range(cap)]
        self.queries = safe + risky          # pairs that may crash the child (known deviations) are asked last ...
        self.risky = set(risky)              # ... and each in a forked copy of the child (QF), so that a crash only loses that answer
        self.answers = {}
        self.xml_path = None

    def runnable(self, queries, suffix, scratch):
        r = RunPlat()
        r.id = self.id.replace("/", "~") + suffix
        if self.via == "xml":
            if self.xml_path is None:
                fd, self.xml_path = tempfile.mkstemp(prefix="plat-", suffix=".xml", dir=scratch)
                with os.fdopen(fd, "w") as f:
                    f.write(self.plat.to_xml())
            lines = ["XML " + self.xml_path]
        else:
            lines = list(self.plat.lines)
        r.lines = lines + [("QF %s %s" if q in self.risky else "Q %s %s") % q for q in queries]
        return r

    def witness(self):
        w = self.plat.witness()
        w.update(via=self.via, flavour=self.flavour)
        return w


class RunPlat:
    def spec(self):
        return "P %s\n%s\nE\n" % (self.id, "\n".join(self.lines))


def symptom_key(case, info, symptom):
    if info.f21:
        return "C24:dijkstra-transit-different-gateways:%s" % symptom
    if info.deep:
        return "C24:deep-gateway:%s" % symptom
    return "C24:%s:lca=%s:up=%d:down=%d:bypass=%d:transit=%d:vivaldi=%d:via=%s" % (
        symptom, info.lca_kind, min(info.up, 2), min(info.down, 2), 1 if info.bypass else 0, 1 if info.transit_spliced else 0,
        1 if info.vivaldi else 0, case.via)


def close(a, b):
    return abs(a - b) <= 1e-9 * max(abs(a), abs(b)) + 1e-15


def judge_pair(ctx, case, pair, obs, corrupt=None):
    """Compare one answer with the reference. Returns True when the pair was judged and agrees."""
    lat, links, exc = obs
    exp_links, exp_lat, info = case.exp[pair]
    if info.unjudged:
        ctx.count("pairs_unjudged")
        return True
    ctx.count("pairs_judged")
    ctx.count("zone_local_routes_composed", info.local_calls)
    if exc is None and links == exp_links and close(lat, exp_lat):
        if info.deep:
            ctx.count("pairs_ok.gateway_in_other_subzone")
        if info.sym_reversed:
            ctx.count("pairs_ok.using_reversed_symmetrical_route")
        if info.bypass:
            ctx.count("pairs_ok.through_bypass")
        if info.transit_spliced:
            ctx.count("pairs_ok.transit_between_two_gateways")
        if info.vivaldi:
            ctx.count("pairs_ok.with_vivaldi_term")
        if info.default_gw:
            ctx.count("pairs_ok.through_default_gateway_route")
        if info.up + info.down >= 3:
            ctx.count("pairs_ok.three_or_more_levels")
        ctx.maximum("max_links_in_a_judged_route", len(links))
        ctx.maximum("max_zone_local_routes_in_a_route", info.local_calls)
        return True
    a, b = pair
    p = case.plat
    w = dict(case.witness(), pair=[a, b])
    if exc is not None and exc.startswith("CRASH "):
        key = symptom_key(case, info, "crash:" + exc[6:])
        what = "%s: route_to(%s -> %s) killed the process (%s); documented composition gives %r" % (case.id, a, b, exc[6:], exp_links)
    elif exc is not None:
        key = symptom_key(case, info, "exception")
        what = "%s: route_to(%s -> %s) raised %r; documented composition gives %r (latency %.12g)" % (case.id, a, b, exc, exp_links, exp_lat)
    elif links != exp_links:
        known = None
        if not info.deep and not info.f21:
            flags = [n for n, on in (("up-segment-reversed", info.midseg), ("dijkstra-prepend", info.dijkstra_prepend),
                                     ("bypass-endpoint-loopback", info.bypass_gw_is_end)) if on]
            subsets = [[f for i, f in enumerate(flags) if m >> i & 1] for m in range(1, 1 << len(flags))]
            for emu in sorted(subsets, key=len):
                if case.comp.expected(a, b, emulate=frozenset(emu))[0] == links:
                    known = emu
                    break
        if known is None and not info.deep and not info.f21 and (info.midseg or info.dijkstra_prepend or info.bypass_gw_is_end):
            # nested combinations of the same deviations (a bypass inside a bypass, ...): same links up to order, plus the
            # endpoints' routes to themselves
            extra = list(links)
            missing = []
            for l in exp_links:
                if l in extra:
                    extra.remove(l)
                else:
                    missing.append(l)
            allowed = list(info.bypass_self_links)
            ok_extra = True
            for l in extra:
                if l in allowed:
                    allowed.remove(l)
                else:
                    ok_extra = False
            if not missing and ok_extra:
                rest = [l for l in links]
                for l in extra:
                    rest.remove(l)
                known = (["up-segment-reversed"] if info.midseg and rest != exp_links else []) + \
                        (["dijkstra-prepend"] if info.dijkstra_prepend and rest != exp_links else []) + \
                        (["bypass-endpoint-loopback"] if extra else [])
                if not known or (rest != exp_links and not (info.midseg or info.dijkstra_prepend)):
                    known = None
        if known:
            key = "C24:" + "+".join(known)
            why = {"up-segment-reversed": "the links of a zone->gateway route spliced on the way up (below the top zone of the source side) are listed in reverse order",
                   "dijkstra-prepend": "the route between two gateways of one Dijkstra zone was put in front of the links collected so far instead of after them",
                   "bypass-endpoint-loopback": "the gateway of the bypass route is the endpoint itself and the endpoint's route to itself (loopback) was spliced in; "
                                               "the documentation says that segment is empty"}
            what = "%s: route_to(%s -> %s) returned %r, documented composition gives %r: %s" % (case.id, a, b, links, exp_links, "; ".join(why[k] for k in known))
        else:
            key = symptom_key(case, info, "links")
            what = "%s: route_to(%s -> %s) returned %r, documented composition gives %r" % (case.id, a, b, links, exp_links)
    else:
        key = symptom_key(case, info, "latency")
        what = "%s: route_to(%s -> %s) links %r as expected but latency %.17g, sum of link latencies%s is %.17g" % (
            case.id, a, b, links, lat, " + Vivaldi terms" if info.vivaldi else "", exp_lat)
    r = ctx.violation(key, what, w)
    if os.environ.get("VERIF_DEBUG") and r == "known":
        print("DEBUG known %s: %s" % (key, what[:700]))
    return False


def judge_case(ctx, case, scratch, state, corrupt=None):
    """Run one case (re-running the queries left after a crash), judge every answer. Returns 'ok' | 'inconclusive' | 'bad'."""
    ctx.evaluation()
    cpu, wall = G.budgets(case.flavour)
    remaining = list(case.queries)
    verdict = "ok"
    attempt = 0
    pre = state.pop(case.id, None)
    while remaining:
        if pre is not None:
            res, pre = pre, None
        else:
            rp = case.runnable(remaining, "~r%d" % attempt, scratch)
            res = G.run_batch(case.flavour, [rp], cpu, wall, scratch)[rp.id]
        attempt += 1
        if res.status in ("wall", "missing"):
            ctx.inconclusive("wall-clock watchdog (%s)" % res.status)
            return "inconclusive"
        if res.build_errors:
            raise core.HarnessFailure("generator built a platform SimGrid rejects: %s: %s" % (case.id, res.build_errors[:2]))
        answered = res.routes
        if corrupt:
            answered = corrupt(answered)
        for (s, d, lat, links, exc) in answered:
            if not judge_pair(ctx, case, (s, d), (lat, links, exc)):
                verdict = "bad"
        n = len(res.routes)
        if res.status == "ok" and res.done:
            if n != len(remaining):
                raise core.HarnessFailure("%s: %d answers for %d queries" % (case.id, n, len(remaining)))
            break
        # the child died or span inside query number n
        if os.environ.get("VERIF_DEBUG"):
            print("DEBUG rerun %s attempt %d status %s after %d/%d %s" % (case.id, attempt, res.status, n, len(remaining), res.noise[:1]))
        if n >= len(remaining):
            ctx.violation("C24:crash-after-last-query:%s" % res.status, "%s: child ended with %s after answering every query: %s" % (case.id, res.status, res.noise[:3]), case.witness())
            return "bad"
        a, b = remaining[n]
        _, _, info = case.exp[(a, b)]
        w = dict(case.witness(), pair=[a, b])
        if res.status == "spin":
            ctx.count("spin_first_budget")
            rp = case.runnable([(a, b)], "~spin", scratch)
            again = G.run_batch("hooks", [rp], 4 * cpu, 4 * wall, scratch)[rp.id]
            if again.status == "spin":
                ctx.violation(symptom_key(case, info, "spin"), "%s: route_to(%s -> %s) did not return within %.0f s and then %.0f s of CPU time" % (case.id, a, b, cpu, 4 * cpu), w)
                verdict = "bad"
            else:
                ctx.inconclusive("CPU budget exhausted once, not reproduced")
                verdict = "inconclusive" if verdict == "ok" else verdict
        else:
            reps = [l for l in res.noise if "Sanitizer" in l or "runtime error" in l or "CRITICAL" in l]
            sym = "crash:" + ("sanitizer" if any("Sanitizer" in l for l in reps) and res.status.startswith("exit") else res.status)
            if not info.unjudged:
                ctx.count("pairs_judged")
            r = ctx.violation(symptom_key(case, info, sym), "%s: route_to(%s -> %s) killed the process (%s): %s; documented composition gives %r"
                              % (case.id, a, b, res.status, (reps or res.noise)[:2], case.exp[(a, b)][0]), w)
            if os.environ.get("VERIF_DEBUG") and r == "known":
                print("DEBUG known crash %s %s %s->%s %s" % (symptom_key(case, info, sym), case.id, a, b, (reps or res.noise)[:2]))
            verdict = "bad"
        remaining = remaining[n + 1:]
        if attempt >= (3 if case.flavour == "asan" else 6) and remaining:
            ctx.count("pairs_not_asked_after_repeated_crashes", len(remaining))
            break
    return verdict


SHIPPED = [("examples/platforms/g5k.xml", [("adonis-1.grenoble.grid5000.fr", "adonis-2.grenoble.grid5000.fr"),
                                           ("adonis-1.grenoble.grid5000.fr", "chirloute-1.lille.grid5000.fr")])]


def shipped_smoke(ctx, scratch):
    """A platform file shipped with SimGrid (4 zone levels, gateways in dedicated sub-zones): no reference here, the
    route computation must merely answer. Kept as the realistic witness of the deep-gateway finding."""
    from verif import build
    for rel, pairs in SHIPPED:
        path = os.path.join(build.REPO, rel)
        if not os.path.exists(path):
            continue
        rp = RunPlat()
        rp.id = "shipped~%s" % os.path.basename(rel)
        rp.lines = ["XML " + path] + ["Q %s %s" % pr for pr in pairs]
        cpu, wall = G.budgets("hooks")
        res = G.run_batch("hooks", [rp], 6 * cpu, wall, scratch)[rp.id]
        ctx.evaluation()
        ctx.count("shipped_platform_pairs_answered", sum(1 for r in res.routes if r[4] is None))
        if res.status in ("wall", "missing", "spin"):
            ctx.inconclusive("watchdog on the shipped platform (%s)" % res.status)
        elif res.status != "ok" or not res.done or res.build_errors or any(r[4] for r in res.routes):
            n = len(res.routes)
            a, b = pairs[min(n, len(pairs) - 1)] if res.status != "ok" else [(r[0], r[1]) for r in res.routes if r[4]][0]
            why = res.status if res.status != "ok" else "exception %r" % ([r[4] for r in res.routes if r[4]] or res.build_errors)[:1]
            ctx.violation("C24:deep-gateway:crash:shipped:%s" % os.path.basename(rel),
                          "%s: route_to(%s -> %s) does not answer (%s): %s" % (rel, a, b, why, [l for l in res.noise if "CRITICAL" in l or "Sanitizer" in l][:1]),
                          {"shipped": rel, "pair": [a, b]})
            if os.environ.get("VERIF_DEBUG"):
                print("DEBUG shipped", res.status, res.noise[:5], res.routes)


def nontrivial(case):
    return any(i.local_calls >= 3 and not i.unjudged for (_, _, i) in case.exp.values())


# ---------------------------------------------------------------------------------------------------------------------
def gen_cases(ctx):
    n = ctx.size(60, 1500)
    cases = []
    for p in directed():
        cases.append(Case(p, "api", "hooks"))
    cases.append(Case(G.from_spec("d-deep-gateway", D_DEEP_GW), "xml", "hooks"))
    cases.append(Case(G.from_spec("d-two-level", D_TWO_LEVEL), "xml", "hooks"))
    for i in range(n):
        rng = ctx.sub_rng("t", i)
        depth = rng.choice([1, 2, 2, 2, 3, 3, 3, 4])
        xml_leg = i % 4 == 0
        if xml_leg:
            p = G.gen_tree(rng, "t%d" % i, depth=depth, internal_kinds=XML_INT, leaf_kinds=XML_LEAF,
                           max_hosts=rng.choice([12, 24, 40]), bypass=rng.choice([0, 0, 0.4]), bypass_host=rng.choice([0, 0.3]))
        else:
            p = G.gen_tree(rng, "t%d" % i, depth=depth, internal_kinds=ROUTED_INT, leaf_kinds=LEAVES,
                           max_hosts=rng.choice([12, 24, 40]), bypass=rng.choice([0, 0, 0.4]), bypass_host=rng.choice([0, 0.3]),
                           avoid_deep=rng.random() < 0.4)
        cases.append(Case(p, "api", "hooks"))
        if xml_leg and p.xml_ok:
            cases.append(Case(p, "xml", "hooks"))
        if i % 8 == 3:
            cases.append(Case(p, "api", "asan"))
    return cases


def run(ctx):
    scratch = tempfile.mkdtemp(prefix="verif-C24-")
    try:
        cases = gen_cases(ctx)
        for fl in sorted(set(c.flavour for c in cases)):
            G.harness(fl)
        for c in [c for c in cases if not c.plat.id.startswith("d-")][:4]:
            ctx.sample({"case": c.id, "zones": {z: (d["kind"], d["parent"]) for z, d in c.plat.zones.items()},
                        "hosts": len(c.plat.all_hosts()), "tags": sorted(c.plat.tags), "spec_head": c.plat.lines[:25]})
        # first pass: many cases per harness process
        by_fl = {}
        for c in cases:
            by_fl.setdefault(c.flavour, []).append(c)
        jobs = []
        for fl, cs in by_fl.items():
            for ch in G.chunks(cs, 2 if fl == "asan" else 5):
                jobs.append((fl, ch))
        state = {}

        def first(job):
            fl, ch = job
            cpu, wall = G.budgets(fl)
            rps = [c.runnable(c.queries, "~r0", scratch) for c in ch]
            out = G.run_batch(fl, rps, cpu, wall, scratch)
            for c, rp in zip(ch, rps):
                state[c.id] = out[rp.id]

        import time
        t0 = time.time()
        ctx.pmap(first, jobs)
        t1 = time.time()

        def second(c):
            if c is None:
                shipped_smoke(ctx, scratch)
                return
            v = judge_case(ctx, c, scratch, state)
            if v == "ok":
                ctx.count("platforms_fully_agreeing." + c.via)
                if nontrivial(c):
                    ctx.nontrivial(c.id)
            elif v == "bad":
                ctx.count("platforms_with_deviation")
                if nontrivial(c):
                    ctx.nontrivial(c.id)       # fully observed and judged: the deviation itself went through ctx.violation

        ctx.pmap(second, [None] + cases)
        t2 = time.time()
        if os.environ.get("VERIF_DEBUG"):
            print("phases: first %.1fs second %.1fs shipped %.1fs" % (t1 - t0, t2 - t1, time.time() - t2))
    finally:
        shutil.rmtree(scratch, ignore_errors=True)


def replay(ctx, w):
    scratch = tempfile.mkdtemp(prefix="verif-C24-")
    try:
        if "shipped" in w:
            global SHIPPED
            SHIPPED = [(w["shipped"], [tuple(w["pair"])])]
            shipped_smoke(ctx, scratch)
            return
        p = G.from_spec(w["id"], w["spec"])
        c = Case(p, w.get("via", "api"), w.get("flavour", "hooks"))
        G.harness(c.flavour)
        if "pair" in w:
            pr = tuple(w["pair"])
            c.queries = [pr]
        judge_case(ctx, c, scratch, {})
    finally:
        shutil.rmtree(scratch, ignore_errors=True)
