"""C23 Energy accounting integrates the power model."""
import copy
import random

from verif import build, proc
from verif.core import HarnessFailure
from verif.gen import avail as gen
from verif.oracles import avail as orc

META = {
    "id": "C23", "engine": "E1 s4u harness (energy plugins)", "engine_path": "harness/avail.cpp",
    "engine_kind": "S4U program with the host_energy / link_energy plugins on a generated platform (C++ platform API or generated XML), scripted "
                   "actors; python integration of the documented power model over the recorded history",
    "level": "exploration",
    "technique": "reference-model differential on every sg_host_get_consumed_energy / sg_link_get_consumed_energy answer + observation-invariance "
                 "differential (same run with and without intermediate observations) + monotonicity",
    "level_text": "Hosts get generated power tables (1-3 pstates, Idle:Epsilon:AllCores or Idle:AllCores, wattage_off), 1-4 cores; worker actors "
                  "start blocking / asynchronous execs (1..cores threads, bounds), suspend / resume / cancel / migrate them, a controller "
                  "switches pstates and turns hosts off and on (or a generated state profile does), and an observer reads the consumed energy "
                  "of every host at random dates and at dates tied with the control events, and maestro reads it after the run. The reference "
                  "rebuilds the load of every host from what the program did and what the API reported (exec start / end / failure dates, "
                  "suspend / resume / migrate / pstate / on / off dates): load = min(cores, sum of min(threads, bound/speed)) * speed, power = "
                  "off | idle | epsilon + load/(cores*speed)*(max-epsilon), and integrates it exactly segment by segment. Each case is run twice, "
                  "with and without the intermediate observations: the final energies must agree (lazy updates must not depend on who looks). "
                  "Energies never decrease. Links (link_energy): messages over 1-2 shared links with a wattage_range; at dates where nothing "
                  "is in flight the energy must be idle*t + (busy-idle)*bytes/bandwidth. cpu/optim Lazy and Full; hooks and (10%) ASan+UBSan.",
    "level_note": "Speed (availability) profiles are not combined with energy: the statement does not say whether 'the used fraction of its cores' "
                  "is relative to the peak or to the available speed. The link part uses CM02, TCP-gamma 0, no cross-traffic, constant bandwidths "
                  "and links that stay on (the statement only names idle/busy powers), and judges only dates at which no message is in flight on "
                  "the link (plus the observation-invariance differential). Suspend / cancel / migrate are only issued on execs that cannot have "
                  "failed or ended meanwhile (Activity::suspend() on an ended exec dereferences a null model action: not an energy matter), "
                  "migrations only move single-threaded execs (ExecImpl::migrate restarts the exec on one core). Open findings: "
                  "known_findings.d/C23.json. One harness process runs a chunk of cases, each in a forked child (one Engine each).",
    "rule": "case = one generated platform + scripts; non-trivial = at least one host whose power took 3 different values (or a link that "
            "carried traffic) before a judged observation; distinct by scenario content",
    "assumptions": ["tolerance: 1e-9 relative + (5 x precision/timing) x the largest power of the host (dates are snapped within 1e-9)"],
    "ready": True,
}


def run_cases(scs, flavour, budget=120):
    return gen.run_batch(build.harness("avail.cpp", flavour), scs, "verif-C23-", per_case_budget=budget)


def hspec(h):
    return {"watts": h["energy"]["watts"], "off": h["energy"]["off"], "speeds": h["speeds"], "cores": h["cores"]}


def exec_table(sc):
    t = {}
    for a in sc["actors"]:
        for op in a["ops"]:
            if op[0] in ("exec", "xstart"):
                t[op[1]] = {"host": op[2], "flops": op[3], "bound": op[4], "threads": op[6]}
    return t


def host_histories(sc, lg, end):
    """Per host: sorted breakpoints and a function giving (on, pstate, load) inside a segment, from what the program did."""
    hosts = {h["name"]: h for h in sc["hosts"] if "energy" in h}
    xt = exec_table(sc)
    # exec life: pieces (host, t0, t1) while running (not suspended)
    pieces = {hn: [] for hn in hosts}
    moves = {}
    susp = {}
    for actor, clock, op, a, b in lg.ops:
        if op == "xmigrate":
            moves.setdefault(a, []).append((clock, b))
        elif op in ("xsuspend", "xresume"):
            susp.setdefault(a, []).append((clock, op))
    for i, x in xt.items():
        if i not in lg.xs:
            continue
        t0 = lg.xs[i][0]
        t1 = lg.xe[i][0] if i in lg.xe else end
        cuts = sorted(set([t0, t1] + [c for c, _ in moves.get(i, []) if t0 <= c <= t1] + [c for c, _ in susp.get(i, []) if t0 <= c <= t1]))
        for a_, b_ in zip(cuts, cuts[1:]):
            mid = (a_ + b_) / 2
            host = x["host"]
            for c, hn in moves.get(i, []):
                if c <= mid:
                    host = hn
            sus = False
            for c, op in susp.get(i, []):
                if c <= mid:
                    sus = op == "xsuspend"
            if not sus and host in pieces:
                pieces[host].append((a_, b_, x["threads"], x["bound"]))
    out = {}
    for hn, h in hosts.items():
        ctl = []       # (clock, order, kind, value): state profile points first, then what the actors did, in log order
        for p in sc["profiles"]:
            if p["res"] == hn and p["kind"] == "hstate":
                for j, (d, v) in enumerate(orc.expand(p, end)):
                    ctl.append((d, 0, j, "state", v > 0))
        for k, (actor, clock, op, a, b) in enumerate(lg.ops):
            if a != hn:
                continue
            if op == "off":
                ctl.append((clock, 1, k, "state", False))
            elif op == "on":
                ctl.append((clock, 1, k, "state", True))
            elif op == "pstate":
                ctl.append((clock, 1, k, "pstate", int(b)))
        ctl.sort()
        cuts = sorted(set([0.0, end] + [c[0] for c in ctl if c[0] <= end] + [x for pc in pieces[hn] for x in pc[:2] if x <= end]))
        segs = []
        spec = hspec(h)
        for a_, b_ in zip(cuts, cuts[1:]):
            mid = (a_ + b_) / 2
            on, ps = True, h.get("pstate", 0)
            for c in ctl:
                if c[0] <= a_:
                    if c[3] == "state":
                        on = c[4]
                    else:
                        ps = c[4]
            speed = h["speeds"][ps]
            demand = 0.0
            for p0, p1, thr, bound in pieces[hn]:
                if p0 <= mid < p1:
                    demand += min(thr * speed, bound) if bound > 0 else thr * speed
            load = min(demand, h["cores"] * speed) if on else 0.0
            segs.append((a_, b_, orc.host_power(spec, on, ps, load), on, ps, load))
        out[hn] = segs
    return out


def judge_hosts(ctx, sc, flavour, res, res_quiet, corrupt=None):
    w0 = {"scenario": sc, "flavour": flavour, "part": "host"}
    for r in (res, res_quiet):
        if r.timed_out:
            ctx.inconclusive("avail harness watchdog")
            return False
    lg = orc.parse(res.out)
    lq = orc.parse(res_quiet.out)
    if corrupt:
        corrupt(lg, lq)
    if lg.bad or lq.bad:
        raise HarnessFailure("avail harness rejected its input: %s" % (lg.bad + lq.bad)[:3])
    for r, l, which in ((res, lg, "observed"), (res_quiet, lq, "quiet")):
        if r.rc != 0 or l.end is None:
            san = proc.sanitizer_reports(r.err)
            if san and ("__interceptor_sigaltstack" in r.err or "__cxa_demangle" in r.err):
                ctx.inconclusive("asan report inside __cxa_demangle / the sigaltstack interceptor on a context stack (exception path), not judged")
                return False
            sig = "SIG%d" % r.signal if r.signal else "rc%s" % r.rc
            ctx.violation("C23:crash:%s:%s" % (sc["via"], san[0][0] if san else sig),
                          "harness died (%s, %s run) under %s: %s" % (sig, which, " ".join(sc["flags"]), (san[:1] or [r.err[-600:]])[0]), w0)
            return False
    end = lg.end
    hist = host_histories(sc, lg, end)
    hosts = {h["name"]: h for h in sc["hosts"] if "energy" in h}
    nontrivial = False
    last = {}
    feats = features(sc)
    for who, clock, vals in lg.energy:
        for hn, obs in vals.items():
            if hn not in hosts:
                continue
            segs = hist[hn]
            exp = orc.integrate(segs, clock)
            pmax = max(max(w) for w in hosts[hn]["energy"]["watts"])
            tol = 1e-9 * abs(exp) + 5 * orc.PREC_TIMING * max(pmax, hosts[hn]["energy"]["off"]) + 1e-12
            ctx.count("energy.host_observations")
            ctx.evaluation()
            if obs < last.get(hn, 0.0):
                ctx.violation("C23:host:energy-decreased", "energy of %s went from %r to %r at t=%r" % (hn, last[hn], obs, clock), w0)
            last[hn] = obs
            powers = set(s[2] for s in segs if s[0] < clock)
            if len(powers) >= 3:
                nontrivial = True
            if abs(obs - exp) <= tol:
                ctx.maximum("energy.worst_rel_error", abs(obs - exp) / max(abs(exp), 1e-300) if exp else 0.0)
                continue
            # first segment where the books diverge: compare with the previous observation
            ctx.violation("C23:host:energy!=integral:%s" % classify(sc, lg, hn, segs, clock, feats),
                          "sg_host_get_consumed_energy(%s) at t=%r (%s) = %r J, the integral of the documented power over the recorded history is %r J "
                          "(difference %r); power segments (t0, t1, W, on, pstate, load flop/s): %r; host %r"
                          % (hn, clock, "maestro after the run" if who == "#final" else "actor " + who, obs, exp, obs - exp,
                             [s for s in segs if s[0] < clock][:14], {k: hosts[hn][k] for k in ("cores", "speeds", "props")}), w0)
    # observation invariance: final energies with and without the intermediate observations
    fa = [e for e in lg.energy if e[0] == "#final"]
    fb = [e for e in lq.energy if e[0] == "#final"]
    if fa and fb and lq.end == lg.end:
        for hn in hosts:
            a, b = fa[0][2].get(hn), fb[0][2].get(hn)
            pmax = max(max(w) for w in hosts[hn]["energy"]["watts"])
            ctx.count("energy.invariance_pairs")
            if abs(a - b) > 1e-9 * max(abs(a), abs(b)) + 5 * orc.PREC_TIMING * pmax + 1e-12:
                ctx.violation("C23:host:observation-changes-total:%s" % classify(sc, lg, hn, hist[hn], end, feats),
                              "final energy of %s is %r J when an actor also read the energies at %r, and %r J when nobody looked before the end "
                              "(integral of the documented power: %r J)"
                              % (hn, a, sorted(set(e[1] for e in lg.energy if e[0] != "#final")), b, orc.integrate(hist[hn], end)), w0)
    elif fa and fb:
        ctx.count("energy.invariance_skipped_different_end")
    if nontrivial:
        ctx.nontrivial(sc)
    return nontrivial


def features(sc):
    f = set()
    for a in sc["actors"]:
        for op in a["ops"]:
            if op[0] in ("xmigrate", "xsuspend", "xcancel", "off", "pstate"):
                f.add(op[0])
    if any(p["kind"] == "hstate" for p in sc["profiles"]):
        f.add("state-profile")
    return f


def classify(sc, lg, hn, segs, clock, feats):
    """Names the class of the history of this host before `clock` (stable across seeds). The first two classes are the ones of the
    open findings; they are only given to the hosts they can concern."""
    h = [h for h in sc["hosts"] if h["name"] == hn][0]
    if sc["via"] == "xml" and (h.get("pstate") or any(p["res"] == hn and p["kind"] == "hstate" and [v for d, v in p["pts"] if d == 0][-1:] == [0.0]
                                                        for p in sc["profiles"])):
        return "xml-state-set-before-the-run"
    xt = exec_table(sc)
    for o in lg.ops:
        if o[2] == "xmigrate" and o[1] < clock and o[4] == hn:
            return "destination-of-a-migration"
    c = []
    if any(o[2] == "xmigrate" and o[1] < clock and xt[o[3]]["host"] == hn for o in lg.ops):
        c.append("after-emigration")
    if any(o[2] == "xsuspend" and o[1] < clock for o in lg.ops):
        c.append("after-suspend")
    if any(o[2] == "pstate" and o[3] == hn and o[1] < clock for o in lg.ops):
        c.append("after-pstate-switch")
    if any(not s[3] for s in segs if s[0] < clock):
        c.append("after-off")
    return "+".join(c) or "plain"


# ------------------------------------------------------------------------------------------------------------ links
def judge_links(ctx, sc, flavour, res, res_quiet, corrupt=None):
    w0 = {"scenario": sc, "flavour": flavour, "part": "link"}
    for r in (res, res_quiet):
        if r.timed_out:
            ctx.inconclusive("avail harness watchdog")
            return False
    lg, lq = orc.parse(res.out), orc.parse(res_quiet.out)
    if corrupt:
        corrupt(lg, lq)
    if lg.bad or lq.bad:
        raise HarnessFailure("avail harness rejected its input: %s" % (lg.bad + lq.bad)[:3])
    for r, l in ((res, lg), (res_quiet, lq)):
        if r.rc != 0 or l.end is None:
            san = proc.sanitizer_reports(r.err)
            sig = "SIG%d" % r.signal if r.signal else "rc%s" % r.rc
            ctx.violation("C23:crash:link:%s" % (san[0][0] if san else sig), "harness died (%s): %s" % (sig, (san[:1] or [r.err[-600:]])[0]), w0)
            return False
    sizes = {}
    for a in sc["actors"]:
        for op in a["ops"]:
            if op[0] in ("comm", "cstart"):
                sizes[op[1]] = float(op[4])
    lat = sum(l["lat"] for l in sc["links"])
    cls = "latency>0" if lat > 0 else "latency=0"
    nontrivial = False
    last = {}
    for who, clock, vals in lg.energy:
        inflight = [i for i in lg.cs if lg.cs[i] <= clock and (i not in lg.ce or lg.ce[i][0] > clock)]
        done = sum(sizes[i] for i in lg.ce if lg.ce[i][0] <= clock and lg.ce[i][1] == "ok")
        for l in sc["links"]:
            obs = vals.get(l["name"])
            if obs is None:
                continue
            if obs < last.get(l["name"], 0.0):
                ctx.violation("C23:link:energy-decreased", "energy of %s went from %r to %r at t=%r" % (l["name"], last[l["name"]], obs, clock), w0)
            last[l["name"]] = obs
            if inflight:
                ctx.count("energy.link_observations_unjudged_in_flight")
                continue
            e = l["energy"]
            exp = e["idle"] * clock + (e["busy"] - e["idle"]) * done / l["bw"]
            ctx.count("energy.link_observations")
            ctx.evaluation()
            if done > 0:
                nontrivial = True
            if abs(obs - exp) <= 1e-9 * abs(exp) + 5 * orc.PREC_TIMING * e["busy"] + 1e-12:
                continue
            ctx.violation("C23:link:energy!=integral:%s" % cls,
                          "sg_link_get_consumed_energy(%s) at t=%r = %r J; idle*t + (busy-idle)*bytes/bandwidth = %r J (%r bytes delivered, nothing in "
                          "flight; link %r; route latency %r; messages %r)"
                          % (l["name"], clock, obs, exp, done, {k: l[k] for k in ("bw", "lat", "props")}, lat,
                             sorted((lg.cs[i], lg.ce[i][0], sizes[i]) for i in lg.ce)), w0)
    fa = [e for e in lg.energy if e[0] == "#final"]
    fb = [e for e in lq.energy if e[0] == "#final"]
    if fa and fb and lq.end == lg.end:
        for l in sc["links"]:
            a, b = fa[0][2].get(l["name"]), fb[0][2].get(l["name"])
            ctx.count("energy.invariance_pairs")
            if abs(a - b) > 1e-9 * max(abs(a), abs(b)) + 5 * orc.PREC_TIMING * l["energy"]["busy"] + 1e-12:
                ctx.violation("C23:link:observation-changes-total:%s" % cls,
                              "final energy of %s is %r J when actors also read the energies during the run, %r J when nobody looked before the end"
                              % (l["name"], a, b), w0)
    if nontrivial:
        ctx.nontrivial(sc)
    return nontrivial


def quiet(sc):
    """Same scenario without the intermediate observations (the dates at which the observers wake up are kept)."""
    q = copy.deepcopy(sc)
    for a in q["actors"]:
        a["ops"] = [op for op in a["ops"] if op[0] != "energy"]
    return q


# ------------------------------------------------------------------------------------------------------------ directed
def _host(name, cores, speeds, watts, off):
    return {"name": name, "cores": cores, "speeds": speeds, "energy": {"watts": watts, "off": off},
            "props": {"wattage_per_state": ",".join(":".join(gen.num(x) for x in w) for w in watts), "wattage_off": gen.num(off)}}


def directed():
    out = []
    # D1: the table of the plugin documentation: 4 cores, 100:120:200, off 10 -> 100 / 140 / 160 / 180 / 200 W for 0..4 loaded cores
    sc = {"mode": "exact", "via": "xml", "flags": [], "hflags": [], "plugins": ["host_energy"], "profiles": [], "links": [], "routes": [], "step": 1.0,
          "hosts": [_host("obs", 1, [1.0], [[1.0, 1.0, 1.0]], 0.0), _host("e1", 4, [100e6], [[100.0, 120.0, 200.0]], 10.0)]}
    ops = []
    for k in range(1, 5):
        ops += [["until", 10.0 * k], ["exec", "x%d" % k, "e1", 100e6 * k * 2, 0.0, 1.0, k]]
    sc["actors"] = [{"name": "w0", "host": "obs", "ops": ops},
                    {"name": "ctl", "host": "obs", "ops": [["until", 60.0], ["off", "e1"], ["until", 70.0], ["on", "e1"]]},
                    {"name": "zobs", "host": "obs", "ops": sum(([["until", float(t)], ["energy"]] for t in (5, 10, 12, 20, 22, 30, 32, 40, 42, 50, 60, 65, 70, 80)), [])}]
    out.append(("doc-table", sc))
    # D2: three pstates (documentation example 95:120:200, 93:115:170, 90:110:150), switches while loaded, suspend/resume, cancel
    sc = {"mode": "exact", "via": "api", "flags": [], "hflags": [], "plugins": ["host_energy"], "profiles": [], "links": [], "routes": [], "step": 1.0,
          "hosts": [_host("obs", 1, [1.0], [[1.0, 1.0, 1.0]], 0.0),
                    _host("e1", 4, [8.0, 4.0, 2.0], [[95.0, 120.0, 200.0], [93.0, 115.0, 170.0], [90.0, 110.0, 150.0]], 10.0)]}
    sc["actors"] = [{"name": "w0", "host": "obs", "ops": [["until", 1.0], ["xstart", "x1", "e1", 64.0, 0.0, 1.0, 1], ["xstart", "x2", "e1", 64.0, 0.0, 1.0, 2],
                                                          ["until", 3.0], ["xsuspend", "x1"], ["until", 5.0], ["xresume", "x1"], ["until", 6.0], ["xcancel", "x2"],
                                                          ["xwait", "x1"], ["xwait", "x2"]]},
                    {"name": "ctl", "host": "obs", "ops": [["until", 2.0], ["pstate", "e1", 1], ["until", 4.0], ["pstate", "e1", 2], ["until", 8.0], ["pstate", "e1", 0]]},
                    {"name": "zobs", "host": "obs", "ops": sum(([["until", float(t)], ["energy"]] for t in (0, 1, 2, 2.5, 3, 4, 5, 6, 7, 8, 9, 30)), [])}]
    out.append(("pstates", sc))
    # D3: migration of a running exec between two energy hosts
    sc = {"mode": "exact", "via": "api", "flags": [], "hflags": [], "plugins": ["host_energy"], "profiles": [], "links": [], "routes": [], "step": 1.0,
          "hosts": [_host("obs", 1, [1.0], [[1.0, 1.0, 1.0]], 0.0), _host("e1", 1, [8.0], [[10.0, 20.0, 100.0]], 0.0), _host("e2", 1, [8.0], [[10.0, 20.0, 100.0]], 0.0)]}
    sc["actors"] = [{"name": "w0", "host": "obs", "ops": [["until", 1.0], ["xstart", "x1", "e1", 64.0, 0.0, 1.0, 1], ["until", 4.0], ["xmigrate", "x1", "e2"], ["xwait", "x1"]]},
                    {"name": "zobs", "host": "obs", "ops": sum(([["until", float(t)], ["energy"]] for t in (12, 20)), [])}]
    out.append(("migration", sc))
    # D4: initial pstate given in the platform (XML attribute pstate= / set_pstate before the run), host off at date 0 by its state profile
    for via in ("xml", "api"):
        e1 = _host("e1", 2, [8.0, 4.0], [[100.0, 120.0, 160.0], [50.0, 60.0, 70.0]], 10.0)
        e1["pstate"] = 1
        e2 = _host("e2", 1, [8.0], [[100.0, 120.0, 160.0]], 10.0)
        sc = {"mode": "exact", "via": via, "flags": [], "hflags": [], "plugins": ["host_energy"], "links": [], "routes": [], "step": 1.0,
              "profiles": [{"kind": "hstate", "res": "e2", "pts": [[0.0, 0.0], [2.0, 1.0]], "loop": None, "how": "xml" if via == "xml" else "str"}],
              "hosts": [_host("obs", 1, [1.0], [[1.0, 1.0, 1.0]], 0.0), e1, e2]}
        sc["actors"] = [{"name": "w0", "host": "obs", "ops": [["until", 3.0], ["exec", "x1", "e1", 8.0, 0.0, 1.0, 1]]},
                        {"name": "zobs", "host": "obs", "ops": sum(([["until", float(t)], ["energy"]] for t in (1, 2, 3, 4, 6)), [])}]
        out.append(("initial-state:" + via, sc))
    return out


def directed_links():
    out = []
    for lat in (0.0, 0.5):
        sc = {"mode": "exact", "via": "api", "profiles": [], "plugins": ["link_energy"], "step": 1.0,
              "flags": ["--cfg=network/model:CM02", "--cfg=network/TCP-gamma:0", "--cfg=network/crosstraffic:0"], "hflags": [],
              "hosts": [{"name": "obs", "cores": 1, "speeds": [1.0]}, {"name": "n1", "cores": 1, "speeds": [1.0]}],
              "links": [{"name": "l1a", "bw": 16.0, "lat": lat, "policy": "SHARED", "props": {"wattage_range": "10.0:30.0"}, "energy": {"idle": 10.0, "busy": 30.0}}],
              "routes": [{"src": "obs", "dst": "n1", "links": ["l1a"]}]}
        sc["actors"] = [{"name": "w0", "host": "obs", "ops": [["until", 1.0], ["comm", "c1", "obs", "n1", 64], ["until", 8.0], ["energy"]]},
                        {"name": "zobs", "host": "obs", "ops": [["until", 1.25], ["energy"], ["until", 20.0], ["energy"]]}]
        out.append(("link:lat=%s" % lat, sc))
    return out


def run(ctx):
    build.ensure("hooks")
    build.harness("avail.cpp", "hooks")
    n = ctx.size(quick=110, thorough=6000)
    nl = ctx.size(quick=30, thorough=1500)
    nasan = max(2, n // 10)
    cases = []
    for name, sc in directed():
        cases.append(("directed:" + name, "host", sc, "hooks"))
    for name, sc in directed_links():
        cases.append(("directed:" + name, "link", sc, "hooks"))
    for i in range(n):
        rng = ctx.sub_rng("h", i)
        sc, grid, tmax = gen.c23_scenario(rng)
        dates = [op[1] for a in sc["actors"] for op in a["ops"] if op[0] == "until"]
        gen.add_energy_observer(sc, rng, grid, tmax, dates)
        cases.append(("gen%d" % i, "host", sc, "hooks"))
    for i in range(nl):
        rng = ctx.sub_rng("l", i)
        cases.append(("link%d" % i, "link", gen.c23_link_scenario(rng), "hooks"))
    if nasan:
        build.ensure("asan")
        build.harness("avail.cpp", "asan")
        for i in range(nasan):
            rng = ctx.sub_rng("a", i)
            sc, grid, tmax = gen.c23_scenario(rng)
            dates = [op[1] for a in sc["actors"] for op in a["ops"] if op[0] == "until"]
            gen.add_energy_observer(sc, rng, grid, tmax, dates)
            cases.append(("asan%d" % i, "host", sc, "asan"))

    def one(chunk):
        flavour = chunk[0][3]
        scs = []
        for c in chunk:
            scs += [c[2], quiet(c[2])]
        results = run_cases(scs, flavour, budget=120 if flavour == "hooks" else 300)
        for k, (name, part, sc, _) in enumerate(chunk):
            res, resq = results[2 * k], results[2 * k + 1]
            nt = (judge_hosts if part == "host" else judge_links)(ctx, sc, flavour, res, resq)
            ctx.count("cases.%s.%s" % (part, flavour))
            if nt and name.startswith("gen"):
                ctx.sample({"case": name, "hosts": [{k_: h[k_] for k_ in ("name", "cores", "speeds", "props")} for h in sc["hosts"]],
                            "log_excerpt": [l for l in res.out.splitlines() if l[:2] in ("E ", "EF", "OP")][:8]})
    chunks = []
    for fl in ("hooks", "asan"):
        mine = [c for c in cases if c[3] == fl]
        size = 8 if fl == "hooks" else 3
        chunks += [mine[i:i + size] for i in range(0, len(mine), size)]
    ctx.pmap(one, chunks)


def replay(ctx, witness):
    sc = witness["scenario"]
    fl = witness.get("flavour", "hooks")
    res, resq = run_cases([sc, quiet(sc)], fl)
    (judge_hosts if witness.get("part", "host") == "host" else judge_links)(ctx, sc, fl, res, resq)
