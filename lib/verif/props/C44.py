"""C44 Unfolding set algebra is correct.

Monitor: per-actor straight-line programs of real checker-side transitions (built through Channel::reinject +
deserialize_transition) are interleaved at random and every interleaving is unfolded the way UDPOR does it - an event is a
(transition, set of dependent predecessors) pair handed to the real Unfolding::discover_event, which merges equivalent events
of different executions. The harness then asks the real EventSet / History / UnfoldingEvent / Configuration / Unfolding /
maximal_subsets_iterator / Configuration::compute_alternative_to and the xbt subset enumerators about every event, every
pair of events, every subset (all 2^n when n is small, hundreds otherwise) and every configuration among them, and prints
the answers. Python recomputes all of it from the set-theoretic definitions over the printed primitive structure (immediate
causes + the checker's own dispatch_depends answers) and compares each answer.
"""
import itertools
import multiprocessing
import os

from verif import build, core, proc
from verif.gen import unfprog as G

META = {
    "id": "C44", "engine": "E4 unit harness", "engine_path": "harness/unf.cpp",
    "engine_kind": "C++ driver linked to the real libsimgrid (private headers), scripts on stdin, Python definitional reference; "
                   "plus three S4U programs explored by the real simgrid-mc --cfg=model-check/reduction:udpor",
    "level": "exploration",
    "technique": "definition-level reference (transitive closure of causes; configuration = causally closed set without two unrelated "
                 "dependent events; conflict = no configuration holds both) compared with every answer of the udpor classes on real unfoldings",
    "level_text": "Every generated unfolding (0-25 events, built from 1-12 interleavings of per-actor scripts of real transitions of all "
                  "observable kinds over 1-4 actors; immediate causes = the maximal dependent predecessors, or those plus the actor's "
                  "previous event and a few other dependent predecessors, as ExtensionSetCalculator's ActorJoin / MutexTest extensions "
                  "build them) is interrogated exhaustively: history / local configuration / in_history_of / related_to / conflicts_with / "
                  "immediately_conflicts_with / Unfolding::get_immediate_conflicts_of for every event and ordered pair; "
                  "is_valid_configuration / is_conflict_free / is_maximal / get_largest_maximal_subset / History::get_all_events / "
                  "get_all_maximal_events / topological orderings / Configuration construction for all 2^n subsets (n <= 10 quick, 13 "
                  "thorough) or >= 250 sampled subsets incl. every local configuration and their pairwise unions; is_compatible_with (event "
                  "and history), add_event, latest events per actor, minimally reproducible events, History::get_event_diff_with and four "
                  "maximal_subsets_iterator runs (plain, filtered, size-limited, both) for every configuration met; compute_alternative_to / "
                  "compute_k_partial_alternative_to for (C, D) pairs shaped as UDPOR's (C a configuration, D outside C with its history "
                  "inside); Unfolding::mark_finished + rediscovery; EventSet algebra; LazyPowerset / LazyKSubsets over the EventSet and "
                  "over vectors; variable_for_loop. Each answer is compared with a reference computed in Python from the definitions.",
    "level_note": "dispatch_depends is trusted (C39/C42) and read from the real code. conflicts_with() is by design a partial test (it looks "
                  "only at the two events against the other's private history; upstream's unit tests pin that): the oracle demands the "
                  "definitional answer where one of the two events extends a configuration holding the other's history - the only way "
                  "is_compatible_with / add_event / the spikes of compute_alternative_to ask - and elsewhere only that it never claims a "
                  "conflict that does not exist; the pairs and non-closed sets where it differs from the definition are counted "
                  "(conflict.pairs.missed_inherited, conflict_free.nonclosed_sets_differing) and their one reachable consequence is the "
                  "open finding C44:alternative:throws. Executions need not be feasible runs: the classes and the reference are functions "
                  "of the dependency relation only. ExtensionSetCalculator needs a live application (State / RemoteApp): it is only run "
                  "through the three end-to-end simgrid-mc programs, which are judged for the two signatures of the open findings only. "
                  "maximal_subsets_iterator with maximum_subset_size = 0 (refused by an xbt_assert) and over an ordering that lists an event "
                  "twice (open finding) is not asked. k-subsets with k = 0: both 'nothing' and 'the empty set' are accepted. Unit harness "
                  "on the plain and on the ASan+UBSan flavour (smaller dumps there), simgrid-mc runs on the plain flavour.",
    "rule": "case = one dumped unfolding; non-trivial = distinct unfoldings with >= 5 events, >= 1 pair in conflict, >= 1 concurrent pair "
            "and >= 1 causal pair that is not an immediate cause",
    "assumptions": ["dispatch_depends() is the (symmetric) dependency relation (C39/C42)", "actor ids <= 30 (static_config::max_threads)"],
    "ready": True,
}

# Channel::unpack<T>() does misaligned loads by design of the wire format: UBSan goes on, only other reports are judged (as C42).
# ASan: the udpor classes allocate a hash set per call; recording a call stack per allocation makes the harness 10x slower.
SAN_ENV = {"UBSAN_OPTIONS": "print_stacktrace=0:halt_on_error=0:exitcode=87",
           "ASAN_OPTIONS": "abort_on_error=0:halt_on_error=1:detect_leaks=0:detect_stack_use_after_return=0:allocator_may_return_null=1:"
                           "exitcode=86:handle_segv=1:print_legend=0:print_summary=1:malloc_context_size=0:quarantine_size_mb=16"}

# dump parameters (G command) per profile: exhaustive up to n events, sampled subsets otherwise, cap on iterator output, number of
# configurations for which alternatives are asked
PROFILE = {"quick": (10, 250, 400, 6), "thorough": (13, 1500, 400, 20), "asan": (7, 60, 100, 3)}


def relevant_reports(err):
    return [(k, l) for k, l in proc.sanitizer_reports(err) if not ("Channel.hpp" in l and "misaligned address" in l)]


def popcount(m):
    return bin(m).count("1")


def bits(m):
    i = 0
    while m:
        if m & 1:
            yield i
        m >>= 1
        i += 1


def hx(m):
    return "{" + ",".join(str(i) for i in bits(m)) + "}"

# ---------------------------------------------------------------------------------------------------------------------
# generation


def gen_case(rng, cid, tier):
    nact = rng.choice([1, 2, 2, 2, 3, 3, 3, 3, 3, 4, 4, 4])
    maxlen = rng.choice([1, 2, 3, 4, 5, 6, 7, 8]) if nact > 1 else rng.randrange(1, 9)
    fams = rng.sample(G.FAMILIES, rng.randrange(1, len(G.FAMILIES) + 1)) if rng.random() < 0.7 else list(G.FAMILIES)
    if rng.random() < 0.35:
        fams = [f for f in fams if f in ("mutex", "sem", "condvar")] or ["mutex"]     # dense conflicts
    env, progs = G.program(rng, nact, maxlen, fams)
    trs, index = [], {}
    for a in sorted(progs):
        for k, t in enumerate(progs[a]):
            index[(a, k)] = len(trs)
            trs.append(t)
    maxev = rng.choice([5, 7, 10, 12, 15, 15, 20, 25, 25, rng.randrange(5, 26)])
    if tier == "asan":
        maxev = min(maxev, 12)
    style = "2 %d" % rng.randrange(1000) if rng.random() < 0.3 else "0"
    nexec = rng.choice([1, 2, 3, 4, 6, 8, 10, 12])
    execs = []
    for _ in range(nexec):
        pos = {a: 0 for a in progs}
        live = [a for a in progs if progs[a]]
        ex = []
        stop = rng.random() < 0.2 and rng.randrange(max(1, len(trs) // 2), len(trs) + 1)
        bias = rng.choice(live) if rng.random() < 0.4 else None        # one actor runs ahead: long chains next to short ones
        while live and (not stop or len(ex) < stop):
            a = bias if bias in live and rng.random() < 0.7 else rng.choice(live)
            ex.append(index[(a, pos[a])])
            pos[a] += 1
            if pos[a] >= len(progs[a]):
                live.remove(a)
        execs.append(ex)
    return mkcase(cid, "program", trs, style, maxev, execs, rng.randrange(1 << 30), tier, remark=rng.random() < 0.5, mark_seed=rng.randrange(1 << 30))


def mkcase(cid, mode, trs, style, maxev, execs, seed, tier, remark=True, mark_seed=1, alts=()):
    exh, nsample, cap, nalt = PROFILE[tier]
    lines = ["U %s" % cid] + ["T " + G.txt(t) for t in trs] + ["Y %s" % style, "W %d" % maxev]
    lines += ["E " + " ".join(str(k) for k in ex) for ex in execs]
    lines.append("G %d %d %d %d %d" % (exh, nsample, seed, cap, nalt))
    lines += ["J %d %x %x" % a for a in alts]
    if remark:
        # what UDPOR's clean-up does: events are moved from U to G; discovering them again must hand back the same events
        lines.append("H %x" % (mark_seed & ((1 << 30) - 1)))
        lines += ["E " + " ".join(str(k) for k in ex) for ex in execs]
        lines.append("H 0")
    return {"id": cid, "mode": mode, "lines": lines, "ntrs": len(trs), "trs": [G.txt(t) for t in trs]}


def _lock(a, m):
    return (a, 0, "ML", m, a)


def directed(tier):
    D = []
    # two actors taking the same mutex then doing something private: the two first locks conflict, what follows them
    # conflicts by inheritance only
    D.append(mkcase("d-inherit", "directed", [_lock(1, 0), (1, 0, "BL", 1), _lock(2, 0), (2, 0, "BL", 2)], 0, 25,
                    [[0, 1, 2, 3], [2, 3, 0, 1]], 7, tier))
    # four actors, three mutexes. a1: lock m, lock n; a2: lock m, lock k; a3: lock n; a4: lock k. Alternatives to
    # D = {a3's lock, a4's lock} after the empty configuration must combine one event conflicting with each: the pairs
    # (a1's lock n after its lock m first, a2's lock k after its lock m first) conflict through their histories only.
    t4 = [_lock(1, 0), _lock(1, 1), _lock(2, 0), _lock(2, 2), _lock(3, 1), _lock(4, 2)]
    D.append(mkcase("d-alt-inherit", "directed", t4, 0, 25,
                    [[4, 5], [0, 1], [2, 3], [0, 2, 3], [2, 0, 1], [0, 1, 4], [2, 3, 5]], 11, tier,
                    alts=[(-1, 0, 0x3), (1, 0, 0x3), (2, 0, 0x3)]))
    # the same program when UDPOR has discovered only these events: e0 = <3: lock n>, e1 = <4: lock k>, e2 = <1: lock m>,
    # e3 = <1: lock n> after e2, e4 = <2: lock m>, e5 = <2: lock k> after e4. C = {}, D = {e0, e1}: e3 is the only event in
    # conflict with e0, e5 the only one in conflict with e1, and [e3] u [e5] holds e2 # e4: there is no alternative.
    D.append(mkcase("d-alt-none", "directed", t4, 0, 25, [[4, 5], [0, 1], [2, 3]], 41, tier, alts=[(-1, 0, 0x3), (2, 0, 0x3), (1, 0, 0x3)]))
    # one actor: a chain, no conflict, every prefix is a configuration
    D.append(mkcase("d-chain", "directed", [_lock(5, 0), (5, 0, "MW", 0, 5), (5, 0, "SD", 1, 0, 0), (5, 0, "WT", 0, 1, 5, 5, 0),
                                            (5, 0, "MU", 0, 5), (5, 0, "AE")], 0, 25, [[0, 1, 2, 3, 4, 5]], 3, tier))
    # pairwise independent actors: every subset is a configuration, every subset is maximal
    D.append(mkcase("d-independent", "directed", [_lock(1, 0), _lock(2, 1), (3, 0, "SL", 0, 1, 1), (4, 0, "BL", 0), (5, 1, "RN", 0, 2), (6, 0, "AS")],
                    0, 25, [[0, 1, 2, 3, 4, 5], [5, 4, 3, 2, 1, 0]], 5, tier))
    # nothing at all
    D.append(mkcase("d-empty", "directed", [], 0, 25, [], 1, tier))
    # three actors fighting for one mutex, all 6 orders of the locks + their unlocks: the densest conflict relation, 25 events
    t3 = [_lock(1, 0), (1, 0, "MU", 0, 1), _lock(2, 0), (2, 0, "MU", 0, 2), _lock(3, 0), (3, 0, "MU", 0, 3)]
    ex3 = [[2 * a, 2 * a + 1, 2 * b, 2 * b + 1, 2 * c, 2 * c + 1] for a, b, c in itertools.permutations(range(3))]
    D.append(mkcase("d-dense", "directed", t3, 0, 25, ex3, 13, tier))
    D.append(mkcase("d-dense-extracauses", "directed", t3, "2 5", 25, ex3[:3], 17, tier))
    # smallest and largest actor ids, a communication with wait and test, actor creation / join / exit (join has two causes
    # that may be ordered)
    tc = [(0, 0, "AC", 30), (0, 0, "SD", 1, 0, 0), (0, 0, "WT", 0, 1, 0, 30, 0), (0, 0, "AJ", 30, 0),
          (30, 0, "RV", 1, 0, 0), (30, 0, "TS", 1, 0, 30, 0), (30, 0, "AE")]
    D.append(mkcase("d-comm-actor", "directed", tc, 0, 25, [[0, 1, 4, 2, 5, 6, 3], [0, 4, 5, 1, 2, 6, 3], [0, 4, 1, 5, 6, 2, 3]], 19, tier))
    D.append(mkcase("d-comm-actor-extracauses", "directed", tc, "2 1", 25, [[0, 1, 4, 2, 5, 6, 3], [0, 4, 5, 1, 2, 6, 3]], 23, tier))
    # exactly what ExtensionSetCalculator::partially_extend_ActorJoin builds. Actor 2 exits (x); actor 3 joins it, then locks and
    # unlocks mutex 0; actor 1 locks mutex 0 after that (l1) and joins actor 2: its join gets the causes {pre_event = l1,
    # last_event_waited = x} with x < l1, inserted in that order. (salt 5 draws exactly that extra cause and no other)
    tj = [(2, 0, "AE"), (3, 0, "AJ", 2, 0), (3, 0, "ML", 0, 3), (3, 0, "MU", 0, 3), (1, 0, "ML", 0, 1), (1, 0, "AJ", 2, 0)]
    D.append(mkcase("d-join", "directed", tj, "2 5", 25, [[0, 1, 2, 3, 4, 5]], 31, tier))
    # the same shape from partially_extend_MutexTest: K = {an unlock event e of the configuration, pre_event}, inserted in that
    # order, with pre_event < e: actor 1 locks (pre_event), actor 2 locks after it and unlocks (e), actor 1 tests
    tm = [(1, 0, "ML", 0, 1), (2, 0, "ML", 0, 1), (2, 0, "MU", 0, 2), (1, 0, "Mt", 0, 1)]
    D.append(mkcase("d-mutex-test", "directed", tm, "2 1", 25, [[0, 1, 2, 3], [1, 2, 0, 3]], 37, tier))
    # stop rule: the unfolding is cut at 5 events in the middle of an execution
    D.append(mkcase("d-cut", "directed", t3, 0, 5, ex3, 29, tier))
    return D


def enumerator_lines(rng, n):
    """Commands for the xbt enumerators over vectors + what they must yield."""
    out = ["L P 0", "L P 1", "L K 0 0", "L K 0 3", "L K 1 1", "L K 4 3", "L K 3 3", "L K 1 5", "L K 2 2", "L F", "L F 0", "L F 3 0 2", "L F 1", "L F 1 1 1"]
    for _ in range(n):
        x = rng.random()
        if x < 0.3:
            out.append("L P %d" % rng.randrange(0, 11))
        elif x < 0.7:
            m = rng.randrange(0, 13)
            out.append("L K %d %d" % (rng.randrange(0, m + 2), m))
        else:
            out.append("L F " + " ".join(str(rng.choice([1, 1, 2, 2, 3, 4, 0 if rng.random() < 0.1 else 2])) for _ in range(rng.randrange(1, 6))))
    return out

# ---------------------------------------------------------------------------------------------------------------------
# oracle


class Ref:
    """Definition-level reference over the printed primitive structure."""

    def __init__(self, causes, dep):
        n = self.n = len(causes)
        self.causes, self.dep = causes, dep
        self.hist = [0] * n
        for i in range(n):                  # events are numbered in discovery order: causes precede
            h = 0
            for j in bits(causes[i]):
                h |= self.hist[j] | 1 << j
            self.hist[i] = h
        self.lc = [self.hist[i] | 1 << i for i in range(n)]
        self.above = [0] * n                # strict descendants
        for i in range(n):
            for j in bits(self.hist[i]):
                self.above[j] |= 1 << i
        # direct conflict: unrelated and dependent (then no execution can hold both: the later one would have the earlier one
        # among its dependent predecessors, hence in its history)
        self.direct = [0] * n
        for i in range(n):
            self.direct[i] = dep[i] & ~self.lc[i] & ~self.above[i]
        self._cfg = {}

    def closure(self, m):
        c = m
        for i in bits(m):
            c |= self.hist[i]
        return c

    def conflict_free(self, m):
        """No two events of the causal closure of m are unrelated and dependent <=> (m closed) m is conflict-free."""
        for i in bits(m):
            if self.direct[i] & m:
                return False
        return True

    def is_config(self, m):
        r = self._cfg.get(m)
        if r is None:
            r = self._cfg[m] = self.closure(m) == m and self.conflict_free(m)
        return r

    def conflict(self, i, j):
        """Set-theoretic definition: no configuration holds both <=> [i] u [j] is not a configuration."""
        return not self.is_config(self.lc[i] | self.lc[j])

    def maxes(self, m):
        return sum(1 << i for i in bits(m) if not self.above[i] & m)

    def antichain(self, m):
        return self.maxes(m) == m

    def valid_topo(self, m, order):
        if sorted(order) != list(bits(m)):
            return False
        seen = 0
        for e in order:
            if self.hist[e] & m & ~seen:
                return False
            seen |= 1 << e
        return True

    def antichains(self, universe, maxsize, limit):
        """All non-empty antichains inside `universe` of at most maxsize events (None = no limit); stops after `limit`."""
        ev = list(bits(universe))
        out = []

        def rec(start, cur, blocked, size):
            for k in range(start, len(ev)):
                e = ev[k]
                if blocked >> e & 1:
                    continue
                s = cur | 1 << e
                out.append(s)
                if len(out) > limit:
                    return True
                if maxsize is None or size + 1 < maxsize:
                    if rec(k + 1, s, blocked | self.lc[e] | self.above[e], size + 1):
                        return True
            return False
        rec(0, 0, 0, 0)
        return out


class CaseDump:
    def __init__(self):
        self.head = None
        self.Z = []
        self.V, self.R, self.S, self.K, self.M, self.A, self.J = [], [], [], [], [], [], []
        self.P = self.Q = None
        self.X = None
        self.finished = False


def parse_output(text):
    """-> (dict id -> CaseDump, list of L answer lines, done)"""
    cases, L, done = {}, [], False
    cur = None
    for line in text.splitlines():
        f = line.split()
        if not f:
            continue
        t = f[0]
        if t == "N":
            cur = cases[f[1]] = CaseDump()
            cur.head = f
        elif t in ("LP", "LK", "LF"):
            L.append(f)
        elif t == "DONE":
            done = True
        elif cur is None:
            raise ValueError("unexpected harness line %r" % line)
        elif t == "Z":
            cur.Z.append(int(f[1]))
        elif t == "X":
            cur.X = int(f[1])
        elif t == "P":
            cur.P = f
        elif t == "Q":
            cur.Q = f
        elif t == "F":
            cur.finished = True
        elif t in "VRSKMAJ":
            getattr(cur, t).append(f)
        else:
            raise ValueError("unexpected harness line %r" % line)
    return cases, L, done


def masks(s):
    return [] if s == "-" else [int(x, 16) for x in s.split(",")]


def order(s):
    return [] if s == "-" else [int(x) for x in s.split(",")]


def judge_case(c, d):
    """c = generated case, d = CaseDump. Returns (findings [(key, what)], stats)."""
    out = []
    st = {}

    seen_keys = set()

    def bad(key, what):
        if key not in seen_keys:            # one witness per rule and case
            seen_keys.add(key)
            out.append(("C44:" + key, what))

    n = int(d.head[2])
    st["events"] = n
    if int(d.head[3]) != c["ntrs"]:
        bad("harness", "the harness parsed %s transitions, %d were sent" % (d.head[3], c["ntrs"]))
        return out, st
    if not d.finished or len(d.V) != n or len(d.R) != n:
        bad("harness", "incomplete dump")
        return out, st
    causes = [int(v[4], 16) for v in d.V]
    actor = [int(v[2]) for v in d.V]
    progof = [int(v[3]) for v in d.V]
    dep = [int(r[2], 16) for r in d.R]
    full = (1 << n) - 1
    # ---- the unfolding itself
    for z in d.Z:
        if z != n:
            bad("unfolding:size", "the Unfolding holds %d events after %d distinct (transition, causes) pairs were discovered%s"
                % (z, n, "" if z is d.Z[0] else " (after mark_finished + rediscovery)"))
    for i, v in enumerate(d.V):
        if int(v[5], 16) != causes[i]:
            bad("event:immediate_causes", "event %d was created with causes %s, get_immediate_causes() says %s" % (i, hx(causes[i]), hx(int(v[5], 16))))
        if causes[i] >> i:
            bad("harness", "event %d has a cause discovered after it" % i)
            return out, st
    sig = {}
    for i in range(n):
        k = (progof[i], causes[i])
        if k in sig:
            bad("unfolding:duplicate", "events %d and %d are the same (transition, causes) pair" % (sig[k], i))
        sig[k] = i
    for i in range(n):
        for j in range(n):
            if (dep[i] >> j & 1) != (dep[j] >> i & 1):
                bad("dep-asymmetric", "dispatch_depends is not symmetric on (%s) / (%s)" % (c["trs"][progof[i]], c["trs"][progof[j]]))
        if not dep[i] >> i & 1:
            bad("dep-irreflexive", "dispatch_depends(t, t) is false for (%s)" % c["trs"][progof[i]])
    if out:
        return out, st
    R = Ref(causes, dep)
    # premise of the statement: the structure is an unfolding (every local configuration is a configuration)
    for i in range(n):
        if not R.conflict_free(R.lc[i]):
            bad("harness", "generator: the local configuration of event %d is not conflict-free" % i)
            return out, st
    # ---- events and pairs
    nconf = nconc = ncausal_far = nmissed = nimm = 0
    I = [0] * n
    T = [0] * n
    for i in range(n):
        for j in range(n):
            if i != j and R.conflict(i, j):
                T[i] |= 1 << j
    for i in range(n):
        for j in bits(T[i]):
            u = R.lc[i] | R.lc[j]
            if R.is_config(u & ~(1 << i)) and R.is_config(u & ~(1 << j)):
                I[i] |= 1 << j
    for i, r in enumerate(d.R):
        hist, lc, inh, rel, conf, iconf, uiconf = (int(x, 16) for x in r[3:10])
        if hist != R.hist[i]:
            bad("event:get_history", "get_history(e%d) = %s, the transitive closure of the causes is %s" % (i, hx(hist), hx(R.hist[i])))
        if lc != R.lc[i]:
            bad("event:get_local_config", "get_local_config(e%d) = %s, definition: %s" % (i, hx(lc), hx(R.lc[i])))
        others = full & ~(1 << i)
        if inh & others != R.above[i]:
            bad("event:in_history_of", "e%d.in_history_of(x) holds for x in %s, e%d is in the history of %s" % (i, hx(inh & others), i, hx(R.above[i])))
        if rel & others != R.above[i] | R.hist[i]:
            bad("event:related_to", "e%d.related_to(x) holds for x in %s, definition: %s" % (i, hx(rel & others), hx(R.above[i] | R.hist[i])))
        if conf >> i & 1:
            bad("conflicts_with:reflexive", "e%d.conflicts_with(e%d)" % (i, i))
        if conf & ~T[i] & others:
            j = next(bits(conf & ~T[i] & others))
            bad("conflicts_with:spurious", "e%d.conflicts_with(e%d) although [e%d] u [e%d] = %s is a configuration" % (i, j, i, j, hx(R.lc[i] | R.lc[j])))
        for j in bits(T[i]):
            if not conf >> j & 1:
                # the checker asks only about an event against events of a configuration holding its history (or the reverse)
                if R.is_config(R.hist[i] | R.lc[j]) or R.is_config(R.lc[i] | R.hist[j]):
                    bad("conflicts_with:missed", "e%d.conflicts_with(e%d) is false; e%d extends the configuration %s which holds e%d, and the union is not a configuration"
                        % (i, j, i if R.is_config(R.hist[i] | R.lc[j]) else j, hx(R.hist[i] | R.lc[j] if R.is_config(R.hist[i] | R.lc[j]) else R.lc[i] | R.hist[j]),
                           j if R.is_config(R.hist[i] | R.lc[j]) else i))
                else:
                    nmissed += 1
        for j in range(n):
            if (conf >> j & 1) != (int(d.R[j][7], 16) >> i & 1):
                bad("conflicts_with:asymmetric", "e%d.conflicts_with(e%d) != e%d.conflicts_with(e%d)" % (i, j, j, i))
        if iconf != I[i]:
            x = iconf ^ I[i]
            j = next(bits(x))
            bad("immediately_conflicts_with:" + ("spurious" if iconf >> j & 1 else "missed"),
                "e%d.immediately_conflicts_with(e%d) = %d; conflict: %s, [e%d] u [e%d] minus either event is a configuration: %s"
                % (i, j, iconf >> j & 1, bool(T[i] >> j & 1), i, j, bool(I[i] >> j & 1)))
        if uiconf != I[i]:
            bad("unfolding:get_immediate_conflicts_of", "Unfolding::get_immediate_conflicts_of(e%d) = %s, definition over the whole unfolding: %s" % (i, hx(uiconf), hx(I[i])))
        nconf += popcount(T[i])
        nimm += popcount(I[i])
        nconc += popcount(others & ~T[i] & ~R.hist[i] & ~R.above[i])
        ncausal_far += popcount(R.hist[i] & ~causes[i])
    st.update(pairs=n * n, conflict_pairs=nconf, immediate_conflict_pairs=nimm, concurrent_pairs=nconc, transitive_causal_pairs=ncausal_far)
    st["conflict.pairs.missed_inherited"] = nmissed
    # ---- subsets
    if d.X == 1 and len(d.S) != 1 << n:
        bad("harness", "exhaustive dump holds %d subsets for %d events" % (len(d.S), n))
    nconfig = ncf_diverge = 0
    dup_topo = None
    for s in d.S:
        m = int(s[1], 16)
        valid, cf, ismax = int(s[2]), int(s[3]), int(s[4])
        lms, allev, maxev, lcfg = (int(x, 16) for x in s[5:9])
        ctor = int(s[9])
        clo = R.closure(m)
        closed = clo == m
        cfg = R.is_config(m)
        nconfig += cfg
        if valid != cfg:
            bad("is_valid_configuration:" + ("accepts" if valid else "rejects"), "%s.is_valid_configuration() = %d; causally closed: %s, conflict-free: %s"
                % (hx(m), valid, closed, R.conflict_free(m)))
        cf_def = not any(T[i] & m for i in bits(m))
        if closed and cf != cf_def:
            bad("is_conflict_free:closed-set", "%s (causally closed).is_conflict_free() = %d, definition %d" % (hx(m), cf, cf_def))
        if not cf and cf_def:
            bad("is_conflict_free:spurious", "%s.is_conflict_free() is false although no two of its events conflict" % hx(m))
        if cf and not cf_def:
            ncf_diverge += 1
        if ismax != R.antichain(m):
            bad("is_maximal", "%s.is_maximal() = %d; maximal events of the set: %s" % (hx(m), ismax, hx(R.maxes(m))))
        if lms != R.maxes(m):
            bad("get_largest_maximal_subset", "%s.get_largest_maximal_subset() = %s, definition %s" % (hx(m), hx(lms), hx(R.maxes(m))))
        if allev != clo:
            bad("History:get_all_events", "History(%s).get_all_events() = %s, causal closure %s" % (hx(m), hx(allev), hx(clo)))
        if maxev != R.maxes(m):
            bad("History:get_all_maximal_events", "History(%s).get_all_maximal_events() = %s, definition %s" % (hx(m), hx(maxev), hx(R.maxes(m))))
        if lcfg != clo:
            bad("EventSet:get_local_config", "%s.get_local_config() = %s, causal closure %s" % (hx(m), hx(lcfg), hx(clo)))
        if ctor != cfg:
            bad("Configuration:constructor", "Configuration(%s) %s; the set is %sa configuration" % (hx(m), "succeeded with these events" if ctor else "threw or holds other events", "" if cfg else "not "))
        if s[10] == "x":
            bad("get_topological_ordering:throws", "%s.get_topological_ordering() reports a cycle" % hx(m))
        elif len(set(order(s[10]))) != len(order(s[10])):
            if dup_topo is None or (cfg and not dup_topo[0]):
                dup_topo = (cfg, m, s[10])
        elif not R.valid_topo(m, order(s[10])):
            bad("get_topological_ordering:invalid", "%s.get_topological_ordering() = %s is not a linear extension of the causality on the set" % (hx(m), s[10]))
    if dup_topo is not None:
        cfg, m, o = dup_topo
        o_ = order(o)
        dup = next(e for e in o_ if o_.count(e) > 1)
        bad("get_topological_ordering:duplicate", "%s%s.get_topological_ordering() = %s lists e%d twice (causes of the events: %s)"
            % ("Configuration" if cfg else "", hx(m), o, dup, ", ".join("e%d<-%s" % (i, hx(causes[i])) for i in bits(R.closure(m)))))
    st.update(subsets=len(d.S), configurations=nconfig, exhaustive=int(d.X == 1))
    st["conflict_free.nonclosed_sets_differing"] = ncf_diverge
    # ---- configurations
    niter = nsets = 0
    for k in d.K:
        cm, compat, hcompat, addok, minrep = (int(x, 16) for x in k[1:6])
        grown = int(k[6])
        if not R.is_config(cm):
            continue        # already reported through Configuration:constructor
        e_compat = sum(1 << i for i in range(n) if not R.hist[i] & ~cm and R.is_config(cm | 1 << i))
        e_hcompat = sum(1 << i for i in range(n) if R.is_config(cm | R.lc[i]))
        if compat != e_compat:
            i = next(bits(compat ^ e_compat))
            bad("is_compatible_with(event):" + ("accepts" if compat >> i & 1 else "rejects"), "Configuration(%s).is_compatible_with(e%d) = %d; history inside: %s, %s + e%d conflict-free: %s"
                % (hx(cm), i, compat >> i & 1, not R.hist[i] & ~cm, hx(cm), i, R.conflict_free(cm | 1 << i)))
        if hcompat != e_hcompat:
            i = next(bits(hcompat ^ e_hcompat))
            bad("is_compatible_with(history):" + ("accepts" if hcompat >> i & 1 else "rejects"), "Configuration(%s).is_compatible_with(History(e%d)) = %d; the union %s is %sa configuration"
                % (hx(cm), i, hcompat >> i & 1, hx(cm | R.lc[i]), "" if R.is_config(cm | R.lc[i]) else "not "))
        if addok != e_compat:
            i = next(bits(addok ^ e_compat))
            bad("add_event:" + ("accepts" if addok >> i & 1 else "rejects"), "Configuration(%s).add_event(e%d) %s; %s + e%d is %sa configuration"
                % (hx(cm), i, "succeeded" if addok >> i & 1 else "threw (or left other events)", hx(cm), i, "" if e_compat >> i & 1 else "not "))
        if minrep != R.maxes(cm):
            bad("get_minimally_reproducible_events", "Configuration(%s).get_minimally_reproducible_events() = %s; the maximal events are %s" % (hx(cm), hx(minrep), hx(R.maxes(cm))))
        if not grown:
            bad("add_event:regrow", "adding the events of Configuration(%s) one by one in get_topologically_sorted_events() order was refused or gave another set" % hx(cm))
        latest = {}
        if k[7] != "-":
            for x in k[7].split(","):
                a, e = x.split(":")
                latest[int(a)] = int(e)
        exp = {}
        for a in set(actor[i] for i in bits(cm)):
            mine = sum(1 << i for i in bits(cm) if actor[i] == a)
            top = R.maxes(mine)
            exp[a] = top
        rev = order(k[8])
        if len(set(rev)) != len(rev):
            # Configuration(EventSet) fills its per-actor map by walking get_topological_ordering(): an ordering that lists an
            # event twice (reported for this very set through its S line) may leave an older event in the map
            st["configurations_with_duplicate_ordering"] = st.get("configurations_with_duplicate_ordering", 0) + 1
        elif set(latest) != set(exp) or any(not exp[a] >> latest[a] & 1 for a in latest):
            bad("get_latest_event_of", "Configuration(%s): latest events per actor %r; last events of each actor in the configuration: %r"
                % (hx(cm), latest, {a: hx(v) for a, v in exp.items()}))
        if len(set(rev)) == len(rev) and not R.valid_topo(cm, list(reversed(rev))):
            bad("get_topologically_sorted_events_of_reverse_graph", "Configuration(%s): %s is not the reverse of a linear extension" % (hx(cm), k[8]))
        for a, b in ((k[9], k[10]), (k[11], k[12])):
            s_, got = int(a, 16), int(b, 16)
            if got != R.closure(s_) & ~cm:
                bad("History:get_event_diff_with", "History(%s).get_event_diff_with(Configuration(%s)) = %s, definition %s" % (hx(s_), hx(cm), hx(got), hx(R.closure(s_) & ~cm)))
    for mm in d.M:
        cm, flt = int(mm[1], 16), int(mm[2], 16)
        maxsize = int(mm[3])
        trunc = int(mm[4])
        got = masks(mm[5])
        if not R.is_config(cm):
            continue
        niter += 1
        nsets += len(got)
        universe = cm & flt & full
        lim = None if maxsize < 0 else maxsize
        tag = "%s%s" % ("+filter" if flt != 0xffffffff else "", "+maxsize" if lim is not None else "")
        desc = "maximal_subsets_iterator(Configuration(%s)%s%s)" % (hx(cm), ", filter=%s" % hx(universe) if flt != 0xffffffff else "", ", max size %d" % lim if lim is not None else "")
        if len(set(got)) != len(got):
            dup = next(x for x in got if got.count(x) > 1)
            bad("maximal_subsets_iterator:duplicate" + tag, "%s yields %s twice" % (desc, hx(dup)))
        for x in got:
            if x and (x & ~universe or not R.antichain(x) or (lim is not None and popcount(x) > lim)):
                bad("maximal_subsets_iterator:spurious" + tag, "%s yields %s which is not a set of at most that many pairwise unrelated events of the filtered configuration" % (desc, hx(x)))
                break
        if not trunc:
            want = set(R.antichains(universe, lim, len(got) + 5)) | {0}
            miss = want - set(got)
            if miss:
                bad("maximal_subsets_iterator:missing" + tag, "%s never yields %s (%d sets yielded, %d qualify)" % (desc, hx(min(miss)), len(got), len(want)))
    st.update(configurations_interrogated=len(d.K), iterator_runs=niter, iterator_sets=nsets)
    # ---- alternatives
    nalt = nalt_found = 0
    for j in d.J:
        kk, cm, dm = int(j[1]), int(j[2], 16), int(j[3], 16)
        if not R.is_config(cm) or dm & cm or any(R.hist[i] & ~cm for i in bits(dm)):
            bad("harness", "alternative asked outside UDPOR's shape: C=%s D=%s" % (hx(cm), hx(dm)))
            continue
        nalt += 1
        D = list(bits(dm))
        need = len(D) if kk < 0 else min(kk, len(D))
        desc = "Configuration(%s).%s(D=%s)" % (hx(cm), "compute_alternative_to" if kk < 0 else "compute_k_partial_alternative_to[k=%d]" % kk, hx(dm))
        tag = "full" if need == len(D) else "partial"

        def exists(sub):
            cands = [[y for y in range(n) if T[e] >> y & 1 and not R.lc[y] & dm] for e in sub]
            for pick in itertools.product(*cands):
                u = cm
                for y in pick:
                    u |= R.lc[y]
                if R.is_config(u):
                    return True
            return False
        if j[4] == "threw":
            ex = exists(D) if need == len(D) else any(exists(sub) for sub in itertools.combinations(D, need))
            bad("alternative:throws:" + tag, "%s throws std::invalid_argument (%s) - uncaught in UdporChecker::explore; an alternative %s"
                % (desc, " ".join(j[5:])[:80], "exists" if ex else "does not exist"))
        elif j[4] == "none":
            if need == len(D):
                if exists(D):
                    bad("alternative:missed:" + tag, "%s finds nothing although an alternative exists" % desc)
            elif all(exists(sub) for sub in itertools.combinations(D, need)):
                bad("alternative:missed:" + tag, "%s finds nothing although every choice of %d events of D has an alternative" % (desc, need))
        else:
            J = int(j[4], 16)
            nalt_found += 1
            hit = sum(1 for e in D if T[e] & (cm | J))
            if not R.is_config(J) or not R.is_config(cm | J):
                bad("alternative:invalid:" + tag, "%s = %s: %s" % (desc, hx(J), "not a configuration" if not R.is_config(J) else "its union with C is not a configuration"))
            elif J & dm:
                bad("alternative:invalid:" + tag, "%s = %s holds an event of D" % (desc, hx(J)))
            elif hit < need:
                bad("alternative:invalid:" + tag, "%s = %s: only %d of the %d required events of D conflict with an event of C u J" % (desc, hx(J), hit, need))
    st.update(alternatives_asked=nalt, alternatives_found=nalt_found)
    # ---- EventSet algebra
    for a in d.A:
        x, y = int(a[1], 16), int(a[2], 16)
        got = [int(v, 16) for v in a[3:8]] + [int(v) for v in a[8:14]]
        exp = [x | y, x | y, x & y, x & ~y, x & ~y, int(x & ~y == 0), int(x == y), int(x != y), int(x & y != 0), popcount(x), int(x == 0)]
        names = ["make_union", "form_union", "make_intersection", "subtracting", "subtract", "is_subset_of", "operator==", "operator!=", "intersects", "size", "empty"]
        for nm, g, e in zip(names, got, exp):
            if g != e:
                bad("EventSet:" + nm, "A=%s B=%s: %s gives %s, expected %s" % (hx(x), hx(y), nm, g, e))
    st["algebra_pairs"] = len(d.A)
    if d.P is not None:
        got = masks(d.P[2])
        if sorted(got) != list(range(1 << n)):
            bad("LazyPowerset:EventSet", "make_powerset_iter over %d events yields %d sets, %d distinct, %d expected" % (n, len(got), len(set(got)), 1 << n))
        st["powerset_sets"] = len(got)
    if d.Q is not None:
        k = int(d.Q[2])
        got = masks(d.Q[3]) if len(d.Q) > 3 else []
        out.extend(("C44:" + a, b) for a, b in judge_ksubsets("EventSet", k, n, got, [popcount(x) for x in got], 40000))
        st["ksubsets_sets"] = len(got)
    return out, st


def comb(n, k):
    if k < 0 or k > n:
        return 0
    r = 1
    for i in range(k):
        r = r * (n - i) // (i + 1)
    return r


def judge_ksubsets(what, k, m, got, sizes, cap):
    out = []
    desc = "make_k_subsets_iter(%d) over %d %s elements" % (k, m, what)
    if any(s != k for s in sizes) or any(popcount(x) != k or x >> m for x in got):
        out.append(("LazyKSubsets:%s:wrong-size" % what, "%s yields a set that is not %d distinct elements" % (desc, k)))
    if len(set(got)) != len(got):
        out.append(("LazyKSubsets:%s:duplicate" % what, "%s yields a subset twice" % desc))
    want = comb(m, k)
    if k == 0:
        if len(got) > 1:          # whether the empty set counts as the one 0-subset is left open
            out.append(("LazyKSubsets:%s:count" % what, "%s yields %d sets" % (desc, len(got))))
    elif want <= cap and len(got) != want:
        out.append(("LazyKSubsets:%s:count" % what, "%s yields %d sets, C(%d,%d) = %d" % (desc, len(got), m, k, want)))
    return out


def judge_L(cmd, f):
    """cmd = the command sent ('L P 3'), f = split answer line. -> findings"""
    c = cmd.split()
    out = []
    if c[1] == "P":
        m = int(c[2])
        got = [] if f[2] == "-" else [int(x, 16) for x in f[2].split(",")]
        if f[0] != "LP" or sorted(got) != list(range(1 << m)):
            out.append(("C44:LazyPowerset:vector", "make_powerset_iter over %d elements yields %d sets, %d distinct, %d expected" % (m, len(got), len(set(got)), 1 << m)))
    elif c[1] == "K":
        k, m = int(c[2]), int(c[3])
        pairs = [] if f[3] == "-" else [x.split(":") for x in f[3].split(",")]
        out += [("C44:" + a, b) for a, b in judge_ksubsets("vector", k, m, [int(p[0], 16) for p in pairs], [int(p[1]) for p in pairs], 10 ** 9)]
    else:
        cols = [int(x) for x in c[2:]]
        got = [] if f[2] == "-" else [tuple(int(y) for y in x.split(".")) for x in f[2].split(",")]
        want = list(itertools.product(*[range(s) for s in cols])) if cols else []
        if sorted(got) != sorted(want):
            out.append(("C44:variable_for_loop", "variable_for_loop over collections of sizes %r yields %d tuples (%d distinct), %d expected" % (cols, len(got), len(set(got)), len(want))))
    return out

# ---------------------------------------------------------------------------------------------------------------------
# oracle self-test: falsify what the harness printed, as a defect of the classes would (VERIF_C44_CORRUPT=<kind>)


def corrupt_output(text, how):
    out = []
    done = set()
    for line in text.splitlines():
        f = line.split()
        t = f[0] if f else ""
        cid = None
        if t == "N":
            corrupt_output.cur = f[1]
        cid = getattr(corrupt_output, "cur", None)
        once = (cid, how) not in done

        def flip(k, bit=None):
            v = int(f[k], 16)
            f[k] = "%x" % (v ^ (1 << bit if bit is not None else (v & -v) or 1))
            done.add((cid, how))
        if once:
            if how == "history" and t == "R" and int(f[3], 16):
                flip(3)
            elif how == "conflict-drop" and t == "R" and int(f[8], 16):
                flip(7, next(bits(int(f[8], 16))))         # an immediate conflict is always a conflict the checker relies on
            elif how == "conflict-add" and t == "R" and int(f[3], 16):
                flip(7, next(bits(int(f[3], 16))))         # conflict with an event of its own history
            elif how == "iconf" and t == "R" and int(f[8], 16):
                flip(8)
            elif how == "uiconf" and t == "R" and int(f[9], 16):
                flip(9)
            elif how == "valid" and t == "S" and int(f[2]) and int(f[1], 16):
                f[2] = "0"
                done.add((cid, how))
            elif how == "maximal" and t == "S" and popcount(int(f[5], 16)) >= 2:
                flip(5)
            elif how == "histmax" and t == "S" and popcount(int(f[7], 16)) >= 2:
                flip(7)
            elif how == "topo" and t == "S" and f[10].count(",") >= 1 and int(f[2]):
                o = f[10].split(",")
                f[10] = ",".join(reversed(o))
                done.add((cid, how))
            elif how == "compat" and t == "K" and int(f[2], 16):
                flip(2)
            elif how == "msi-drop" and t == "M" and f[5].count(",") >= 2 and f[4] == "0":
                f[5] = ",".join(f[5].split(",")[:-1])
                done.add((cid, how))
            elif how == "msi-dup" and t == "M" and f[5].count(",") >= 2:
                f[5] = f[5] + "," + f[5].split(",")[-1]
                done.add((cid, how))
            elif how == "alt-none" and t == "J" and f[4] not in ("none", "threw"):
                f[4] = "none"
                done.add((cid, how))
            elif how == "alt-bad" and t == "J" and f[4] not in ("none", "threw") and int(f[4], 16):
                flip(4)
            elif how == "union" and t == "A" and int(f[3], 16):
                flip(3)
            elif how == "powerset" and t == "P" and f[2].count(",") >= 2:
                f[2] = ",".join(f[2].split(",")[1:])
                done.add((cid, how))
            elif how == "size" and t == "Z":
                f[1] = str(int(f[1]) + 1)
                done.add((cid, how))
            line = " ".join(f)
        out.append(line)
    return "\n".join(out) + "\n"

# ---------------------------------------------------------------------------------------------------------------------


def run_chunk(args):
    """Worker (separate process): one batch of cases in one harness process, judged here."""
    exe, fl, cases, Lcmds, timeout = args
    inp = "\n".join(l for c in cases for l in c["lines"]) + "\n" + "".join(l + "\n" for l in Lcmds)
    res = proc.run([exe], stdin=inp, timeout=timeout, env=SAN_ENV)
    if res.timed_out:
        return {"inconclusive": "unf harness watchdog", "n": len(cases)}
    text = res.out
    if os.environ.get("VERIF_C44_CORRUPT"):
        text = corrupt_output(text, os.environ["VERIF_C44_CORRUPT"])
    reports = relevant_reports(res.err)
    try:
        dumps, L, done = parse_output(text)
    except ValueError as e:
        dumps, L, done = {}, [], False
        res.err += "\n%s" % e
    if res.rc != 0 or not done or reports or len(dumps) != len(cases) or len(L) != len(Lcmds):
        return {"died": True, "rc": res.rc, "err": res.err[-1500:], "reports": reports, "n": len(cases),
                "answered": len(dumps), "expected": len(cases)}
    out = {"findings": [], "stats": {}, "nontrivial": [], "n": len(cases), "modes": {}}
    for c in cases:
        f, st = judge_case(c, dumps[c["id"]])
        for key, what in f:
            out["findings"].append((key, what, {"flavour": fl, "lines": c["lines"], "ntrs": c["ntrs"], "trs": c["trs"], "id": c["id"]}))
        for name, v in st.items():
            out["stats"][name] = out["stats"].get(name, 0) + v
        ne = st.get("events", 0)
        mk = "%s.n%s" % (c["mode"], "0-4" if ne < 5 else "5-9" if ne < 10 else "10-15" if ne <= 15 else "16-25")
        out["modes"][mk] = out["modes"].get(mk, 0) + 1
        if st.get("events", 0) >= 5 and st.get("conflict_pairs") and st.get("concurrent_pairs") and st.get("transitive_causal_pairs"):
            out["nontrivial"].append("|".join(c["lines"][1:-1]))
    for cmd, f in zip(Lcmds, L):
        for key, what in judge_L(cmd, f):
            out["findings"].append((key, what, {"flavour": fl, "lines": [cmd], "ntrs": 0, "trs": [], "id": "L"}))
    out["stats"]["enumerator_runs"] = len(Lcmds)
    return out


def harness(fl):
    return build.harness("unf.cpp", fl, internal=True, deps=["unf_trans.hpp"])


# ---------------------------------------------------------------------------------------------------------------------
# End-to-end confirmation with the real checker: small S4U programs explored by simgrid-mc --cfg=model-check/reduction:udpor.
# Only the two signatures that the unit harness attributes to the udpor classes are judged here; anything else UDPOR does
# with these programs (it has other ways to give up) is counted, not judged.

UDPOR_RUNS = [
    # (kind, harness source, program arguments)
    # 4 actors / 3 mutexes ("a,b;c" = lock a, lock b, unlock b, unlock a, lock c, unlock c)
    ("alt", "udpor_mux.cpp", ["0,2;0", "1;1", "1,2", "0,1,2"]),
    # w; J1 joins w; J(i+1) joins J(i) then w
    ("join", "udpor_join.cpp", ["3"]),
    ("join", "udpor_join.cpp", ["4"]),
]
ALT_SIGNATURE = "Uncaught exception std::invalid_argument: The events do not form a valid configuration"


def run_udpor(args):
    kind, exe, mc, pargs, timeout = args
    cmd = [mc, "--cfg=model-check/reduction:udpor", exe] + pargs + ["--log=root.thres:info"]
    if kind == "join":
        cmd.append("--log=mc_udpor.thres:verbose")
    res = proc.run(cmd, timeout=timeout)
    if res.timed_out:
        return {"inconclusive": "simgrid-mc (udpor) watchdog"}
    text = res.out + res.err
    out = {"findings": [], "stats": {"udpor_runs": 1}, "w": {"udpor_run": kind, "args": pargs, "flavour": "hooks"}}
    ended = "UDPOR exploration ended" in text
    if ALT_SIGNATURE in text and "compute_k_partial_alternative_to" in text:
        out["findings"].append(("C44:alternative:throws:udpor-run",
                                "simgrid-mc --cfg=model-check/reduction:udpor dies on an S4U program of %d actors locking mutexes (%s): %s, thrown by the "
                                "Configuration constructor under Configuration::compute_k_partial_alternative_to <- UdporChecker::explore"
                                % (len(pargs), " | ".join(pargs), ALT_SIGNATURE)))
    elif not ended:
        out["stats"]["udpor_runs.gave_up_otherwise"] = 1
    if kind == "join":
        traces, cur = [], None
        for line in text.splitlines():
            if "Execution sequence:" in line:
                cur = []
                traces.append(cur)
            elif cur is not None and "]   Event " in line:
                cur.append(int(line.split("]   Event ")[1].split(",")[0]))
            elif cur is not None and "VERBOSE" not in line:
                cur = None
        out["stats"]["udpor_traces"] = len(traces)
        out["stats"]["udpor_trace_events"] = sum(len(t) for t in traces)
        for t in traces:
            if len(set(t)) != len(t):
                dup = next(e for e in t if t.count(e) > 1)
                out["findings"].append(("C44:get_topological_ordering:duplicate",
                                        "the execution sequence printed by the real UDPOR checker (UdporChecker::get_textual_trace <- "
                                        "Configuration::get_topologically_sorted_events) for the chained-join program (%s joiners) lists event %d %d times: %s"
                                        % (pargs[0], dup, t.count(dup), ",".join(str(e) for e in t))))
                break
    return out


def absorb(ctx, fl, r, cases, Lcmds, single=False):
    if "inconclusive" in r:
        ctx.inconclusive(r["inconclusive"])
        return
    if r.get("died"):
        if not single and (len(cases) > 1 or Lcmds):
            ctx.count("batch_reruns")
            exe = harness(fl)
            for c in cases:
                absorb(ctx, fl, run_chunk((exe, fl, [c], [], 600)), [c], [], single=True)
            for cmd in Lcmds:
                absorb(ctx, fl, run_chunk((exe, fl, [], [cmd], 600)), [], [cmd], single=True)
            return
        lines = cases[0]["lines"] if cases else Lcmds
        kind = "asan" if any(k == "asan" for k, _ in r["reports"]) else "ubsan" if r["reports"] else "crash"
        w = {"flavour": fl, "lines": lines}
        if cases:
            w.update(ntrs=cases[0]["ntrs"], trs=cases[0]["trs"], id=cases[0]["id"])
        else:
            w.update(ntrs=0, trs=[], id="L")
        ctx.violation("C44:%s" % kind, "the unf harness died (rc=%s) on this script: %s" % (r["rc"], (r["reports"][:1] or [r["err"][-400:]])[0]), w)
        return
    ctx.evaluation(r["n"])
    for key, what, w in r["findings"]:
        ctx.violation(key, what, w)
    for name, v in r["stats"].items():
        ctx.count(name, v)
    for m, v in r["modes"].items():
        ctx.count("cases.%s.%s" % (fl, m), v)
    for s in r["nontrivial"]:
        ctx.nontrivial(s)


def absorb_udpor(ctx, r):
    if "inconclusive" in r:
        ctx.inconclusive(r["inconclusive"])
        return
    ctx.evaluation()
    for key, what in r["findings"]:
        ctx.violation(key, what, r["w"])
    for name, v in r["stats"].items():
        ctx.count(name, v)


def worker(job):
    return run_udpor(job[1:]) if job[0] == "udpor" else run_chunk(job[1:])


def run(ctx):
    n = ctx.size(200, 12000)
    exes = {fl: harness(fl) for fl in ("hooks", "asan")}
    chunk = 6
    jobs = []
    for fl, prof, share in (("hooks", ctx.tier, 1.0), ("asan", "asan", 0.12 if ctx.tier == "quick" else 0.05)):
        dirs = directed(prof)
        cs = dirs + [gen_case(ctx.sub_rng(i), "c%d" % i, prof) for i in range(max(12, int(n * share)))]
        if fl == "hooks":
            ctx.sample({"script": cs[0]["lines"]})
            ctx.sample({"script": cs[len(dirs)]["lines"]})
        for k in range(0, len(cs), chunk):
            Lc = enumerator_lines(ctx.sub_rng("L", fl, k), 6) if k % (chunk * 4) == 0 else []
            jobs.append(("unit", exes[fl], fl, cs[k:k + chunk], Lc, 900))
    jobs.sort(key=lambda j: j[2] != "asan")          # the slow flavour first
    mc = build.simgrid_mc("hooks")
    jobs = [("udpor", kind, build.harness(src, "hooks"), mc, pargs, 900) for kind, src, pargs in UDPOR_RUNS] + jobs
    workers = int(os.environ.get("VERIF_JOBS", min(16, multiprocessing.cpu_count())))
    with multiprocessing.Pool(workers) as pool:
        for job, r in zip(jobs, pool.imap(worker, jobs)):
            if job[0] == "udpor":
                absorb_udpor(ctx, r)
            else:
                absorb(ctx, job[2], r, job[3], job[4])


def replay(ctx, witness):
    if "udpor_run" in witness:
        src = {"alt": "udpor_mux.cpp", "join": "udpor_join.cpp"}[witness["udpor_run"]]
        absorb_udpor(ctx, run_udpor((witness["udpor_run"], build.harness(src, "hooks"), build.simgrid_mc("hooks"), witness["args"], 900)))
        return
    fl = witness.get("flavour", "hooks")
    lines = witness["lines"]
    exe = harness(fl)
    if witness.get("id") == "L":
        absorb(ctx, fl, run_chunk((exe, fl, [], lines, 600)), [], lines, single=True)
    else:
        c = {"id": witness["id"], "mode": "replay", "lines": lines, "ntrs": witness["ntrs"], "trs": witness["trs"]}
        absorb(ctx, fl, run_chunk((exe, fl, [c], [], 600)), [c], [], single=True)
