"""C11 Actor lifecycle semantics: join/join(t), on_exit, daemons, kill time, suspend/resume (S4U, real kernel)."""
import os
import shutil
import tempfile

from verif import build, proc
from verif.gen import lifecycle as gen
from verif.oracles import lifecycle as oracle

META = {
    "id": "C11", "engine": "E1 s4u harness (actor lifecycle scripts)", "engine_path": "harness/lifecycle.cpp",
    "engine_kind": "S4U program executing generated per-actor scripts on the real kernel; boundary log (call/return of every API call, "
                   "Actor::on_creation/on_termination/Engine::on_deadlock signals, every on_exit callback, plus a read-only kernel monitor on the "
                   "verif::on_kernel_quiescent hook that reports actors marked to die which nothing will schedule again) checked offline in python",
    "level": "exploration",
    "technique": "boundary-recorded history of generated lifecycle programs (create, kill, kill_all, join with/without time-out, daemonize, "
                 "set_kill_time, suspend/resume, exit, host off/on with auto-restart) checked event by event against the rules of the statement",
    "level_text": "3-7 scripted actors on 2-4 hosts run 2-8 operations each; all durations are multiples of 0.5 s so that requests collide at the "
                  "same date and in the same scheduling round. Every API call is logged before the call and after its return with the simulated "
                  "clock, every on_exit callback logs who runs it, for whom it was registered and its `failed` argument, and the creation / "
                  "termination signals are logged. The offline checker then requires, for every event: join(t) returns at min(termination of "
                  "the target, call+t) and at once on a dead target; the callbacks of an actor run exactly once, at its termination date, before "
                  "the termination signal, last registered first, with failed == (the body did not return); no daemon survives a clock advance "
                  "(or the end of the run) without a live regular actor and no actor dies without a cause present in the history at that date "
                  "(kill, kill_all, host off, its kill time, exit(), daemon rule, deadlock); an actor with one kill time is not alive after it; "
                  "victims of a served kill terminate at that date and never return from a call afterwards; no actor is left marked to die without being "
                  "scheduled again (such an actor never ends: no on_exit, no termination, bogus deadlock); a suspended actor returns from no "
                  "call until resumed, its exec lasts at least flops/speed + the suspended time and has the same remaining work at both ends "
                  "of the suspension. Auto-restart after a reboot is part of the generated programs (the restarted incarnations obey the same rules, "
                  "their inherited callbacks included) but the statement has no clause on which actors a reboot re-creates: that is only counted "
                  "(restart.*, anomaly.restart.*).",
    "level_note": "Sequential kernel only (contexts/nthreads 1, default factory). Host 0 is never turned off and only its actors reboot hosts. "
                  "set_kill_time/daemonize/set_auto_restart/on_exit are issued by an actor on itself or by main() before the run (issuing them on "
                  "another actor races with its clean-up). Suspend and resume requests on one target whose call windows overlap in the log (same "
                  "scheduling round) leave the target's state undecided: nothing is demanded of it until the next unambiguous request. What a suspended *sleep* does (SimGrid lets the timer run and holds the wake-up) is not "
                  "judged: only 'returns from no call until resumed' is. Several kill times on one actor: the statement is silent on which one "
                  "wins, only 'not alive after the latest' is required. Inherited on_exit callbacks of restarted actors: at most once each, "
                  "after the own ones. A request whose return was never logged (issuer suspended or killed in the round of the request) counts as "
                  "possibly served: it can explain a death, it is never required to have had an effect. The harness is compiled with access to the "
                  "private kernel headers only for the monitor (wannadie / to_be_freed / actors_to_run are read, nothing is written). Plain and "
                  "ASan+UBSan flavours (the sanitized one on the directed cases and 5 % of the generated ones, thread contexts).",
    "rule": "case = one scenario (scripts + placement); non-trivial = distinct scenarios whose history was fully checked and exercised at least "
            "two of: checked join return, >=2 on_exit callbacks on one actor, kill victim, suspend..resume interval, daemon killed with the last "
            "regular actor, death at the kill time, auto-restart",
    "assumptions": [
        "an actor killed or suspended before its body ever ran still executes its code up to its first simcall when first scheduled; "
        "only returns from API calls are counted as progress",
        "failed flag: true for kill, kill_all, kill time, host off, exit(), daemon kill and deadlock; false when the body returns",
    ],
    "ready": True,
}


def run_one(fl, sc):
    exe = build.harness("lifecycle.cpp", fl, internal=True)
    # Under ASan a ForcefulKillException unwinding on a swapped (raw/boost) actor stack makes the sanitizer report inside its own
    # sigaltstack interceptor ("ASan is ignoring requested __asan_handle_no_return ... false positive error reports may follow"):
    # the sanitized runs therefore use the thread context factory, whose actor stacks ASan knows about.
    extra = ["--cfg=contexts/factory:thread"] if fl == "asan" else []
    return proc.run([exe, "--log=root.thres:critical"] + extra, stdin=gen.to_text(sc), timeout=300)


def crash_key(out):
    """Stable class of a crashed scenario, from the tail of its history."""
    evs = oracle.parse(out)
    pend = {}
    armed = {}
    for e in evs:
        if e.kind == "Q":
            pend[int(e.f[0])] = e
            if e.f[2] == "killtime" and float(e.f[3]) > e.clk:
                armed.setdefault(int(e.f[0]), set()).add(float(e.f[3]))
        elif e.kind == "R" and e.f[1] != "-1":
            pend.pop(int(e.f[0]), None)
        elif e.kind == "R" and e.f[2] == "killtime" and float(e.f[3]) > e.clk:
            armed.setdefault(int(e.f[0]), set()).add(float(e.f[3]))
        elif e.kind == "B" and float(e.f[3]) > e.clk:
            armed.setdefault(int(e.f[0]), set()).add(float(e.f[3]))
        elif e.kind == "T":
            pend.pop(int(e.f[0]), None)
    last = evs[-1].clk if evs else 0.0
    zombies = {int(z.f[0]) for z in oracle.zombies_of(evs)}
    for q in pend.values():
        if q.f[2] == "suspend" and oracle.same(q.clk, last):
            t = pend.get(int(q.f[3]))
            if t is not None and t.f[2] in ("exec", "execd"):
                ms = [x for x in evs if x.kind == "M" and int(x.f[0]) == int(t.f[0]) and x.i > t.i]
                # the Exec of the target has no running action: start() not issued yet, issued in this very round, or issued by an
                # actor that was already marked to die (its simcalls are dropped: the kernel monitor logged it as ZB)
                if not ms or oracle.same(ms[0].clk, last) or int(t.f[0]) in zombies:
                    return "C11:crash:suspend-reaches-exec-not-started"
    terms = {int(e.f[0]) for e in evs if e.kind == "T"}
    for pid, ks in armed.items():
        if len(ks) >= 2 and pid in terms and max(ks) >= last - 1e-9:
            return "C11:crash:stale-kill-timer-after-second-set_kill_time"
    lastq = [e for e in evs if e.kind == "Q"]
    return "C11:crash:after-%s" % (lastq[-1].f[2] if lastq else "start")


def judge(ctx, fl, sc, res):
    w = {"flavour": fl, "scenario": sc}
    if res.timed_out:
        ctx.inconclusive("lifecycle harness watchdog")
        return None
    reps = proc.sanitizer_reports(res.err)
    if res.rc != 0 or "END" not in res.out or reps:
        key = crash_key(res.out)
        ctx.violation(key, "lifecycle harness died rc=%s (%s); history tail: %r" % (res.rc, (reps[:1] or [res.err.strip().splitlines()[-1][:200] if res.err.strip() else ""])[0],
                                                                              res.out.splitlines()[-6:]), w)
        return None
    bad = []

    def report(key, what):
        bad.append(key)
        ctx.violation(key, what + "\nscenario:\n" + gen.to_text(sc), w)

    feats = oracle.check(res.out, report, ctx.count)
    if bad or feats is None:
        return None
    return feats


def run(ctx):
    n = ctx.size(220, 6000)
    scs = [("directed", s) for s in gen.DIRECTED] + [("known", s) for s in gen.KNOWN] + [("gen", gen.gen(ctx.sub_rng(i))) for i in range(n)]
    ctx.sample({"directed[0]": gen.to_text(gen.DIRECTED[0])})
    ctx.sample({"generated[0]": gen.to_text(scs[len(gen.DIRECTED) + len(gen.KNOWN)][1])})
    for fl in ("hooks", "asan"):
        build.harness("lifecycle.cpp", fl, internal=True)
    nasan = max(10, n // 20)
    jobs = [("hooks", k, s) for k, s in scs] + [("asan", k, s) for k, s in scs[:len(gen.DIRECTED)] + scs[len(gen.DIRECTED) + len(gen.KNOWN):][:nasan]]

    def one(j):
        fl, kind, sc = j
        res = run_one(fl, sc)
        ctx.evaluation()
        feats = judge(ctx, fl, sc, res)
        if feats is None:
            return
        ctx.count("scenarios_fully_checked")
        if sum(1 for v in feats.values() if v) >= 2:
            ctx.nontrivial(sc)
    ctx.pmap(one, jobs)


def replay(ctx, w):
    res = run_one(w["flavour"], w["scenario"])
    ctx.evaluation()
    print(res.out)
    print(res.err[-2000:])
    judge(ctx, w["flavour"], w["scenario"], res)
