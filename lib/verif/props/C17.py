"""C17 Selective (lazy) solving equals full recomputation."""
from verif import build, proc
from verif.gen import lmm

META = {
    "id": "C17", "engine": "E2 lmm_fuzz", "engine_path": "harness/lmm_fuzz.cpp",
    "engine_kind": "direct driver of kernel::lmm::System with monitors after every solve/modification",
    "level": "exploration",
    "technique": "differential after every solve: selectively updated maxmin system vs a fresh non-selective system rebuilt from the current variables",
    "level_text": "Random histories (add/free variables, penalties incl. disable/enable, bounds, capacities; shared and fat-pipe constraints; "
                  "half of the runs with concurrency limits 1..3 so that variables are staged and woken up when a slot is released) are "
                  "applied to a maxmin system with selective update; at every solve a fresh system holding the same constraints, variables and "
                  "elements is built and solved from scratch and every rate is compared at 1e-5 relative precision (SimGrid's work-amount "
                  "precision). Sampled histories of 40 steps; holds on what was generated.",
    "level_note": "Histories are 40 steps long: visited_counter_ wrap-around (2^32 solves) is not reached. The harness's own bookkeeping of "
                  "accumulated weights is trusted.",
    "rule": "case = one history (seed,index); non-trivial = history with >=1 compared solve where >=2 variables got a positive rate",
    "ready": True,
}


def judge(ctx, out, seed, nhist, fl, limit=-1):
    for e in out["events"]:
        if e["kind"] == "MISMATCH":
            ctx.violation("C17:selective-vs-fresh:maxmin" + (":with-concurrency-limits" if limit > 0 else ""),
                          "history %d step %d (seed %d, limit %d): %s" % (e["h"], e["step"], seed, limit, e["rest"]),
                          lmm.witness(seed, nhist, limit, "maxmin", fl, e))


def run(ctx):
    nhist = ctx.size(1500, 20000)
    # (flavour, seed, histories, concurrency limit): without limits, and with limits 1..k on 75% of the constraints, where
    # variables get staged and are woken up when a slot is released (the fresh system then takes A's enabled/staged state)
    jobs = [("hooks", ctx.sub_seed("h", i) % 1000003, nhist, -1) for i in range(ctx.size(3, 12))] + \
           [("hooks", ctx.sub_seed("l", i) % 1000003, nhist, 1 + i % 3) for i in range(ctx.size(3, 12))] + \
           [("asan", ctx.sub_seed("a") % 1000003, max(20, nhist // 5), -1), ("asan", ctx.sub_seed("al") % 1000003, max(20, nhist // 5), 2)]
    for fl in ("hooks", "asan"):
        build.harness("lmm_fuzz.cpp", fl, internal=True)

    def one(j):
        fl, seed, n, limit = j
        res = lmm.run_fuzz(ctx, fl, seed, n, limit, "maxmin")
        if res.timed_out:
            ctx.inconclusive("lmm_fuzz watchdog")
            return
        out = lmm.parse(res)
        if not out["complete"]:
            ctx.violation("C17:crash:maxmin", "lmm_fuzz died rc=%s (seed %d): %s" % (res.rc, seed, proc.sanitizer_reports(res.err)[:1] or res.err[-400:]),
                          {"seed": seed, "nhist": n, "flavour": fl})
            return
        judge(ctx, out, seed, n, fl, limit)
        for h, (solves, multi, staged) in out["hist"].items():
            ctx.evaluation()
            if multi > 0:
                ctx.nontrivial("%d|%d" % (seed, h))
            if limit > 0 and staged > 0:
                ctx.count("histories_with_staged_variables")
        ctx.count("solves_compared", int(out["sum"]["solves"]))
        ctx.count("modifications", int(out["sum"]["mods"]))
        ctx.count("runs." + fl)
    ctx.pmap(one, jobs)
    ctx.sample({"seed": jobs[0][1], "histories": jobs[0][2], "steps_per_history": 40, "how_to_print": "TRACE_H=<h> lmm_fuzz <seed> <histories> -1 maxmin"})


def replay(ctx, w):
    res = lmm.run_fuzz(ctx, w["flavour"], w["seed"], w["nhist"], w.get("limit", -1), "maxmin", trace_h=w["hist"])
    out = lmm.parse(res)
    print("\n".join(out["trace"]))
    judge(ctx, out, w["seed"], w["nhist"], w["flavour"], w.get("limit", -1))
    ctx.evaluation()
