"""C43 Checker and application agree on every transition.

The application (harness/cm_app.cpp, a VM of small S4U programs) logs, for every simcall the checker makes it execute, what
the *program* asked for (call + ids of the s4u objects it used) and what the simcall observer holds, read member by member
from the kernel objects (not through Observer::serialize). The checker (harness/cm_chk.cpp: the real mc::RemoteApp /
CheckerSide / deserialize_transition) logs the fields of the Transition object it decoded, and - for TestAny / WaitAny - the
sub-transition it considers to be the one acted upon (what dispatch_depends unwraps to). Python compares the two, transition by
transition (same actor, same times_considered), and also the *pending* transitions of every actors' status against the pending
simcall observers of the application.
End-to-end leg: the same programs are handed to the real simgrid-mc: the verification must end with a verdict, or with an
error message that names what is not supported - not hang (all processes asleep, no CPU consumed: confirmed by a second,
longer run), not die on an uncaught exception.
"""
import hashlib
import os
import re
import shutil
import tempfile

from verif import build, core
from verif.gen import cmprog
from verif.oracles import cm_judge as J
from verif.oracles import cm_run as R

META = {
    "id": "C43", "engine": "E6 mc_diff", "engine_path": "harness/cm_chk.cpp",
    "engine_kind": "checker-side driver on the real mc::RemoteApp + program VM (harness/cm_app.cpp) with SIMGRID_VERIF hooks; the real "
                   "simgrid-mc for the end-to-end leg; Python comparer",
    "level": "exploration",
    "technique": "field-by-field differential between the application's own record of every executed / pending simcall and the "
                 "Transition object the real checker decodes; /proc-based hang detector on the real simgrid-mc",
    "level_text": "Every transition executed by the checker-side driver (thousands per run, all kinds an S4U application can issue: "
                  "mutex lock/trylock/unlock, semaphore acquire/acquire_timeout/release, condvar wait/wait_for/notify, barrier, "
                  "put/get, put_async/get_async/detached put, wait, wait_for, test, wait_any and test_any over 0/1/many comms, "
                  "iprobe with a tag, actor create/join/join-with-timeout/sleep/exit, MC_random) is compared on type, actor, "
                  "times_considered, every decoded field, the call location, the sub-activity selected by times_considered, and "
                  "against what the program itself asked for (object ids of different kinds are shifted apart so that a mix-up "
                  "shows). Pending transitions are compared at every status request. Directed programs pin distinctive parameter "
                  "values per kind; generated programs add variety. The end-to-end leg turns hangs and crashes of the real "
                  "simgrid-mc into verdicts.",
    "level_note": "Trusted: the member-by-member reading of the observers in cm_app.cpp. Tags other than 0 exist only for iprobe "
                  "(S4U comms have no tag; SMPI is not driven here - smpirun under simgrid-mc is outside this harness). MUTEX_TEST "
                  "has no S4U call. Mailbox::iprobe is given a fabricated smpi::Request carrying the tag, since its observer "
                  "dereferences its `data` argument as one. hooks flavour only (the application is forked for every walk). A hang is "
                  "only reported when all processes of the group sleep without consuming CPU for 10 s, and again for 25 s in a "
                  "second run; budget overruns are inconclusive.",
    "rule": "case = one executed transition (or one actors' status, or one end-to-end verification); non-trivial = distinct "
            "(kind, decoded fields) of executed transitions",
    "assumptions": ["the k-th transition of an actor on a path is identified by (actor, times_considered) on both sides"],
    "ready": True,
}

IDS = "skipids 3 5 2 4 6\n"
DIRECTED = [
    # name, spec, walks, depth
    ("mutex", IDS + "mutex 2\nactor L1 U1 T0 U0\nactor T1 I1 U1 L0 U0\n", 4, 30),
    ("semaphore", IDS + "sem 2 0\nactor P0 V1 p1\nactor P1 V0 p0\n", 4, 30),
    ("condvar", IDS + "mutex 2\ncond 2\nactor L1 W1.1 U1\nactor L1 N1 U1 L1 A1 U1\nactor L0 w0.0 U0\n", 4, 40),
    ("barrier", IDS + "barrier 2 1\nactor R0 R1\nactor R1 R0\n", 3, 20),
    ("comm-sync", IDS + "mbox 2\nactor S1.5 G0\nactor G1 S0.6\n", 3, 20),
    ("comm-async", IDS + "mbox 2\nactor s1.5 s0.6 c0 C1\nactor r0 r1 t0 I1 Y c1 t1\nactor d1.9 r1 c0\n", 5, 40),
    ("wait-any", IDS + "mbox 3\nactor s0.1 s1.2 s2.3 s0.4\nactor r0 a\nactor r0 r1 r2 a a a\n", 5, 40),
    ("test-any", IDS + "mbox 2\nactor s1.2 s1.3 s0.1\nactor z r0 y r1 r1 y y y\n", 6, 40),
    # the sender goes first (semaphore): test_any over {receive never matched, receive matched}
    ("test-any-second-ready", IDS + "sem 0\nmbox 2\nactor s1.2 V0\nactor P0 r0 r1 y\n", 4, 20),
    ("iprobe", IDS + "tag 77\nmbox 2\nactor s1.5\nactor b1.0 b1.1 b0.0 r1\n", 4, 20),
    ("actors", IDS + "actor K2 J1 j2 Y\nactor Q3.9 Q0.0 X\ndyn Y Q1.2\n", 4, 30),
]
E2E_EXTRA = [
    ("message-queue", "mq 1\nactor M0.5\nactor m0\n"),
    ("test-any-all-ready", "mbox 1\nactor S0.5\nactor r0 y\n"),
]
CLEAR = re.compile(r"not (?:yet )?(?:supported|implemented|handled)|unsupported|does (?:currently )?not support", re.I)


def exec_key(e, rule, detail):
    ty = J.ttype(e.c_fields)
    if rule == "current":
        return "C43:current:%s:%s" % (ty, "throws" if "throws" in detail else "wrong-subtransition")
    if rule == "intent":
        return "C43:intent:%s:call-%s" % (ty, e.op)
    return "C43:%s:%s" % (rule, ty)


def judge_log(ctx, log, res, spec, params, tag, corrupt=None):
    if res.timed_out:
        ctx.inconclusive("watchdog:walk")
        return
    if res.rc == 127:                      # the dynamic loader failed: libsimgrid.so was being relinked by a concurrent build
        ctx.inconclusive("loader")
        return
    ctx.count("runs")
    if log.errors or not log.ended or log.malformed:
        ctx.count("runs.harness_error")
        ctx.sample({"harness_error": log.errors[:2] + log.malformed[:2], "rc": res.rc, "stderr": res.err[-400:], "spec": spec})
    for e in log.execs:
        ctx.evaluation()
        if corrupt == "swap-fields" and e.view and " src=" in e.c_fields:
            e.c_fields = re.sub(r"src=(-?\d+) dst=(-?\d+)", r"src=\2 dst=\1", e.c_fields, 1)
        if corrupt == "shift-id" and e.view and "mutex=" in e.c_fields:
            e.c_fields = re.sub(r"mutex=(\d+)", lambda m: "mutex=%d" % (int(m.group(1)) + 1), e.c_fields, 1)
        ty = J.ttype(e.c_fields)
        ctx.count("executed." + ty)
        ctx.nontrivial(hashlib.sha1(re.sub(r"comm=\d+", "comm=N", e.c_fields).encode()).hexdigest()[:16])
        if ty in J.ANY:
            ctx.count("executed.%s.n=%d" % (ty, len(J.sub_views(e.c_fields))))
        for rule, detail in J.judge_exec(e):
            key = exec_key(e, rule, detail)
            ctx.violation(key, "%s\n(actor %s, times_considered %s, program call %s %s)\nprogram:\n%s"
                          % (detail, e.aid, e.ctimes, e.op, e.params, spec),
                          {"leg": "walk", "spec": spec, "params": params, "key": key})
    for st in log.states:
        ctx.evaluation()
        ctx.count("statuses")
        ctx.count("pending_transitions_compared", sum(len(t[2]) for t in st.q.values()))
        for rule, detail in J.judge_state(st):
            m = re.search(r"checker decoded \[(\w+)", detail)
            key = "C43:%s:%s" % (rule, m.group(1) if m else "-")
            ctx.violation(key, "%s\nprogram:\n%s" % (detail, spec), {"leg": "walk", "spec": spec, "params": params, "key": key})


def run_program(ctx, bins, tmp, name, spec, seed, walks, depth, tag, corrupt=None):
    res, log, _txt = R.run_walk(bins, tmp, name, spec, seed, walks, depth, 0, timeout=900)
    judge_log(ctx, log, res, spec, {"seed": seed, "walks": walks, "depth": depth}, tag, corrupt)


def e2e(ctx, mc, app, tmp, name, spec, kind):
    """The real simgrid-mc on the program: must end with a verdict or a clear error."""
    sp = os.path.join(tmp, "e2e-%s.spec" % name)
    with open(sp, "w") as f:
        f.write(spec)
    cmd = [mc, "--log=root.fmt:%m%n", "--cfg=model-check/max-depth:200", app, sp]
    verdict, rc, out = R.run_watch(cmd, quiet_s=10, budget_s=300)
    ctx.evaluation()
    ctx.count("e2e.runs")
    wit = {"leg": "e2e", "spec": spec, "name": name, "kind": kind}
    if verdict == "budget":
        ctx.inconclusive("watchdog:e2e")
        return
    if verdict == "hang":
        verdict2, _rc2, _out2 = R.run_watch(cmd, quiet_s=25, budget_s=400)
        if verdict2 != "hang":
            ctx.inconclusive("hang-not-confirmed")
            return
        ctx.count("e2e.hang")
        ctx.violation("C43:e2e:hang:" + kind,
                      "simgrid-mc never terminates on this program: checker and application sleep without consuming CPU "
                      "(observed for 10 s, confirmed for 25 s in a second run)\nprogram:\n%s\nlast output:\n%s"
                      % (spec, out[-600:]), wit)
        return
    ctx.count("e2e.rc=%s" % rc)
    if rc in (0, 1, 2, 3):                # verdicts: success, safety, deadlock, non-determinism
        return
    if CLEAR.search(out):
        ctx.count("e2e.clear_error")
        return
    if "output not available" in out:
        ctx.inconclusive("e2e-output-lost")
        return
    what = "uncaught-exception" if "Uncaught exception" in out or "terminate called" in out else "crash"
    m = re.search(r"Uncaught exception ([\w:]+\w)", out)
    if m:
        what += ":" + m.group(1)
    if kind == "generated" and re.search(r" [yz]( |$)", spec, re.M):
        kind = "generated+test-any"
    ctx.violation("C43:e2e:%s:%s" % (what, kind),
                  "simgrid-mc ends with rc=%s and no message naming an unsupported feature (%s)\nprogram:\n%s\noutput (head):\n%s"
                  % (rc, m.group(0) if m else what, spec, "\n".join(l for l in out.split("\n") if not l.startswith("  #"))[:1200]), wit)


def run(ctx):
    tmp = tempfile.mkdtemp(prefix="verif-C43-")
    try:
        bins = R.binaries()
        mc = build.simgrid_mc(R.FLAVOUR)
        jobs = [("walk", "d-" + n, spec, 11, w, d, "directed") for n, spec, w, d in DIRECTED]
        nprog = ctx.size(quick=30, thorough=900)
        for i in range(nprog):
            rng = ctx.sub_rng("prog", i)
            p, fam = cmprog.generate(rng)
            p["skip"] = [3, 5, 2, 4, 6] if i % 2 else p["skip"]
            jobs.append(("walk", "g%d" % i, cmprog.render(p), ctx.sub_seed("walk", i) % 100000, 3, 30, "gen"))
        for n, spec, _w, _d in DIRECTED:
            jobs.append(("e2e", n, spec, n))
        for n, spec in E2E_EXTRA:
            jobs.append(("e2e", n, spec, n))
        ne2e = ctx.size(quick=4, thorough=60)
        for i in range(ne2e):
            rng = ctx.sub_rng("e2e", i)
            p, fam = cmprog.generate(rng, max_actors=3, max_ops=5)
            jobs.append(("e2e", "gen%d" % i, cmprog.render(p), "generated"))

        def one(job):
            if job[0] == "walk":
                _k, name, spec, seed, w, d, tag = job
                run_program(ctx, bins, tmp, name, spec, seed, w, d, tag)
            else:
                _k, name, spec, kind = job
                e2e(ctx, mc, bins[1], tmp, name, spec, kind)
        ctx.pmap(one, jobs)
        ctx.sample({"program": jobs[len(DIRECTED)][2]})
        missing = [k for k in EXPECTED_KINDS if ctx.counters.get("executed." + k, 0) == 0]
        if missing:
            raise core.HarnessFailure("transition kinds never executed: %s" % missing)
    finally:
        shutil.rmtree(tmp, ignore_errors=True)


EXPECTED_KINDS = ["RANDOM", "ACTOR_JOIN", "ACTOR_SLEEP", "ACTOR_CREATE", "ACTOR_EXIT", "TESTANY", "WAITANY", "BARRIER_ASYNC_LOCK",
                  "BARRIER_WAIT", "COMM_ASYNC_RECV", "COMM_ASYNC_SEND", "COMM_IPROBE", "COMM_TEST", "COMM_WAIT",
                  "MUTEX_ASYNC_LOCK", "MUTEX_TRYLOCK", "MUTEX_UNLOCK", "MUTEX_WAIT", "SEM_ASYNC_LOCK", "SEM_UNLOCK", "SEM_WAIT",
                  "CONDVAR_ASYNC_LOCK", "CONDVAR_BROADCAST", "CONDVAR_SIGNAL", "CONDVAR_WAIT"]


def replay(ctx, w):
    tmp = tempfile.mkdtemp(prefix="verif-C43-")
    try:
        bins = R.binaries()
        if w.get("leg") == "e2e":
            e2e(ctx, build.simgrid_mc(R.FLAVOUR), bins[1], tmp, w["name"], w["spec"], w["kind"])
        else:
            p = w["params"]
            run_program(ctx, bins, tmp, "replay", w["spec"], p["seed"], p["walks"], p["depth"], "replay")
    finally:
        shutil.rmtree(tmp, ignore_errors=True)
