"""C48 Configuration flags parse and validate values.

Monitor: the real registry (every item libsimgrid registers, listed by the library's own --help / --help-aliases, plus
flags the harness declares through every bind_flag shape of xbt/config.hpp with *known* validation) is driven through
all entry points (--cfg= on the command line, set_parse, Engine::set_config, set_as_string, set_value<T>,
sg_cfg_set_*), one attempt per forked child; the stored value is read back with get_value<T> (by name and by alias)
and compared with an independent reference parse (C strtol base 0 with the int range / C strtod / the 8 boolean
spellings / identity).
"""
import math
import os
import re
import struct

from verif import build, proc
from verif.core import HarnessFailure
from verif.props.C27 import strtod_model

META = {
    "id": "C48", "engine": "E4 unit harness", "engine_path": "harness/cfg.cpp",
    "engine_kind": "C++ drivers linked to the real libsimgrid, python reference models",
    "level": "exploration",
    "technique": "reference-parser differential over every registered configuration item x every entry point "
                 "(--cfg, set_parse, Engine::set_config, set_as_string, set_value<T>, sg_cfg_set_*) x generated valid, "
                 "boundary and malformed values, one forked child per attempt; callback-invocation log on "
                 "harness-declared flags of every bind_flag shape",
    "level_text": "Every item of the registry (enumerated from the library's own --help, ~160 items, and every alias "
                  "of --help-aliases) is set through each entry point with values generated for its type and for the "
                  "other types (boundaries INT_MIN/INT_MAX/LONG overflow, hex/octal, leading/trailing blanks and "
                  "garbage, every boolean spelling in mixed case, values containing ':'), and read back by name and "
                  "by alias: a value the reference parser accepts must be stored bit-exactly or be refused by the "
                  "item's own validation (abort or 'invalid value.'), never refused as unparsable; a value the "
                  "reference rejects must raise and leave the stored value unchanged; items with enumerated legal "
                  "values (as listed by the item's own 'help' answer) must store listed values and abort on the others; "
                  "mangled names must raise out_of_range on every route. On the harness-declared flags (all bind_flag "
                  "shapes: plain, void callback, predicate, enumerated values, with aliases) the callback must run "
                  "exactly once per accepted parse with the parsed value, predicates must reject exactly their "
                  "complement, multi-option strings must apply left to right up to the first failure, and on the "
                  "command line the last --cfg of an item wins.",
    "level_note": "Legality of values of library items with free-form validating callbacks (not enumerated) is not known "
                  "independently: for them 'refused by validation' is accepted for any value (the callback-runs clause is "
                  "decided on the harness-declared flags only). Out-of-range doubles (strtod ERANGE: overflow, "
                  "subnormals), inf/nan spellings and C23 '0b' integers are statement-silent and only required not to be "
                  "stored as something else than the reference value when accepted. Trusts the Python transcription of "
                  "strtol/strtod grammars (the strtod model is shared with C27).",
    "rule": "case = (route, item, value); non-trivial = distinct (route, item type, value class, item-kind) tuples with "
            "a decided expectation",
    "assumptions": ["glibc strtol/strtod semantics in the C locale", "fork() isolates attempts (callbacks may abort)"],
    "ready": True,
}

INT_MIN, INT_MAX = -2**31, 2**31 - 1
LONG_MIN, LONG_MAX = -2**63, 2**63 - 1
WS = " \t\n\v\f\r"


def hexs(s):
    if isinstance(s, str):
        s = s.encode("utf-8", "surrogateescape")
    return s.hex() if s else "-"


def unhex(h):
    return b"" if h == "-" else bytes.fromhex(h)


# ------------------------------------------------------------------------------------------------ reference parsers
def ref_int(s):
    """C strtol(s, &end, 0) + whole-string + int range, as the *statement* reads: 'the parsed value of the item's type'."""
    i = 0
    while i < len(s) and s[i] in WS:
        i += 1
    sign = 1
    if i < len(s) and s[i] in "+-":
        sign = -1 if s[i] == "-" else 1
        i += 1
    rest = s[i:]
    if re.match(r"0[bB][01]", rest):
        return ("any",)                       # C23 binary prefix: depends on the C library version
    m = re.match(r"0[xX]([0-9a-fA-F]+)", rest)
    if m:
        v, end = int(m.group(1), 16), m.end()
    else:
        m = re.match(r"0([0-7]*)", rest)
        if m:
            v, end = int(m.group(1) or "0", 8), m.end()
        else:
            m = re.match(r"[0-9]+", rest)
            if not m:
                return ("err",)
            v, end = int(m.group(0)), m.end()
    if end != len(rest):
        return ("err",)
    v *= sign
    if v < INT_MIN or v > INT_MAX:
        return ("err",)
    return ("ok", v)


def ref_double(s):
    r = strtod_model(s)
    if r is None:
        return ("err",)
    v, rest, cls = r
    if rest != "":
        return ("err",)
    if cls in ("special", "range"):
        return ("any",)
    if v != 0 and (abs(v) == math.inf or abs(v) < 2.3e-308):
        return ("any",)
    return ("ok", v)


def _asciilower(s):
    return "".join(chr(ord(c) + 32) if "A" <= c <= "Z" else c for c in s)


def ref_bool(s):
    l = _asciilower(s)
    if l in ("yes", "on", "true", "1"):
        return ("ok", True)
    if l in ("no", "off", "false", "0"):
        return ("ok", False)
    return ("err",)


def ref_parse(typ, s):
    if "\0" in s:
        return ("any",)
    if typ == "int":
        return ref_int(s)
    if typ == "double":
        return ref_double(s)
    if typ == "boolean":
        return ref_bool(s)
    return ("ok", s)


def same_value(typ, got, want):
    """got = harness text; want = python value"""
    if typ == "int":
        return int(got) == want
    if typ == "double":
        g = float.fromhex(got) if got not in ("inf", "-inf", "nan", "-nan") else float(got.replace("-nan", "nan"))
        if isinstance(want, float) and math.isnan(want):
            return math.isnan(g)
        return struct.pack("<d", g) == struct.pack("<d", float(want))
    if typ == "boolean":
        return (got == "1") == bool(want)
    w = want.encode("utf-8", "surrogateescape") if isinstance(want, str) else want
    return unhex(got) == w


def typed_text(typ, v):
    if typ == "int":
        return str(v)
    if typ == "double":
        return float(v).hex() if not (math.isinf(v) or math.isnan(v)) else repr(float(v))
    if typ == "boolean":
        return "1" if v else "0"
    return v


# ------------------------------------------------------------------------------------------------ own flags (known validation)
# name -> (type, default, validation kind, validator, aliases, has_callback_log)
OWN = {
    "verif/int-plain":    ("int", 7, "none", None, ["verif/int_plain_old", "verif/IntPlain"], False),
    "verif/int-cb":       ("int", -3, "none", None, [], True),
    "verif/int-pred":     ("int", 0, "pred", lambda v: -5 <= v <= 1000, [], True),
    "verif/double-plain": ("double", 0.5, "none", None, ["verif/double_plain_old"], False),
    "verif/double-pred":  ("double", 1.0, "pred", lambda v: v >= 0, [], True),
    "verif/bool-plain":   ("boolean", False, "none", None, ["verif/bool_plain_old"], False),
    "verif/bool-cb":      ("boolean", True, "none", None, [], True),
    "verif/str-plain":    ("string", "dflt", "none", None, ["verif/str_plain_old"], False),
    "verif/str-cb":       ("string", "", "none", None, [], True),
    "verif/str-enum":     ("string", "b", "enum", {"a", "b", "c-d", "A"}, [], False),
    "verif/str-enum-cb":  ("string", "x", "enum", {"x", "yy", ""}, ["verif/str_enum_cb_old"], True),
}


# ------------------------------------------------------------------------------------------------ registry
def registry(binary):
    r = proc.run([binary, "--help"], timeout=120)
    txt = r.out + r.err
    items = {}
    lines = txt.splitlines()
    for i, l in enumerate(lines):
        m = re.match(r"^\s{7}Type: (\w+); Current value: (.*)$", l)
        if not m:
            continue
        # the name is on the closest previous line of the form "   name: description"
        j = i - 1
        while j >= 0 and not re.match(r"^\s{3}(\S+): ", lines[j]):
            j -= 1
        if j < 0:
            continue
        name = re.match(r"^\s{3}(\S+): ", lines[j]).group(1)
        items[name] = {"type": m.group(1), "shown": m.group(2), "aliases": []}
    r = proc.run([binary, "--help-aliases"], timeout=120)
    for l in (r.out + r.err).splitlines():
        m = re.match(r"^\s{3}(\S+)\s+(\S+)\s*$", l)
        if m and m.group(2) in items and m.group(1) not in items:
            items[m.group(2)]["aliases"].append(m.group(1))
    if len(items) < 100:
        raise HarnessFailure("registry listing too small: %d items" % len(items))
    for n, (t, d, k, val, al, cb) in OWN.items():
        if n not in items or items[n]["type"] != t or sorted(items[n]["aliases"]) != sorted(al):
            raise HarnessFailure("harness flag %s not listed as declared: %r" % (n, items.get(n)))
    return items


def discover_enums(ctx, binary, items):
    """Items with enumerated legal values answer the value 'help' by dying with the list of possible values."""
    names = [n for n, it in items.items() if it["type"] == "string"]

    def one(n):
        r = proc.run([binary, "argv", "string:" + hexs(n), "--", "--cfg=%s:help" % n, "--log=root.thres:critical"],
                     timeout=60)
        txt = r.out + r.err
        if "Possible values for option %s:" % n not in txt:
            return n, None
        vals = set(re.findall(r"^\s+- '([^']*)': ", txt, re.M))
        return n, vals
    enums = {}
    for n, vals in ctx.pmap(one, names):
        if vals is not None:
            enums[n] = vals
    return enums


# ------------------------------------------------------------------------------------------------ value generators
INT_STRS = ["0", "1", "-1", "+5", "42", "2147483647", "-2147483648", "2147483648", "-2147483649", "9223372036854775807",
            "9223372036854775808", "-9223372036854775809", "99999999999999999999", "0x7fffffff", "0x80000000", "0X10",
            "-0x10", "017", "08", "00", "-0", "0x", "0x0", " 12", "\t7", "12 ", "12abc", "abc", "", "1.5", "1e3", "--1",
            "+-1", "+", "-", "1_000", "0b101", "١٢", "0x1g", "1:2", "7\n"]
DBL_STRS = ["0", "1", "7", "1.5", ".5", "5.", "1e3", "1E3", "2.5e-3", "+3", "-2", "-0", "-0.0", "1e+2", "0.1",
            "123456789.125", "0x10", "0x1.8p1", "00012", "3.0000000000000001", "1e-9", "9.999e22", "1e308", "1e999",
            "-1e999", "1e-320", "1e-999", "inf", "-inf", "nan", "infinity", "", "abc", "e5", ".", "1.5x", "1,5", "1 5",
            " 2.5", "2.5 ", "--1", "1e", "1e+", "0x", "1.2.3", "1:2"]
BOOL_STRS = ["yes", "on", "true", "1", "no", "off", "false", "0", "YES", "On", "TRUE", "tRuE", "No", "OFF", "False",
             "2", "y", "n", "t", "f", "", "oui", "tru", "yes ", " on", "00", "01", "-1", "TRUE1", "enable", "on:off"]
STR_STRS = ["", "a", "abc", "a:b", "a:b:c", "::", "x=y", "with space", "with,comma", "tab\there", "ünïcödé", "help!",
            "/tmp/some/path", "0", "yes", "x" * 300, "%s%n", "a;b;c", "'quoted'", "\"dq\"", "\\back", "nl\nnl"]
SEPS = " \t\n,"


def gen_value(rng, typ):
    """A value string aimed at type typ (valid or not)."""
    k = rng.random()
    if typ == "int":
        if k < 0.45:
            return rng.choice(INT_STRS)
        if k < 0.7:
            return str(rng.randint(-10**rng.randint(1, 11), 10**rng.randint(1, 11)))
        if k < 0.8:
            return hex(rng.randint(0, 2**rng.randint(1, 34)))
        if k < 0.87:
            return "0" + oct(rng.randint(0, 2**rng.randint(1, 33)))[2:]
        return _mutate(rng, str(rng.randint(-99999, 99999)))
    if typ == "double":
        if k < 0.45:
            return rng.choice(DBL_STRS)
        if k < 0.8:
            return repr(rng.uniform(-1, 1) * 10 ** rng.randint(-300, 300))
        if k < 0.87:
            return float(rng.uniform(-1e6, 1e6)).hex()
        return _mutate(rng, repr(rng.uniform(-1000, 1000)))
    if typ == "boolean":
        if k < 0.6:
            return rng.choice(BOOL_STRS)
        w = rng.choice(["yes", "on", "true", "no", "off", "false"])
        w = "".join(c.upper() if rng.random() < 0.5 else c for c in w)
        return w if k < 0.85 else _mutate(rng, w)
    if k < 0.5:
        return rng.choice(STR_STRS)
    n = rng.randint(0, 40)
    return "".join(rng.choice("abcXYZ019-_/.:;=+@#%~^&*()[]{}<>?!|$ \t,é") for _ in range(n))


def _mutate(rng, s):
    ops = rng.randint(1, 2)
    for _ in range(ops):
        p = rng.randint(0, len(s))
        c = rng.choice(["x", " ", "-", "+", ".", "e", "0", ":", "z", "_", "\t"])
        r = rng.random()
        if r < 0.5 or not s:
            s = s[:p] + c + s[p:]
        elif r < 0.8:
            s = s[:p] + s[p + 1:]
        else:
            s = s[:p] + c + s[p + 1:]
    return s


def mangle_name(rng, name, known):
    for _ in range(20):
        k = rng.randint(0, 8)
        if k == 0:
            n = name.replace("-", "_", 1) if "-" in name else name + "_"
        elif k == 1:
            n = name.upper()
        elif k == 2:
            n = name[:-1]
        elif k == 3:
            n = name + rng.choice(["s", "-", "/", "x", "2"])
        elif k == 4:
            n = rng.choice(["x", "/", "-"]) + name
        elif k == 5:
            p = rng.randint(0, len(name) - 1)
            n = name[:p] + name[p + 1:]
        elif k == 6:
            n = name.replace("/", "-", 1) if "/" in name else "no/" + name
        elif k == 7:
            n = name.capitalize() if name.capitalize() != name else name.swapcase()
        else:
            n = "".join(rng.choice("abcdefgh/-") for _ in range(rng.randint(1, 12)))
        if n and n not in known and not any(c in n for c in SEPS + ":") and "\0" not in n:
            return n
    return "verif/no-such-item"


# ------------------------------------------------------------------------------------------------ cases
class Case:
    __slots__ = ("route", "typ", "sets", "reads", "expect", "klass", "item", "raw", "name", "value")

    def __init__(self):
        self.raw = None
        self.reads = []
        self.name = None
        self.value = None

    def line(self):
        f = [self.route, self.typ]
        for n, v in self.sets:
            f += [hexs(n), hexs(v)]
        f.append("read")
        for t, n in self.reads:
            f += [t, hexs(n)]
        return " ".join(f)

    def witness(self):
        return {"route": self.route, "type": self.typ, "sets": [[n, v] for n, v in self.sets],
                "reads": [[t, n] for t, n in self.reads], "class": self.klass, "item": self.item, "line": self.line(),
                "name": self.name, "value": self.value, "kind": self.expect.get("kind"),
                "pairs": self.expect.get("pairs")}


def value_class(typ, s, ref):
    if ref[0] == "ok":
        if typ == "int":
            v = ref[1]
            if v in (INT_MIN, INT_MAX):
                return "ok:int-limit"
            st = s.strip(WS).lstrip("+-").lower()
            return "ok:hex" if st.startswith("0x") else ("ok:oct" if len(st) > 1 and st.startswith("0") else
                                                         ("ok:lead-ws" if s[:1] in WS and s else "ok:dec"))
        if typ == "double":
            return "ok:hexfloat" if "0x" in s.lower() else ("ok:exp" if "e" in s.lower() else "ok:plain")
        if typ == "boolean":
            return "ok:" + _asciilower(s)
        return "ok:colon" if ":" in s else ("ok:empty" if s == "" else "ok:text")
    if ref[0] == "any":
        return "silent"
    if s == "":
        return "err:empty"
    if typ == "int" and re.fullmatch(r"[ \t]*[+-]?[0-9]+", s):
        return "err:int-range"
    if s[-1:] in WS or (s[:1] in WS and typ == "boolean"):
        return "err:blank"
    return "err:garbage"


def routes_for(rng, value, typ, parsed_ok):
    rs = ["str"]
    if not any(c in value for c in SEPS) and "\0" not in value:
        rs += ["parse", "engine", "argv"]
    return rs


def make_set_case(route, name, real, typ, value, items, own, enums, initial):
    """One attempt setting item `real` (through `name`, which is real or one of its aliases) to the string `value`."""
    c = Case()
    c.item = real
    c.route = route
    c.typ = typ
    c.name, c.value = name, value
    ref = ref_parse(typ, value)
    if route in ("parse", "engine", "argv"):
        c.sets = [(name + ":" + value, "")]
        c.raw = name + ":" + value
    else:
        c.sets = [(name, value)]
    al = items[real]["aliases"]
    c.reads = [(typ, real)] + ([(typ, al[0])] if al else [])
    c.klass = (route, typ, value_class(typ, value, ref), kind_of(real, own, enums), name != real)
    c.expect = expectation(real, typ, ref, own, enums, initial)
    return c


def kind_of(real, own, enums):
    if real in own:
        return "own:" + own[real][2]
    return "lib:enum" if real in enums else "lib"


def expectation(real, typ, ref, own, enums, initial):
    """-> dict(kind=..., value=...) kinds: store (must be stored), reject-parse (must raise range_error, value unchanged),
    reject-pred (range_error 'invalid value.'), reject-die (abort), store-or-validation (library item with unknown
    validation), silent (statement silent: no crash of the *harness*, and if OK is answered nothing is demanded)"""
    if ref[0] == "any":
        return {"kind": "silent"}
    if ref[0] == "err":
        return {"kind": "reject-parse", "unchanged": initial.get(real)}
    v = ref[1]
    if real in own:
        t, d, k, val, al, cb = own[real]
        if k == "pred" and not val(v):
            return {"kind": "reject-pred", "value": v, "cb": cb}
        if k == "enum" and v not in val:
            return {"kind": "reject-die", "cb": cb, "value": v}
        return {"kind": "store", "value": v, "cb": cb}
    if real in enums:
        if v in enums[real]:
            return {"kind": "store", "value": v, "cb": False}
        return {"kind": "reject-die", "cb": False, "value": v}
    return {"kind": "store-or-validation", "value": v}


PARSE_REFUSALS = (b"not a boolean", b"out of range", b"invalid double", b"underflow", b"overflow", b"invalid integer")


def cb_text(typ, v):
    if typ == "int":
        return str(v)
    if typ == "double":
        return None   # compared numerically
    if typ == "boolean":
        return "1" if v else "0"
    return hexs(v)


def judge(ctx, c, cbs, res):
    """res = ('OK', {name: text}) | ('EXC', class, what, {name: text}) | ('DIED', code). Returns (key, what) or None."""
    e = c.expect
    k = e["kind"]
    typ = c.typ
    route = c.route
    tag = "%s:%s:%s" % (route if route != "ctyped" else "ctyped", typ, c.klass[3])
    if c.klass[4]:
        tag += ":alias"
    if k == "silent":
        return None
    got = res[0]
    vals = res[-1] if got in ("OK", "EXC") else {}

    def stored_ok(want):
        bad = [n for (t, n) in c.reads if n not in vals or vals[n] == "!" or not same_value(t, vals[n], want)]
        return not bad
    if k == "reject-parse":
        if got == "OK":
            return ("C48:accepted-unparsable:%s:%s" % (tag, c.klass[2]), "an unparsable %s value was accepted" % typ)
        if got == "DIED":
            return ("C48:died-on-unparsable:%s:%s" % (tag, c.klass[2]),
                    "an unparsable %s value killed the process (%s) instead of raising" % (typ, res[1]))
        if res[1] != "range_error":
            return ("C48:wrong-exception-on-unparsable:%s:%s" % (tag, res[1]), "unparsable value raised %s" % res[1])
        if e["unchanged"] is not None and not stored_ok(e["unchanged"]):
            return ("C48:value-changed-by-rejected-set:%s" % tag, "the stored value changed although the set was rejected")
        return None
    if k == "store":
        if got != "OK":
            return ("C48:refused-valid:%s:%s:%s" % (tag, c.klass[2], got if got != "EXC" else res[1]),
                    "a valid value was refused (%s)" % (res[1:3],))
        if not stored_ok(e["value"]):
            return ("C48:stored-differs:%s:%s" % (tag, c.klass[2]), "stored value differs from the parsed value: %r" % (vals,))
        if e.get("cb"):
            return check_cb(c, cbs, e["value"], tag)
        return None
    if k == "reject-pred":
        if got == "OK":
            return ("C48:validation-skipped:%s:pred" % tag, "a value the predicate refuses was accepted")
        if got == "DIED" or res[1] != "range_error" or unhex(res[2]) != b"invalid value.":
            return ("C48:wrong-rejection:%s:pred" % tag, "predicate refusal reported as %r" % (res[:3],))
        return check_cb(c, cbs, e["value"], tag)
    if k == "reject-die":
        if got == "OK":
            return ("C48:validation-skipped:%s:enum" % tag, "a value outside the enumerated legal values was accepted")
        if got == "EXC":
            if res[1] == "range_error" and unhex(res[2]) != b"invalid value.":
                return ("C48:refused-valid:%s:%s:range_error" % (tag, c.klass[2]), "parseable value refused as unparsable")
            return None      # refusing through an exception instead of aborting is a refusal all the same
        if e.get("cb"):
            return check_cb(c, cbs, e["value"], tag)
        return None
    if k == "store-or-validation":
        if got == "OK":
            if not stored_ok(e["value"]):
                return ("C48:stored-differs:%s:%s" % (tag, c.klass[2]), "stored value differs from the parsed value: %r" % (vals,))
            return None
        if got == "DIED":
            return None      # item-specific validation (xbt_assert in the callback)
        if res[1] == "range_error" and unhex(res[2]) in PARSE_REFUSALS:
            return ("C48:refused-valid:%s:%s:%s" % (tag, c.klass[2], res[1]),
                    "a parseable value was refused as unparsable: %r" % unhex(res[2]))
        return None          # any other exception comes from the item's own validation callback (e.g. a unit parser)
    return None


def check_cb(c, cbs, want, tag):
    mine = [v for (n, v) in cbs if n == c.item]
    if len(mine) != 1:
        return ("C48:callback-count:%s:%d" % (tag, min(len(mine), 2)),
                "the validation callback ran %d time(s) for one set" % len(mine))
    t = cb_text(c.typ, want)
    if t is None:
        okv = same_value("double", mine[0], want)
    else:
        okv = (mine[0] == t)
    if not okv:
        return ("C48:callback-value:%s" % tag, "the callback got %r instead of the parsed value" % mine[0])
    return None


# ------------------------------------------------------------------------------------------------ execution
def parse_out(out, ncases):
    """-> list of (cbs, res) per attempt index"""
    results = [None] * ncases
    cbs = []
    for l in out.splitlines():
        f = l.split(" ")
        if f[0] == "READY":
            cbs = []          # callbacks of the registration-time update() calls are not part of any attempt
            continue
        if f[0] == "CB" and len(f) >= 3:
            cbs.append((f[1], f[2]))
            continue
        if not f[0].isdigit():
            continue
        i = int(f[0])
        if i >= ncases or results[i] is not None and f[1] == "DIED" and results[i][1][0] != "DIED":
            # a child that printed its verdict and then died at exit: keep the verdict
            continue
        if f[1] == "OK":
            vals = dict(zip(map(lambda h: unhex(h).decode("utf-8", "surrogateescape"), f[2::2]), f[3::2]))
            results[i] = (cbs, ("OK", vals))
        elif f[1] == "EXC":
            vals = dict(zip(map(lambda h: unhex(h).decode("utf-8", "surrogateescape"), f[4::2]), f[5::2]))
            results[i] = (cbs, ("EXC", f[2], f[3], vals))
        elif f[1] == "DIED":
            results[i] = (cbs, ("DIED", f[2]))
        cbs = []
    return results


def run_batch(binary, cases, timeout):
    inp = "\n".join(c.line() for c in cases) + "\n"
    r = proc.run([binary, "run", "--log=root.thres:critical"], stdin=inp, timeout=timeout)
    return r


def run_argv(binary, c, extra=()):
    reads = ",".join("%s:%s" % (t, hexs(n)) for t, n in c.reads)
    args = ["--cfg=" + c.raw] if isinstance(c.raw, str) else ["--cfg=" + x for x in c.raw]
    return proc.run([binary, "argv", reads, "--"] + args + ["--log=root.thres:critical"] + list(extra), timeout=120)


def decide_argv(r):
    if r.timed_out:
        return None
    res = parse_out(r.out, 1)[0]
    if res is None:
        if r.rc in (0,):
            return None
        cbs, seen = [], False
        for l in r.out.splitlines():
            f = l.split(" ")
            if f[0] == "READY":
                seen = True
            elif seen and f[0] == "CB" and len(f) >= 3:
                cbs.append((f[1], f[2]))
        return (cbs, ("DIED", str(r.rc)))
    return res


def run(ctx):
    rng = ctx.rng
    flavours = ["hooks", "asan"]
    bins = {f: build.harness("cfg.cpp", f) for f in flavours}
    items = registry(bins["hooks"])
    ctx.count("registry.items", len(items))
    ctx.count("registry.aliases", sum(len(i["aliases"]) for i in items.values()))
    enums = discover_enums(ctx, bins["hooks"], items)
    ctx.count("registry.items_with_enumerated_values", len(enums))
    if len(enums) < 5:
        raise HarnessFailure("enumerated-value discovery found only %d items" % len(enums))
    for n, (t, d, k, val, al, cb) in OWN.items():
        if k == "enum" and enums.get(n) != val:
            raise HarnessFailure("enumerated values of %s discovered as %r" % (n, enums.get(n)))

    # initial typed values (read side only)
    names = sorted(items)
    init_cases = []
    for n in names:
        c = Case()
        c.route, c.typ, c.sets, c.reads, c.item, c.klass, c.expect, c.raw = "get", items[n]["type"], [(n, "")], \
            [(items[n]["type"], n)], n, None, None, None
        init_cases.append(c)
    r = run_batch(bins["hooks"], init_cases, 300)
    if r.timed_out:
        raise HarnessFailure("initial read timed out")
    initial = {}
    for c, pr in zip(init_cases, parse_out(r.out, len(init_cases))):
        if pr is None or pr[1][0] != "OK":
            raise HarnessFailure("cannot read the initial value of %s: %r" % (c.item, pr))
        txt = pr[1][1][c.item]
        t = c.typ
        initial[c.item] = (int(txt) if t == "int" else float.fromhex(txt) if t == "double" and "x" in txt else
                           float(txt) if t == "double" else (txt == "1") if t == "boolean" else unhex(txt))
    for n, (t, d, k, val, al, cb) in OWN.items():
        w = d.encode() if t == "string" else d
        if initial[n] != w:
            ctx.violation("C48:default-not-stored:own:%s" % t, "declared default of %s not readable" % n,
                          {"item": n, "got": repr(initial[n]), "want": repr(d)})

    per_item = ctx.size(quick=8, thorough=400)
    per_own = ctx.size(quick=50, thorough=2500)
    n_unknown = ctx.size(quick=100, thorough=4000)
    n_multi = ctx.size(quick=80, thorough=4000)
    n_argv = ctx.size(quick=70, thorough=2500)

    cases = []
    argv_cases = []
    types = ["int", "double", "boolean", "string"]

    def add(c):
        (argv_cases if c.route == "argv" else cases).append(c)

    def gen_for(real, count):
        typ = items[real]["type"]
        for _ in range(count):
            aim = typ if rng.random() < 0.8 else rng.choice(types)
            if real in enums and rng.random() < 0.6:
                pool = sorted(enums[real])
                value = rng.choice(pool) if rng.random() < 0.6 else _mutate(rng, rng.choice(pool))
            else:
                value = gen_value(rng, aim)
            name = real
            if items[real]["aliases"] and rng.random() < 0.4:
                name = rng.choice(items[real]["aliases"])
            ref = ref_parse(typ, value)
            rs = routes_for(rng, value, typ, ref[0] == "ok")
            route = rng.choice(rs)
            if route == "argv" and rng.random() < 0.6:
                route = "parse"
            add(make_set_case(route, name, real, typ, value, items, OWN, enums, initial))
            # typed routes: the already parsed value
            if ref[0] == "ok" and rng.random() < 0.35:
                v = ref[1]
                tr = "typed" if (typ == "boolean" or rng.random() < 0.6) else "ctyped"
                if typ == "string" and "\0" in v:
                    continue
                if typ == "string" and tr == "ctyped" and not v.isascii():
                    tr = "typed"
                c = make_set_case("str", name, real, typ, value, items, OWN, enums, initial)
                c.route = tr
                c.sets = [(name, typed_text(typ, v))]
                c.klass = (tr,) + c.klass[1:]
                if typ == "double" and (math.isinf(v) or math.isnan(v)):
                    continue
                cases.append(c)

    for real in names:
        gen_for(real, per_own if real in OWN else per_item)

    # directed: setting an item to the value it already holds is a set like any other (callback runs, value stored)
    for real in sorted(OWN):
        t, d, k, val, al, cb = OWN[real]
        for route in ("typed", "str", "parse") + (("ctyped",) if t != "boolean" else ()):
            vtxt = {"int": str(d), "double": repr(d), "boolean": "yes" if d else "no", "string": d}[t]
            if route == "parse" and (vtxt == "" and False):
                continue
            c = make_set_case("str" if route in ("typed", "ctyped") else route, real, real, t, vtxt, items, OWN, enums, initial)
            if route in ("typed", "ctyped"):
                c.route = route
                c.sets = [(real, typed_text(t, d))]
                c.klass = (route,) + c.klass[1:]
            c.klass = c.klass[:2] + ("same-as-current",) + c.klass[3:]
            cases.append(c)

    # unknown names on every route
    known = set(items)
    for it in items.values():
        known.update(it["aliases"])
    alias_of = {a: n for n, it in items.items() for a in it["aliases"]}
    all_aliases = sorted(alias_of)
    directed_bad = []
    for nm in sorted(known):
        # the snake_case spelling of a kebab-case name (or alias) is not a name (the library only *suggests* it)
        if "-" in nm and nm.replace("-", "_") not in known:
            directed_bad.append((nm.replace("-", "_"), alias_of.get(nm, nm)))
    rng.shuffle(directed_bad)
    directed_bad = directed_bad[:ctx.size(quick=60, thorough=1000)]
    for i in range(n_unknown + len(directed_bad)):
        if i >= n_unknown:
            bad, base = directed_bad[i - n_unknown]
        elif rng.random() < 0.3:       # mangle an alias (deprecated spelling) instead of a current name
            al = rng.choice(all_aliases)
            base = alias_of[al]
            bad = mangle_name(rng, al, known)
        else:
            base = rng.choice(names)
            bad = mangle_name(rng, base, known)
        typ = items[base]["type"]
        route = rng.choice(["parse", "engine", "str", "typed", "ctyped", "get", "argv"])
        if route == "ctyped" and typ == "boolean":
            route = "typed"
        val = {"int": "1", "double": "1.5", "boolean": "1" if route in ("typed",) else "yes", "string": "v"}[typ]
        c = Case()
        c.item, c.route, c.typ = bad, route, typ
        c.raw = bad + ":" + val
        c.sets = [(c.raw, "")] if route in ("parse", "engine", "argv") else [(bad, val)]
        c.reads = []
        c.klass = (route, typ, "unknown-name", "unknown", False)
        c.expect = {"kind": "unknown"}
        add(c)

    # multi-option strings on the harness-declared flags: left to right, stop at the first failure
    own_names = sorted(OWN)
    for _ in range(n_multi):
        k = rng.randint(2, 5)
        pairs = []
        for _ in range(k):
            n = rng.choice(own_names)
            typ = OWN[n][0]
            for _ in range(10):
                v = gen_value(rng, typ if rng.random() < 0.85 else rng.choice(types))
                if not any(ch in v for ch in SEPS) and "\0" not in v:
                    break
            else:
                v = "1"
            pairs.append((n, v))
        sep = rng.choice([",", " ", "\t", "\n", ", ", " ,, "])
        raw = (rng.choice(["", " ", ","]) + sep.join("%s:%s" % p for p in pairs) + rng.choice(["", " ", ","]))
        c = Case()
        c.item, c.route, c.typ = "multi", rng.choice(["parse", "engine"]), "string"
        c.raw = raw
        c.sets = [(raw, "")]
        c.reads = [(OWN[n][0], n) for n in own_names]
        c.klass = (c.route, "multi", "k=%d" % k, "own", False)
        c.expect = {"kind": "multi", "pairs": pairs}
        cases.append(c)

    # command line: several --cfg of own flags, the last one wins
    multi_argv = []
    for _ in range(ctx.size(quick=30, thorough=600)):
        n = rng.choice([x for x in own_names if OWN[x][2] == "none"])
        typ = OWN[n][0]
        vs = []
        while len(vs) < 2:
            v = gen_value(rng, typ)
            if ref_parse(typ, v)[0] == "ok" and not any(ch in v for ch in SEPS) and "\0" not in v:
                vs.append(v)
        c = Case()
        c.item, c.route, c.typ = n, "argv", typ
        c.raw = ["%s:%s" % (n, v) for v in vs]
        c.sets = []
        c.reads = [(typ, n)]
        c.klass = ("argv", typ, "last-wins", "own:none", False)
        c.expect = {"kind": "store", "value": ref_parse(typ, vs[-1])[1], "cb": False}
        multi_argv.append(c)

    rng.shuffle(argv_cases)
    argv_cases = argv_cases[:n_argv] + multi_argv

    # ---- run the forked-attempt batches
    rng.shuffle(cases)
    bs = 200
    jobs = []
    for i in range(0, len(cases), bs):
        jobs.append(("hooks", cases[i:i + bs]))
    asan_share = ctx.size(quick=400, thorough=20000)
    sub = cases[:asan_share]
    for i in range(0, len(sub), bs):
        jobs.append(("asan", sub[i:i + bs]))

    def do(job):
        flv, cs = job
        r = run_batch(bins[flv], cs, 600)
        return flv, cs, r
    for flv, cs, r in ctx.pmap(do, jobs):
        reps = proc.sanitizer_reports(r.err)
        reps = [x for x in reps if x[0] != "ubsan" or "xbt/config" in x[1]]
        if len(reps) < len(proc.sanitizer_reports(r.err)):
            # undefined behaviour inside an item's own callback (what the item does with an accepted value, e.g.
            # contexts/stack-size * 1024) is outside this statement: counted, not judged
            ctx.count("ubsan_reports_inside_item_callbacks(not judged)", len(proc.sanitizer_reports(r.err)) - len(reps))
        if reps:
            import re as _re
            sig = _re.sub(r"0x[0-9a-f]+|pc \S+|==\d+==|\d+", "N", reps[0][1])[:80]
            ctx.violation("C48:sanitizer:%s:%s" % (reps[0][0], sig), "sanitizer report while setting configuration items: " + reps[0][1],
                          {"flavour": flv, "report": reps[0][1], "stderr_tail": r.err[-3000:], "lines": [c.line() for c in cs]})
        if r.timed_out:
            ctx.inconclusive("watchdog")
            continue
        prs = parse_out(r.out, len(cs))
        for c, pr in zip(cs, prs):
            if pr is None:
                ctx.inconclusive("no-answer")
                continue
            evaluate(ctx, c, pr, flv)

    def do_argv(c):
        return c, decide_argv(run_argv(bins["hooks"], c))
    for c, pr in ctx.pmap(do_argv, argv_cases):
        if pr is None:
            ctx.inconclusive("argv-no-answer")
            continue
        evaluate(ctx, c, pr, "hooks")


def judge_multi(c, cbs, res):
    pairs = c.expect["pairs"]
    want = {n: (OWN[n][1]) for n in OWN}
    fail = None
    exp_cbs = []
    for n, v in pairs:
        t, d, k, val, al, cb = OWN[n]
        ref = ref_parse(t, v)
        if ref[0] == "any":
            return None
        if ref[0] == "err":
            fail = ("EXC", "range_error")
            break
        if k == "pred" and not val(ref[1]):
            fail = ("EXC", "range_error")
            exp_cbs.append(n)
            want[n] = None      # element content after a predicate refusal: not judged
            break
        if k == "enum" and ref[1] not in val:
            fail = ("DIED",)
            break
        want[n] = ref[1]
        if cb:
            exp_cbs.append(n)
    tag = "%s:multi" % c.route
    if fail is None and res[0] != "OK":
        return ("C48:refused-valid:%s:%s" % (tag, res[0]), "a multi-option string of valid settings was refused")
    if fail is not None and res[0] == "OK":
        return ("C48:accepted-invalid:%s" % tag, "a multi-option string containing an invalid setting was accepted")
    if fail is not None and fail[0] == "EXC" and res[0] == "DIED":
        return ("C48:died-on-unparsable:%s" % tag, "died instead of raising")
    if res[0] in ("OK", "EXC"):
        vals = res[-1]
        for n in OWN:
            if want[n] is None:
                continue
            if n not in vals or vals[n] == "!" or not same_value(OWN[n][0], vals[n], want[n]):
                return ("C48:multi-option-order:%s" % tag,
                        "after the multi-option string, %s holds %r, expected %r" % (n, vals.get(n), want[n]))
        got_cbs = [n for n, v in cbs]
        if got_cbs != exp_cbs:
            return ("C48:callback-count:%s" % tag, "callbacks ran for %r, expected %r" % (got_cbs, exp_cbs))
    return None


def evaluate(ctx, c, pr, flv):
    cbs, res = pr
    ctx.evaluation()
    k = c.expect["kind"]
    if k == "unknown":
        ctx.count("attempts.unknown_name.%s" % c.route)
        v = None
        if res[0] == "OK":
            v = ("C48:unknown-name-accepted:%s" % c.route, "an unknown item name was accepted")
        elif res[0] == "DIED":
            v = ("C48:unknown-name-died:%s" % c.route, "an unknown item name killed the process (%s)" % res[1])
        elif res[1] != "out_of_range":
            v = ("C48:unknown-name-wrong-exception:%s:%s" % (c.route, res[1]), "unknown name raised %s" % res[1])
        ctx.nontrivial(("unknown", c.route, c.typ))
    elif k == "multi":
        ctx.count("attempts.multi_option_strings")
        v = judge_multi(c, cbs, res)
        ctx.nontrivial(("multi", c.route, c.klass[2], res[0]))
    else:
        ctx.count("attempts.%s" % c.route)
        ctx.count("expect.%s" % k)
        ctx.count("outcome.%s" % (res[0] if res[0] != "EXC" else "EXC." + res[1]))
        if k == "store-or-validation" and res[0] != "OK":
            ctx.count("library_items_refusing_by_validation")
        v = judge(ctx, c, cbs, res)
        if k != "silent":
            ctx.nontrivial(c.klass)
    if v is not None:
        w = c.witness()
        w.update({"flavour": flv, "answer": repr(res)[:400], "callbacks": cbs[:6], "expect": {a: repr(b)[:80] for a, b in c.expect.items()}})
        if isinstance(c.raw, list):
            w["argv"] = c.raw
        ctx.violation(v[0], v[1], w)
    elif ctx_sample_wanted(ctx):
        ctx.sample({"line": c.line(), "answer": repr(res)[:200]})


_s = [0]


def ctx_sample_wanted(ctx):
    _s[0] += 1
    return _s[0] in (5, 500, 2000, 4000)


def replay(ctx, witness):
    """Re-run the witness attempt on the current tree and judge it again with a freshly computed expectation."""
    flv = witness.get("flavour", "hooks")
    binary = build.harness("cfg.cpp", flv)
    items = registry(build.harness("cfg.cpp", "hooks"))
    enums = discover_enums(ctx, build.harness("cfg.cpp", "hooks"), items)
    kind = witness.get("kind")
    c = Case()
    c.route, c.typ, c.item = witness["route"], witness["type"], witness["item"]
    c.sets = [tuple(x) for x in witness["sets"]]
    c.reads = [tuple(x) for x in witness["reads"]]
    c.klass = tuple(witness["class"])
    c.raw = witness.get("argv") or (c.sets[0][0] if c.sets else None)
    if kind == "unknown":
        c.expect = {"kind": "unknown"}
    elif kind == "multi":
        c.expect = {"kind": "multi", "pairs": [tuple(x) for x in witness["pairs"]]}
    elif witness.get("argv"):
        last = witness["argv"][-1].split(":", 1)[1]
        c.expect = {"kind": "store", "value": ref_parse(c.typ, last)[1], "cb": False}
    else:
        # initial value of the item, for the 'unchanged after a rejected set' clause
        g = Case()
        g.route, g.typ, g.sets, g.reads, g.item = "get", c.typ, [(c.item, "")], [(c.typ, c.item)], c.item
        r0 = run_batch(build.harness("cfg.cpp", "hooks"), [g], 120)
        pr0 = parse_out(r0.out, 1)[0]
        txt = pr0[1][1][c.item]
        t = c.typ
        init = {c.item: (int(txt) if t == "int" else float.fromhex(txt) if t == "double" and "x" in txt else
                         float(txt) if t == "double" else (txt == "1") if t == "boolean" else unhex(txt))}
        c.expect = expectation(c.item, c.typ, ref_parse(c.typ, witness["value"]), OWN, enums, init)
    if c.route == "argv":
        pr = decide_argv(run_argv(binary, c))
    else:
        r = run_batch(binary, [c], 120)
        pr = parse_out(r.out, 1)[0]
    if pr is None:
        ctx.inconclusive("replay: no answer")
        return
    print("answer:", pr)
    evaluate(ctx, c, pr, flv)
