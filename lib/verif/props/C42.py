"""C42 Happens-before equals transitive dependency.

Monitor: generated sequences of real checker-side transitions (built through Channel::reinject + deserialize_transition) are
pushed into the real odpor::Execution - also through the paths the explorers and reductions use (remove_last_event when
backtracking, copies, Execution(PartialExecution), get_prefix_before alone as SDPOR::races_computation does, and
get_prefix_before followed by pushes as Execution::get_missing_source_set_actors_from does) - and the harness prints, for every event, the row of dispatch_depends(),
the row of happens_before() and get_racing_events_of(). Python recomputes happens-before from the definition (chains of
pairwise dependent events, using the checker's own dependency answers) and the racing events from theirs, and compares
every ordered pair and every event. ClockVector / Clock are driven by operation scripts against a dict model.
"""
import multiprocessing
import os

from verif import build, core, proc
from verif.gen import mctrans as G

META = {
    "id": "C42", "engine": "E4 unit harness", "engine_path": "harness/hb.cpp",
    "engine_kind": "C++ driver linked to the real libsimgrid (private headers), scripts on stdin, Python reference",
    "level": "exploration",
    "technique": "definitional reference (chains of pairwise dispatch_depends-dependent events; maximal predecessors of other actors) "
                 "compared with Execution::happens_before on every ordered pair and get_racing_events_of on every event; dict model for ClockVector",
    "level_text": "Every generated execution (2-40 real transitions of every kind the checker deserialises - mutex lock/wait/test/trylock/"
                  "unlock, semaphore, barrier, condvar, comm send/recv/iprobe/test/wait, TestAny/WaitAny, actor create/join/exit/sleep, "
                  "random - over 2-6 actors and 1-3 objects per kind, both arbitrary sequences and interleavings of program-like "
                  "per-actor scripts) is recorded by the real Execution, partly through the paths the explorers use: push/"
                  "remove_last_event detours (DFS backtracking), copies, rebuilds from a PartialExecution, get_prefix_before alone "
                  "(SDPOR::races_computation) and get_prefix_before followed by pushes (get_missing_source_set_actors_from). The full "
                  "n x n happens_before matrix and the racing events of every event are compared with a reference computed in Python "
                  "from the definition, with the dependency relation read from the real dispatch_depends (whose symmetry is checked "
                  "on every pair met). Ten directed executions (chain through a third actor, previous-event clause, actor-id bounds, "
                  "backtracking, 40 events on one mutex, ...) run on every seed.",
    "level_note": "The dependency relation itself is trusted here (it is C39's subject): only its symmetry is checked; the run fails as a "
                  "harness failure if some transition kind never occurred. Sequences need not be feasible runs of a program: both "
                  "sides are pure functions of the sequence. Runs on the plain and the ASan+UBSan flavour (UBSan's misaligned-load "
                  "reports inside Channel::unpack are not this property's business and are ignored). Memory-access traces "
                  "(smemory, clang-only build option) are empty: the data-race epochs of Event are not judged.",
    "rule": "case = one script (1-4 dumped executions); non-trivial = distinct dumped executions with >=1 happens-before pair that holds "
            "only through a chain (no direct dependency) and >=1 racing event",
    "assumptions": ["dispatch_depends() is the dependency relation (C39)", "actor ids <= 30 (static_config::max_threads - 2)"],
    "ready": True,
}

PREFIX_TAG = ":after-get_prefix_before"
# exact key of the open finding (see known_findings.d/C42.json); everything else observed after get_prefix_before+push gets
# an ordinary key with PREFIX_TAG appended, which is *not* a known finding
PREFIX_KEY = "C42:get_prefix_before+push:pushed-events-ignore-prefix"

# Channel::unpack<T>() reads `*(T*)got` at whatever offset the previous fields left (a bool followed by an aid_t is the rule in
# the transition wire format): UBSan reports a misaligned load inside the checker's deserialiser for most transitions. That is
# the wire format's business, not this property's: UBSan is told to go on, and only *other* reports are judged.
SAN_ENV = {"UBSAN_OPTIONS": "print_stacktrace=0:halt_on_error=0:exitcode=87"}


def relevant_reports(err):
    return [(k, l) for k, l in proc.sanitizer_reports(err) if not ("Channel.hpp" in l and "misaligned address" in l)]

# ---------------------------------------------------------------------------------------------------------------------
# generation


def parse_tr(text):
    """'1 0 ML 0 1' -> (1, 0, 'ML', 0, 1)"""
    f = text.split()
    return (int(f[0]), int(f[1]), f[2]) + tuple(int(x) for x in f[3:])


def simulate(lines):
    """What the script makes the Execution contain at every Q: list of (transitions, h).  h is None for an execution whose
    bookkeeping was built by push_transition alone; h = the length of the prefix when events were pushed on top of the
    result of get_prefix_before(h) (open finding: those events ignore the prefix)."""
    cur, pending, h, qs = [], None, None, []
    for l in lines:
        c = l[0]
        if c == "X":
            cur, pending, h = [], None, None
        elif c == "P":
            cur.append(parse_tr(l[2:]))
            if pending is not None:
                h, pending = pending, None
        elif c == "R":
            # remove_last_event() below the length of a prefix is never generated (the explorers do not do it either)
            assert cur and pending is None and (h is None or len(cur) > h), "script removes an event of a prefix"
            cur.pop()
        elif c == "W":                     # rebuilt from scratch: regular bookkeeping
            pending, h = None, None
        elif c == "F":
            k = int(l.split()[1])
            assert 0 <= k <= len(cur)
            assert h is None or k <= h, "script takes a prefix that keeps events pushed on a prefix"   # never generated
            cur, h, pending = cur[:k], None, k
        elif c == "Q":
            qs.append((list(cur), h))
        elif c != "K":
            raise ValueError(l)
    return qs


def mkcase(cid, mode, body):
    lines = ["X %s" % cid] + body
    return {"id": cid, "mode": mode, "lines": lines, "qs": simulate(lines)}


def sdpor_tail(rng, seq):
    """Script lines doing on the execution `seq` what SDPOR does with it: E' = get_prefix_before(e'+1), then (inside
    get_missing_source_set_actors_from) E'' = E'.get_prefix_before(e) and some of the events e+1..e' pushed on E''
    (always e' itself). Which events are kept is decided by the real code from happens_before; any subset is a legitimate
    execution for this property."""
    n = len(seq)
    ep = rng.randrange(1, n)
    e = rng.randrange(0, ep)
    out = ["F %d" % (ep + 1)]
    if rng.random() < 0.3:
        out.append("Q")                    # the prefix SDPOR asks get_reversible_races_of() about
    out.append("F %d" % e)
    for k in range(e + 1, ep + 1):
        if k == ep or rng.random() < 0.6:
            out.append("P " + G.txt(seq[k]))
    return out


def gen_case(rng, cid):
    n = rng.choice([2, 3, 5, 8, 12, 20, 30, 40, rng.randrange(2, 41)])
    nact = rng.randrange(2, 7)
    fams = rng.sample(G.FAMILIES, rng.randrange(1, len(G.FAMILIES) + 1)) if rng.random() < 0.7 else list(G.FAMILIES)
    if rng.random() < 0.6:
        seq = G.soup(rng, n, nact, fams)
        mode = "soup"
    else:
        env, progs = G.program(rng, nact, max(1, (n + nact - 1) // nact + 1), fams)
        seq = G.interleave(rng, progs, n)
        mode = "program"
    body = []
    style = rng.random()
    junk_env = G.Env(rng, sorted({t[0] for t in seq}), fams)
    for i, t in enumerate(seq):
        if style < 0.5 and rng.random() < 0.15 and i + 4 <= 40:       # a backtracking detour (DFS/BeFS explorers)
            k = rng.randrange(1, 4)
            for _ in range(k):
                body.append("P " + G.txt(G.rand_transition(junk_env, junk_env.actor())))
            body += ["R"] * k
        body.append("P " + G.txt(t))
        if style < 0.5 and rng.random() < 0.05:
            body.append(rng.choice(["K", "W"]))
        if 0.5 <= style < 0.6 and rng.random() < 0.1 and i >= 1:
            body.append("Q")
    x = rng.random()
    if x < 0.10 and len(seq) >= 2:                       # the prefix alone: its recorded relation must be the restriction
        body.append("F %d" % rng.randrange(1, len(seq) + 1))
    elif x < 0.15 and len(seq) >= 2:                     # prefix + pushes, the way get_missing_source_set_actors_from builds E'.v
        body += sdpor_tail(rng, seq)
        mode += "+prefix-push"
    body.append("Q")
    return mkcase(cid, mode, body)


def _d(cid, *body):
    return mkcase(cid, "directed", list(body))


DIRECTED = [
    # Minimal witness of the open finding, shaped as SDPOR builds it. E = <3:lock m0> <1:lock m1> <4:lock m0> <2:lock m1>;
    # events 1 and 3 race; get_missing_source_set_actors_from(1) builds pre(1,E).<4:lock m0>.<2:lock m1>: there
    # <3:lock m0> must happen before <4:lock m0> and be its racing event.
    _d("d-prefix-push", "P 3 0 ML 0 3", "P 1 0 ML 1 1", "P 4 0 ML 0 3", "P 2 0 ML 1 1", "Q",
       "F 4", "Q", "F 1", "P 4 0 ML 0 3", "P 2 0 ML 1 1", "Q", "W", "Q"),
    # three actors, a chain through a third actor and two races (ODPOR paper style)
    _d("d-chain", "P 1 0 ML 0 1", "P 2 0 ML 0 2", "P 2 0 SU 0 0 1", "P 3 0 SW 0 1 0", "P 1 0 MW 0 1", "Q"),
    # the "not already ordered with the previous event of its actor" clause: <1:lock m0> is dependent with both events of
    # actor 2 but races only with the first one
    _d("d-prev-clause", "P 1 0 ML 0 1", "P 2 0 ML 0 1", "Q", "P 2 0 MT 0 -1", "Q", "P 3 0 MT 0 -1", "Q"),
    # one actor only: total order, no race; pairwise independent actors: empty relation
    _d("d-one-actor", "P 5 0 ML 0 5", "P 5 0 MW 0 5", "P 5 0 SD 1 0 0", "P 5 0 WT 0 1 5 5 0", "P 5 0 MU 0 5", "P 5 0 AE", "Q"),
    _d("d-independent", "P 1 0 ML 0 1", "P 2 0 ML 1 2", "P 3 0 SL 0 1 1", "P 4 0 BL 0", "P 5 1 RN 0 2", "P 6 0 AS", "Q"),
    # the smallest and largest actor ids the clock vectors can hold
    _d("d-aid-bounds", "P 0 0 ML 0 0", "P 30 0 ML 0 0", "P 29 0 MT 0 -1", "P 0 0 MU 0 0", "P 30 0 MW 0 30", "Q"),
    # backtracking: what was removed must leave no trace in the clocks of what is pushed afterwards
    _d("d-backtrack", "P 1 0 ML 0 1", "P 2 0 ML 0 1", "P 3 0 ML 0 1", "R", "R", "P 3 0 ML 1 3", "Q", "P 2 0 ML 1 3", "Q",
       "R", "R", "R", "P 2 0 SL 0 1 1", "Q"),
    # actor creation, join and exit around a communication (send/recv/wait/test on one mailbox)
    _d("d-actor-comm", "P 1 0 AC 2", "P 1 0 AC 3", "P 2 0 SD 1 0 0", "P 3 0 RV 2 0 0", "P 2 0 WT 0 1 2 3 0", "P 3 0 TS 2 2 3 0",
       "P 3 0 AE", "P 1 0 AJ 3 0", "P 2 0 AE", "P 1 0 AJ 2 0", "Q"),
    # condition variable with its mutex, semaphore and barrier in one execution
    _d("d-sync-mix", "P 1 0 ML 0 1", "P 1 0 MW 0 1", "P 1 0 CL 0 0", "P 2 0 ML 0 1", "P 2 0 CS 0", "P 1 0 CW 0 0 1 0", "P 1 0 MU 0 1",
       "P 2 0 MW 0 2", "P 3 0 SL 0 1 0", "P 2 0 SU 0 0 1", "P 3 0 SW 0 1 0", "P 3 0 BL 0", "P 2 0 BL 0", "P 3 0 BW 0", "P 2 0 BW 0", "Q"),
    # 40 events of six actors on one mutex: the densest relation
    _d("d-dense-40", *(["P %d 0 %s 0 %d" % (1 + i % 6, ("ML", "MT", "MU", "MW", "Mt")[i % 5], 1 + i % 6) for i in range(40)] + ["Q"])),
]


def gen_cv_script(rng, nops):
    """Operations on ClockVector registers with a dict model: returns (lines, expected answers)."""
    vals = [0, 0, 1, 2, 3, 7, 40, 2**31 - 1, 2**31, 2**32 - 2, -1]
    lines, exp = [], []
    regs = {}

    def newreg():
        r = rng.randrange(6)
        return r
    for _ in range(nops):
        op = rng.choice("NISSSSGGGMMLLDO") if regs else rng.choice("NI")
        if op == "N":
            r = newreg()
            regs[r] = {}
            lines.append("V N %d" % r)
        elif op == "I":
            r, v = newreg(), rng.choice(vals)
            regs[r] = {} if v < 0 else {a: v for a in range(31)}
            lines.append("V I %d %d" % (r, v))
        elif op == "S":
            r, a, v = rng.choice(sorted(regs)), rng.choice([0, 1, 2, 3, 29, 30, rng.randrange(31)]), rng.choice(vals)
            if v < 0:
                regs[r].pop(a, None)
            else:
                regs[r][a] = v
            lines.append("V S %d %d %d" % (r, a, v))
        elif op == "G":
            r, a = rng.choice(sorted(regs)), rng.choice([-1, 0, 1, 2, 30, rng.randrange(31)])
            lines.append("V G %d %d" % (r, a))
            exp.append("G %d" % (regs[r].get(a, -1) if a >= 0 else -1))
        elif op == "M":
            r, a, b = newreg(), rng.choice(sorted(regs)), rng.choice(sorted(regs))
            regs[r] = {k: max(regs[a].get(k, -1), regs[b].get(k, -1)) for k in set(regs[a]) | set(regs[b])}
            lines.append("V M %d %d %d" % (r, a, b))
        elif op == "L":
            a, b = rng.choice(sorted(regs)), rng.choice(sorted(regs))
            regs[a] = {k: max(regs[a].get(k, -1), regs[b].get(k, -1)) for k in set(regs[a]) | set(regs[b])}
            lines.append("V L %d %d" % (a, b))
        elif op == "D":
            r = rng.choice(sorted(regs))
            lines.append("V D %d" % r)
            exp.append("D " + " ".join(str(regs[r].get(a, -1)) for a in range(31)))
        else:
            a, b = rng.choice(vals), rng.choice(vals)
            lines.append("V O %d %d" % (a, b))
            exp.append("O %d %d %d" % (a < b, a == b, a > b))
    for r in sorted(regs):
        lines.append("V D %d" % r)
        exp.append("D " + " ".join(str(regs[r].get(a, -1)) for a in range(31)))
    return lines, exp

# ---------------------------------------------------------------------------------------------------------------------
# oracle


def reference(aids, dep):
    """Definition-level reference. dep[i] = bitmask of the events dependent with event i (the checker's own answers).
    pred[j] = set (bitmask) of events i < j from which a chain of pairwise dependent events, increasing in position, leads to j."""
    n = len(aids)
    pred = [0] * n
    for j in range(n):
        m = 0
        for i in range(j):
            if dep[i] >> j & 1:
                m |= pred[i] | (1 << i)
        pred[j] = m
    succ = [0] * n
    for j in range(n):
        m = pred[j]
        i = 0
        while m:
            if m & 1:
                succ[i] |= 1 << j
            m >>= 1
            i += 1
    races = []
    for e in range(n):
        rs = set()
        for i in range(e):
            # i races with e: different actors, i happens before e, and no event lies in between in the relation
            if pred[e] >> i & 1 and aids[i] != aids[e] and not (succ[i] & pred[e]):
                rs.add(i)
        races.append(rs)
    return pred, succ, races


def compare(trs, aids, events, hb, exp_succ, exp_pred, exp_races, tag, tol_succ=None, tol_races=None):
    """Differences (the first one of each event) between what the Execution answered and the expected relation / racing
    events -> [(key, what)]. tol_succ[i] / tol_races[e]: expected pairs / racing events that may be absent."""
    out = []
    n = len(aids)
    for i in range(n):
        row = hb[i]
        if tol_succ:
            row |= exp_succ[i] & tol_succ[i]
        if row != exp_succ[i]:
            diff = row ^ exp_succ[i]
            j = (diff & -diff).bit_length() - 1
            if j <= i:
                out.append(("C42:hb:not-before" + tag, "happens_before(%d,%d) is true although event %d does not occur before event %d" % (i, j, i, j)))
            elif row >> j & 1:
                out.append(("C42:hb:spurious" + tag, "happens_before(%d,%d) is true but no chain of pairwise dependent events leads from %d (%s) to %d (%s)"
                            % (i, j, i, G.txt(trs[i]), j, G.txt(trs[j]))))
            else:
                out.append(("C42:hb:missing" + tag, "happens_before(%d,%d) is false but a chain of pairwise dependent events leads from %d (%s) to %d (%s)"
                            % (i, j, i, G.txt(trs[i]), j, G.txt(trs[j]))))
    for e in range(n):
        got = events[e][4]
        if len(set(got)) != len(got):
            out.append(("C42:race:duplicate" + tag, "get_racing_events_of(%d) lists an event twice: %r" % (e, got)))
        got = set(got)
        if tol_races:
            got |= exp_races[e] & tol_races[e]
        if got != exp_races[e]:
            extra, miss = sorted(got - exp_races[e]), sorted(exp_races[e] - got)
            if extra:
                x = extra[0]
                why = "not before it" if x >= e else "of the same actor" if aids[x] == aids[e] else \
                    "not happening before it" if not exp_pred[e] >> x & 1 else "not maximal (event %d lies in between)" % ((exp_succ[x] & exp_pred[e]).bit_length() - 1)
                out.append(("C42:race:spurious" + tag, "get_racing_events_of(%d) contains %d which is %s; definition gives %r, got %r" % (e, x, why, sorted(exp_races[e]), sorted(got))))
            else:
                out.append(("C42:race:missing" + tag, "get_racing_events_of(%d) misses %d, a maximal predecessor of another actor; definition gives %r, got %r"
                            % (e, miss[0], sorted(exp_races[e]), sorted(got))))
    return out


def judge_dump(trs, h, events):
    """events = list of (idx, aid, dep, hb, races); h = None, or the length of the get_prefix_before() result the later
    events were pushed on. Returns (findings, stats). findings = list of (key, what)."""
    out = []
    n = len(events)
    st = {"events": n, "pairs": n * n}
    tag = PREFIX_TAG if h is not None else ""
    if n != len(trs):
        return [("C42:size" + tag, "the execution holds %d events, %d were pushed" % (n, len(trs)))], st
    aids = [e[1] for e in events]
    dep = [e[2] for e in events]
    hb = [e[3] for e in events]
    for i in range(n):
        if aids[i] != trs[i][0]:
            out.append(("C42:actor" + tag, "event %d is recorded for actor %d, pushed for actor %d" % (i, aids[i], trs[i][0])))
        for j in range(n):
            if (dep[i] >> j & 1) != (dep[j] >> i & 1):
                a, b = sorted([trs[i][2], trs[j][2]])
                out.append(("C42:dep-asymmetric:%s/%s" % (a, b), "dispatch_depends is not symmetric on (%s) / (%s)" % (G.txt(trs[i]), G.txt(trs[j]))))
    if out:
        return out, st
    pred, succ, races = reference(aids, dep)
    out = compare(trs, aids, events, hb, succ, pred, races, tag)
    if out and h is not None:
        # Open finding: get_prefix_before() returns an Execution without its per-actor index, so an event pushed afterwards
        # gets a clock vector built from the events pushed after the prefix only. Exact footprint: a pair (prefix event i,
        # pushed event j) is ordered only when a pushed event of i's actor is j or precedes j (the clock entry of that actor
        # is then a handle beyond the prefix and happens_before only compares handles); the pushed events have no racing
        # event inside the prefix; everything else is as the definition says. Only exactly that footprint is the known
        # finding, any other difference is reported under an ordinary key.
        lo = (1 << h) - 1
        d_succ = []
        for i in range(n):
            m = succ[i]
            if i < h:
                keep = 0
                for k in range(h, n):
                    if aids[k] == aids[i]:
                        keep |= succ[k] | 1 << k
                m = m & lo | m & keep
            d_succ.append(m)
        d_pred = [sum(1 << i for i in range(j) if d_succ[i] >> j & 1) for j in range(n)]
        d_races = [races[e] if e < h else {i for i in races[e] if i >= h} for e in range(n)]
        other = compare(trs, aids, events, hb, d_succ, d_pred, d_races, tag)
        if other:
            # not (only) the known footprint: report what the footprint does not explain
            out = compare(trs, aids, events, hb, succ, pred, races, tag, [succ[i] & ~d_succ[i] for i in range(n)],
                          [races[e] - d_races[e] for e in range(n)]) or other
        else:
            st["prefix_push_defect_dumps"] = 1
            out = [(PREFIX_KEY, "after E' = get_prefix_before(%d) and %d push_transition() on E': %s (the clock vectors of the events pushed on E' ignore E'; "
                    "the rest of the relation is as defined)" % (h, n - h, out[0][1]))]
    nhb = ntrans = nrace = 0
    for i in range(n):
        nhb += bin(succ[i]).count("1")
        ntrans += bin(succ[i] & ~dep[i]).count("1")          # ordered only through a chain
        nrace += len(races[i])
    st.update(hb_pairs=nhb, transitive_only_pairs=ntrans, racing_events=nrace)
    kinds = {}
    for t in trs:
        kinds[t[2]] = kinds.get(t[2], 0) + 1
    st["kinds"] = kinds
    outcomes = {}
    for i in range(n):
        for j in range(i + 1, n):
            if aids[i] != aids[j]:
                a, b = trs[i][2], trs[j][2]
                k = a + "/" + b if a <= b else b + "/" + a
                outcomes[k] = outcomes.get(k, 0) | (2 if dep[i] >> j & 1 else 1)
    st["outcomes"] = outcomes
    return out, st


def parse_output(text):
    """-> (list of dumps [(idx, aid, dep, hb, races)], list of other answer lines, done)"""
    dumps, other, done = [], [], False
    cur = None
    for line in text.splitlines():
        if line.startswith("Q "):
            cur = []
            dumps.append(cur)
        elif line.startswith("E "):
            f = line.split()
            cur.append((int(f[1]), int(f[2]), int(f[3], 16), int(f[4], 16), [] if f[5] == "-" else [int(x) for x in f[5].split(",")]))
        elif line.startswith("DONE"):
            done = True
        elif line:
            other.append(line)
    return dumps, other, done


def corrupt_output(text, how):
    """Oracle self-test only (VERIF_C42_CORRUPT=hb-drop|hb-add|race-drop|race-add|actor): falsifies what the harness reported
    for the first suitable event of every dump, as a defect of the Execution would."""
    out, armed = [], False
    for line in text.splitlines():
        if line.startswith("Q "):
            armed = True
        elif line.startswith("E ") and armed:
            f = line.split()
            idx, hbrow, races = int(f[1]), int(f[4], 16), f[5]
            later = ~((1 << (idx + 1)) - 1)
            if how == "hb-drop" and hbrow:
                f[4] = "%x" % (hbrow & (hbrow - 1))
                armed = False
            elif how == "hb-add":
                n = int(out[[k for k, l in enumerate(out) if l.startswith("Q ")][-1]].split()[2])
                free = ~hbrow & later & ((1 << n) - 1)
                if free:
                    f[4] = "%x" % (hbrow | (free & -free))
                    armed = False
            elif how == "race-drop" and races != "-":
                f[5] = ",".join(races.split(",")[1:]) or "-"
                armed = False
            elif how == "race-add" and idx >= 2 and races == "-":
                f[5] = "0"
                armed = False
            elif how == "actor" and idx >= 1:
                f[2] = str((int(f[2]) + 1) % 31)
                armed = False
            line = " ".join(f)
        out.append(line)
    return "\n".join(out) + "\n"


def run_chunk(args):
    """Worker (separate process): runs one batch of cases in one harness process and judges it."""
    exe, fl, cases, timeout = args
    inp = "\n".join(l for c in cases for l in c["lines"]) + "\n"
    res = proc.run([exe], stdin=inp, timeout=timeout, env=SAN_ENV)
    if res.timed_out:
        return {"inconclusive": "hb harness watchdog", "n": len(cases)}
    text = res.out
    if os.environ.get("VERIF_C42_CORRUPT"):
        text = corrupt_output(text, os.environ["VERIF_C42_CORRUPT"])
    dumps, other, done = parse_output(text)
    nq = sum(len(c["qs"]) for c in cases)
    reports = relevant_reports(res.err)
    if res.rc != 0 or not done or len(dumps) != nq or reports:
        return {"died": True, "rc": res.rc, "err": res.err[-1500:], "reports": reports, "n": len(cases),
                "answered": len(dumps), "expected": nq}
    out = {"findings": [], "stats": {}, "nontrivial": [], "n": len(cases), "modes": {}, "kinds": {}, "outcomes": {}}
    k = 0
    for c in cases:
        out["modes"][c["mode"]] = out["modes"].get(c["mode"], 0) + 1
        for trs, h in c["qs"]:
            f, st = judge_dump(trs, h, dumps[k])
            k += 1
            for key, what in f:
                out["findings"].append((key, what, {"flavour": fl, "lines": c["lines"]}))
            for name, v in st.pop("kinds", {}).items():
                out["kinds"][name] = out["kinds"].get(name, 0) + v
            for name, v in st.pop("outcomes", {}).items():
                out["outcomes"][name] = out["outcomes"].get(name, 0) | v
            for name, v in st.items():
                out["stats"][name] = out["stats"].get(name, 0) + v
            out["stats"]["dumps"] = out["stats"].get("dumps", 0) + 1
            if h is not None:
                out["stats"]["dumps_after_prefix_push"] = out["stats"].get("dumps_after_prefix_push", 0) + 1
            if not f and st.get("transitive_only_pairs", 0) >= 1 and st.get("racing_events", 0) >= 1:
                out["nontrivial"].append(" ".join(G.txt(t) for t in trs))
    return out


def run_single(ctx, fl, case):
    """Re-run one case alone (after a batch died) and report."""
    exe = build.harness("hb.cpp", fl, internal=True, deps=["mctrans.hpp"])
    r = run_chunk((exe, fl, [case], 120))
    absorb(ctx, fl, r, [case], single=True)


OUTCOMES = {}      # kind pair of different actors -> 1 (seen independent) | 2 (seen dependent)


def absorb(ctx, fl, r, cases, single=False):
    if "inconclusive" in r:
        ctx.inconclusive(r["inconclusive"])
        return
    if r.get("died"):
        if not single:
            ctx.count("batch_reruns")
            for c in cases:
                run_single(ctx, fl, c)
            return
        c = cases[0]
        tainted = any(h is not None for _, h in c["qs"])
        kind = "asan" if any(k == "asan" for k, _ in r["reports"]) else "ubsan" if r["reports"] else "crash"
        ctx.violation("C42:%s%s" % (kind, PREFIX_TAG if tainted else ""), "the hb harness died (rc=%s) on this script after answering %d of %d dumps: %s"
                      % (r["rc"], r["answered"], r["expected"], (r["reports"][:1] or [r["err"][-400:]])[0]), {"flavour": fl, "lines": c["lines"]})
        return
    ctx.evaluation(r["n"])
    for key, what, w in r["findings"]:
        ctx.violation(key, what, w)
    for name, v in r["stats"].items():
        ctx.count(name, v)
    for m, v in r["modes"].items():
        ctx.count("cases.%s.%s" % (fl, m), v)
    for name, v in r["kinds"].items():
        ctx.count("kind." + name, v)
    for name, v in r["outcomes"].items():
        OUTCOMES[name] = OUTCOMES.get(name, 0) | v
    for s in r["nontrivial"]:
        ctx.nontrivial(s)

# ---------------------------------------------------------------------------------------------------------------------


def check_cv(ctx, fl, exe, nscripts):
    for i in range(nscripts):
        lines, exp = gen_cv_script(ctx.sub_rng("cv", fl, i), 80)
        res = proc.run([exe], stdin="\n".join(lines) + "\n", timeout=120, env=SAN_ENV)
        ctx.evaluation()
        w = {"flavour": fl, "cv_lines": lines, "expected": exp}
        if res.timed_out:
            ctx.inconclusive("hb harness watchdog (clock vectors)")
            continue
        got = [l for l in res.out.splitlines() if not l.startswith("DONE")]
        if os.environ.get("VERIF_C42_CORRUPT") == "cv" and got:              # oracle self-test only
            f = got[len(got) // 2].split()
            f[1] = str(int(f[1]) + 1)
            got[len(got) // 2] = " ".join(f)
        if res.rc != 0 or len(got) != len(exp):
            ctx.violation("C42:clockvector:crash", "clock-vector script died rc=%s after %d of %d answers: %s" % (res.rc, len(got), len(exp), res.err[-300:]), w)
            continue
        for k, (g, e) in enumerate(zip(got, exp)):
            if g != e:
                ctx.violation("C42:clockvector:%s" % e.split()[0], "answer #%d of the ClockVector script is %r, the dict model says %r" % (k, g, e), w)
                break
        else:
            ctx.count("clockvector_answers", len(exp))
            if i < 2:
                ctx.nontrivial("cv-%s-%d" % (fl, i))


def run(ctx):
    OUTCOMES.clear()
    n = ctx.size(2000, 100000)
    cases = DIRECTED + [gen_case(ctx.sub_rng(i), "c%d" % i) for i in range(n)]
    ctx.sample({"script": cases[1]["lines"]})
    ctx.sample({"script": cases[len(DIRECTED)]["lines"][:14]})
    exes = {fl: build.harness("hb.cpp", fl, internal=True, deps=["mctrans.hpp"]) for fl in ("hooks", "asan")}
    chunk = 100
    jobs = []
    for fl, share in (("hooks", 1.0), ("asan", 0.15 if ctx.tier == "quick" else 0.1)):
        cs = cases[: len(DIRECTED) + max(20, int(n * share))]
        for k in range(0, len(cs), chunk):
            jobs.append((exes[fl], fl, cs[k:k + chunk], 600))
    workers = int(os.environ.get("VERIF_JOBS", min(16, multiprocessing.cpu_count())))
    with multiprocessing.Pool(workers) as pool:
        for job, r in zip(jobs, pool.imap(run_chunk, jobs)):
            absorb(ctx, job[1], r, job[2])
    for fl in ("hooks", "asan"):
        check_cv(ctx, fl, exes[fl], ctx.size(8, 60) if fl == "hooks" else ctx.size(3, 10))
    # which dependency outcomes the real dispatch_depends gave, per pair of kinds, between events of different actors
    ctx.count("kind_pairs.seen", len(OUTCOMES))
    ctx.count("kind_pairs.seen_dependent", sum(1 for v in OUTCOMES.values() if v & 2))
    ctx.count("kind_pairs.seen_independent", sum(1 for v in OUTCOMES.values() if v & 1))
    ctx.count("kind_pairs.seen_both_outcomes", sum(1 for v in OUTCOMES.values() if v == 3))
    missing = sorted(set(G._FAMILY) - {k for p in OUTCOMES for k in p.split("/")})
    if missing and ctx.tier == "quick" and n >= 2000:
        raise core.HarnessFailure("transition kinds never met in a dumped execution: %s" % missing)


def replay(ctx, w):
    fl = w.get("flavour", "hooks")
    exe = build.harness("hb.cpp", fl, internal=True, deps=["mctrans.hpp"])
    if "cv_lines" in w:
        res = proc.run([exe], stdin="\n".join(w["cv_lines"]) + "\n", timeout=120, env=SAN_ENV)
        got = [l for l in res.out.splitlines() if not l.startswith("DONE")]
        ctx.evaluation()
        for k, (g, e) in enumerate(zip(got, w["expected"])):
            if g != e:
                ctx.violation("C42:clockvector:%s" % e.split()[0], "answer #%d is %r, model says %r" % (k, g, e), w)
                return
        if res.rc != 0 or len(got) != len(w["expected"]):
            ctx.violation("C42:clockvector:crash", "script died rc=%s" % res.rc, w)
        return
    case = {"id": "replay", "mode": "replay", "lines": w["lines"], "qs": simulate(w["lines"])}
    r = run_chunk((exe, fl, [case], 120))
    absorb(ctx, fl, r, [case], single=True)
