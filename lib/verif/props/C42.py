"""C42 Happens-before equals transitive dependency.

Monitor: generated sequences of real checker-side transitions (built through Channel::reinject + deserialize_transition) are
pushed into the real odpor::Execution - also through the backtracking paths the explorers use (remove_last_event, copies,
Execution(PartialExecution), get_prefix_before) - and the harness prints, for every event, the row of dispatch_depends(),
the row of happens_before() and get_racing_events_of(). Python recomputes happens-before from the definition (chains of
pairwise dependent events, using the checker's own dependency answers) and the racing events from theirs, and compares
every ordered pair and every event. ClockVector / Clock are driven by operation scripts against a dict model.
"""
import multiprocessing
import os

from verif import build, proc
from verif.gen import mctrans as G

META = {
    "id": "C42", "engine": "E4 unit harness", "engine_path": "harness/hb.cpp",
    "engine_kind": "C++ driver linked to the real libsimgrid (private headers), scripts on stdin, Python reference",
    "level": "exploration",
    "technique": "definitional reference (chains of pairwise dispatch_depends-dependent events; maximal predecessors of other actors) "
                 "compared with Execution::happens_before on every ordered pair and get_racing_events_of on every event; dict model for ClockVector",
    "level_text": "Every generated execution (2-40 real transitions of all observable kinds - mutex, semaphore, barrier, condvar, comm incl. "
                  "TestAny/WaitAny, actor create/join/exit/sleep, random - over 2-6 actors and 1-3 objects per kind, both arbitrary sequences "
                  "and interleavings of program-like per-actor scripts) is recorded by the real Execution, partly through push/"
                  "remove_last_event detours, copies and rebuilds as the explorers do. The full n x n happens_before matrix and the racing "
                  "events of every event are compared with a reference computed in Python from the definition, with the dependency "
                  "relation read from the real dispatch_depends (whose symmetry is checked on every pair met).",
    "level_note": "The dependency relation itself is trusted here (it is C39's subject): only its symmetry is checked. Sequences need not be "
                  "feasible runs of a program: both sides are pure functions of the sequence. Runs on the plain and the ASan+UBSan flavour.",
    "rule": "case = one dumped execution; non-trivial = distinct executions with >=1 happens-before pair of different actors that holds only "
            "through a chain (no direct dependency) and >=1 racing event",
    "assumptions": ["dispatch_depends() is the dependency relation (C39)", "actor ids <= 30 (static_config::max_threads)"],
    "ready": False,
}

PREFIX_TAG = ":after-get_prefix_before"

# Channel::unpack<T>() reads `*(T*)got` at whatever offset the previous fields left (a bool followed by an aid_t is the rule in
# the transition wire format): UBSan reports a misaligned load inside the checker's deserialiser for most transitions. That is
# the wire format's business, not this property's: UBSan is told to go on, and only *other* reports are judged.
SAN_ENV = {"UBSAN_OPTIONS": "print_stacktrace=0:halt_on_error=0:exitcode=87"}


def relevant_reports(err):
    return [(k, l) for k, l in proc.sanitizer_reports(err) if not ("Channel.hpp" in l and "misaligned address" in l)]

# ---------------------------------------------------------------------------------------------------------------------
# generation


def gen_case(rng, cid):
    """Returns (script lines, expected dumps).  expected = list of (list of transitions at the Q, tainted) in Q order;
    tainted = a push happened after get_prefix_before replaced the execution (known finding F-prefix)."""
    n = rng.choice([2, 3, 5, 8, 12, 20, 30, 40, rng.randrange(2, 41)])
    nact = rng.randrange(2, 7)
    fams = rng.sample(G.FAMILIES, rng.randrange(1, len(G.FAMILIES) + 1)) if rng.random() < 0.7 else list(G.FAMILIES)
    if rng.random() < 0.6:
        seq = G.soup(rng, n, nact, fams)
        mode = "soup"
    else:
        env, progs = G.program(rng, nact, max(1, (n + nact - 1) // nact + 1), fams)
        seq = G.interleave(rng, progs, n)
        mode = "program"
    lines = ["X %s" % cid]
    cur, qs = [], []
    tainted = False
    prefixed = False
    style = rng.random()
    junk_env = G.Env(rng, sorted({t[0] for t in seq}), fams)
    for i, t in enumerate(seq):
        if style < 0.5 and rng.random() < 0.15 and len(cur) + 4 <= 40 and not prefixed:       # a backtracking detour
            k = rng.randrange(1, 4)
            for _ in range(k):
                lines.append("P " + G.txt(G.rand_transition(junk_env, junk_env.actor())))
            lines += ["R"] * k
        lines.append("P " + G.txt(t))
        cur.append(t)
        if prefixed:
            tainted = True
        if style < 0.5 and rng.random() < 0.05:
            lines.append(rng.choice(["K", "W"]))
            prefixed = False if lines[-1] == "W" else prefixed
        if 0.5 <= style < 0.6 and rng.random() < 0.1 and len(cur) >= 2:
            lines.append("Q")
            qs.append((list(cur), tainted))
    x = rng.random()
    if x < 0.12 and len(cur) >= 2:                       # the prefix alone: its recorded relation must be the restriction
        h = rng.randrange(1, len(cur) + 1)
        lines.append("F %d" % h)
        cur = cur[:h]
        if rng.random() < 0.25:                          # ... and, rarely, events pushed on top of a prefix
            prefixed = True
            for t in seq[h:h + rng.randrange(1, 6)]:
                lines.append("P " + G.txt(t))
                cur.append(t)
                tainted = True
    lines.append("Q")
    qs.append((list(cur), tainted))
    return {"id": cid, "mode": mode, "lines": lines, "qs": qs}


DIRECTED = [
    # minimal witness of the open finding: events pushed on an Execution returned by get_prefix_before ignore the prefix
    {"id": "d-prefix", "mode": "directed", "lines": ["X d-prefix", "P 1 0 ML 0 1", "P 2 0 ML 0 1", "F 1", "P 2 0 ML 0 1", "Q"],
     "qs": [([(1, 0, "ML", 0, 1), (2, 0, "ML", 0, 1)], True)]},
    # three actors, a chain through a third actor and two races (ODPOR paper style)
    {"id": "d-chain", "mode": "directed", "lines": ["X d-chain", "P 1 0 ML 0 1", "P 2 0 ML 0 2", "P 2 0 SU 0 0 1", "P 3 0 SW 0 1 0", "P 1 0 MW 0 1", "Q"],
     "qs": [([(1, 0, "ML", 0, 1), (2, 0, "ML", 0, 2), (2, 0, "SU", 0, 0, 1), (3, 0, "SW", 0, 1, 0), (1, 0, "MW", 0, 1)], False)]},
]


def gen_cv_script(rng, nops):
    """Operations on ClockVector registers with a dict model: returns (lines, expected answers)."""
    vals = [0, 0, 1, 2, 3, 7, 40, 2**31 - 1, 2**31, 2**32 - 2, -1]
    lines, exp = [], []
    regs = {}

    def newreg():
        r = rng.randrange(6)
        return r
    for _ in range(nops):
        op = rng.choice("NISSSSGGGMMLLDO") if regs else rng.choice("NI")
        if op == "N":
            r = newreg()
            regs[r] = {}
            lines.append("V N %d" % r)
        elif op == "I":
            r, v = newreg(), rng.choice(vals)
            regs[r] = {} if v < 0 else {a: v for a in range(31)}
            lines.append("V I %d %d" % (r, v))
        elif op == "S":
            r, a, v = rng.choice(sorted(regs)), rng.choice([0, 1, 2, 3, 29, 30, rng.randrange(31)]), rng.choice(vals)
            if v < 0:
                regs[r].pop(a, None)
            else:
                regs[r][a] = v
            lines.append("V S %d %d %d" % (r, a, v))
        elif op == "G":
            r, a = rng.choice(sorted(regs)), rng.choice([-1, 0, 1, 2, 30, rng.randrange(31)])
            lines.append("V G %d %d" % (r, a))
            exp.append("G %d" % (regs[r].get(a, -1) if a >= 0 else -1))
        elif op == "M":
            r, a, b = newreg(), rng.choice(sorted(regs)), rng.choice(sorted(regs))
            regs[r] = {k: max(regs[a].get(k, -1), regs[b].get(k, -1)) for k in set(regs[a]) | set(regs[b])}
            lines.append("V M %d %d %d" % (r, a, b))
        elif op == "L":
            a, b = rng.choice(sorted(regs)), rng.choice(sorted(regs))
            regs[a] = {k: max(regs[a].get(k, -1), regs[b].get(k, -1)) for k in set(regs[a]) | set(regs[b])}
            lines.append("V L %d %d" % (a, b))
        elif op == "D":
            r = rng.choice(sorted(regs))
            lines.append("V D %d" % r)
            exp.append("D " + " ".join(str(regs[r].get(a, -1)) for a in range(31)))
        else:
            a, b = rng.choice(vals), rng.choice(vals)
            lines.append("V O %d %d" % (a, b))
            exp.append("O %d %d %d" % (a < b, a == b, a > b))
    for r in sorted(regs):
        lines.append("V D %d" % r)
        exp.append("D " + " ".join(str(regs[r].get(a, -1)) for a in range(31)))
    return lines, exp

# ---------------------------------------------------------------------------------------------------------------------
# oracle


def reference(aids, dep):
    """Definition-level reference. dep[i] = bitmask of the events dependent with event i (the checker's own answers).
    pred[j] = set (bitmask) of events i < j from which a chain of pairwise dependent events, increasing in position, leads to j."""
    n = len(aids)
    pred = [0] * n
    for j in range(n):
        m = 0
        for i in range(j):
            if dep[i] >> j & 1:
                m |= pred[i] | (1 << i)
        pred[j] = m
    succ = [0] * n
    for j in range(n):
        m = pred[j]
        i = 0
        while m:
            if m & 1:
                succ[i] |= 1 << j
            m >>= 1
            i += 1
    races = []
    for e in range(n):
        rs = set()
        for i in range(e):
            # i races with e: different actors, i happens before e, and no event lies in between in the relation
            if pred[e] >> i & 1 and aids[i] != aids[e] and not (succ[i] & pred[e]):
                rs.add(i)
        races.append(rs)
    return pred, succ, races


def judge_dump(trs, tainted, events, corrupt=None):
    """events = list of (idx, aid, dep, hb, races). Returns (findings, stats). findings = list of (key, what)."""
    out = []
    n = len(events)
    st = {"events": n, "pairs": n * n}
    tag = PREFIX_TAG if tainted else ""
    if n != len(trs):
        return [("C42:size" + tag, "the execution holds %d events, %d were pushed" % (n, len(trs)))], st
    aids = [e[1] for e in events]
    dep = [e[2] for e in events]
    hb = [e[3] for e in events]
    if corrupt:
        corrupt(aids, dep, hb, events)
    for i in range(n):
        if aids[i] != trs[i][0]:
            out.append(("C42:actor" + tag, "event %d is recorded for actor %d, pushed for actor %d" % (i, aids[i], trs[i][0])))
        for j in range(n):
            if (dep[i] >> j & 1) != (dep[j] >> i & 1):
                a, b = sorted([trs[i][2], trs[j][2]])
                out.append(("C42:dep-asymmetric:%s/%s" % (a, b), "dispatch_depends is not symmetric on (%s) / (%s)" % (G.txt(trs[i]), G.txt(trs[j]))))
    if out:
        return out, st
    pred, succ, races = reference(aids, dep)
    nhb = ntrans = 0
    for i in range(n):
        row = hb[i]
        if row != succ[i]:
            diff = row ^ succ[i]
            j = (diff & -diff).bit_length() - 1
            if j <= i:
                out.append(("C42:hb:not-before" + tag, "happens_before(%d,%d) is true although event %d does not occur before event %d" % (i, j, i, j)))
            elif row >> j & 1:
                out.append(("C42:hb:spurious" + tag, "happens_before(%d,%d) is true but no chain of pairwise dependent events leads from %d (%s) to %d (%s)"
                            % (i, j, i, G.txt(trs[i]), j, G.txt(trs[j]))))
            else:
                out.append(("C42:hb:missing" + tag, "happens_before(%d,%d) is false but a chain of pairwise dependent events leads from %d (%s) to %d (%s)"
                            % (i, j, i, G.txt(trs[i]), j, G.txt(trs[j]))))
        m = succ[i]
        nhb += bin(m).count("1")
        # pairs of different actors ordered only transitively
        t = m & ~dep[i]
        ntrans += bin(t).count("1")
    nrace = 0
    for e in range(n):
        got = events[e][4]
        if len(set(got)) != len(got):
            out.append(("C42:race:duplicate" + tag, "get_racing_events_of(%d) lists an event twice: %r" % (e, got)))
        got = set(got)
        if got != races[e]:
            extra, miss = sorted(got - races[e]), sorted(races[e] - got)
            if extra:
                x = extra[0]
                why = "the same actor" if x < n and aids[x] == aids[e] else "not before it" if x >= e else \
                    "not happening before it" if not pred[e] >> x & 1 else "not maximal (event %d lies in between)" % ((succ[x] & pred[e]).bit_length() - 1)
                out.append(("C42:race:spurious" + tag, "get_racing_events_of(%d) contains %d which is %s; definition gives %r, got %r" % (e, x, why, sorted(races[e]), sorted(got))))
            else:
                out.append(("C42:race:missing" + tag, "get_racing_events_of(%d) misses %d, a maximal predecessor of another actor; definition gives %r, got %r"
                            % (e, miss[0], sorted(races[e]), sorted(got))))
        nrace += len(races[e])
    st.update(hb_pairs=nhb, transitive_only_pairs=ntrans, racing_events=nrace)
    return out, st


def parse_output(text):
    """-> (list of dumps [(idx, aid, dep, hb, races)], list of other answer lines, done)"""
    dumps, other, done = [], [], False
    cur = None
    for line in text.splitlines():
        if line.startswith("Q "):
            cur = []
            dumps.append(cur)
        elif line.startswith("E "):
            f = line.split()
            cur.append((int(f[1]), int(f[2]), int(f[3], 16), int(f[4], 16), [] if f[5] == "-" else [int(x) for x in f[5].split(",")]))
        elif line.startswith("DONE"):
            done = True
        elif line:
            other.append(line)
    return dumps, other, done


def run_chunk(args):
    """Worker (separate process): runs one batch of cases in one harness process and judges it."""
    exe, fl, cases, timeout = args
    inp = "\n".join(l for c in cases for l in c["lines"]) + "\n"
    res = proc.run([exe], stdin=inp, timeout=timeout, env=SAN_ENV)
    if res.timed_out:
        return {"inconclusive": "hb harness watchdog", "n": len(cases)}
    dumps, other, done = parse_output(res.out)
    nq = sum(len(c["qs"]) for c in cases)
    reports = relevant_reports(res.err)
    if res.rc != 0 or not done or len(dumps) != nq or reports:
        return {"died": True, "rc": res.rc, "err": res.err[-1500:], "reports": reports, "n": len(cases),
                "answered": len(dumps), "expected": nq}
    out = {"findings": [], "stats": {}, "nontrivial": [], "n": len(cases), "modes": {}}
    k = 0
    for c in cases:
        out["modes"][c["mode"]] = out["modes"].get(c["mode"], 0) + 1
        for trs, tainted in c["qs"]:
            f, st = judge_dump(trs, tainted, dumps[k])
            k += 1
            for key, what in f:
                out["findings"].append((key, what, {"flavour": fl, "lines": c["lines"], "qs": c["qs"]}))
            for name, v in st.items():
                out["stats"][name] = out["stats"].get(name, 0) + v
            out["stats"]["dumps"] = out["stats"].get("dumps", 0) + 1
            if tainted:
                out["stats"]["dumps_after_prefix_push"] = out["stats"].get("dumps_after_prefix_push", 0) + 1
            if not f and st.get("transitive_only_pairs", 0) >= 1 and st.get("racing_events", 0) >= 1:
                out["nontrivial"].append(" ".join(G.txt(t) for t in trs))
    return out


def run_single(ctx, fl, case):
    """Re-run one case alone (after a batch died) and report."""
    exe = build.harness("hb.cpp", fl, internal=True, deps=["mctrans.hpp"])
    r = run_chunk((exe, fl, [case], 120))
    absorb(ctx, fl, r, [case], single=True)


def absorb(ctx, fl, r, cases, single=False):
    if "inconclusive" in r:
        ctx.inconclusive(r["inconclusive"])
        return
    if r.get("died"):
        if not single:
            ctx.count("batch_reruns")
            for c in cases:
                run_single(ctx, fl, c)
            return
        c = cases[0]
        tainted = any(t for _, t in c["qs"]) or any(l.startswith("F") for l in c["lines"])
        kind = "asan" if any(k == "asan" for k, _ in r["reports"]) else "ubsan" if r["reports"] else "crash"
        ctx.violation("C42:%s%s" % (kind, PREFIX_TAG if tainted else ""), "the hb harness died (rc=%s) on this script after answering %d of %d dumps: %s"
                      % (r["rc"], r["answered"], r["expected"], (r["reports"][:1] or [r["err"][-400:]])[0]), {"flavour": fl, "lines": c["lines"], "qs": c["qs"]})
        return
    ctx.evaluation(r["n"])
    for key, what, w in r["findings"]:
        ctx.violation(key, what, w)
    for name, v in r["stats"].items():
        ctx.count(name, v)
    for m, v in r["modes"].items():
        ctx.count("cases.%s.%s" % (fl, m), v)
    for s in r["nontrivial"]:
        ctx.nontrivial(s)

# ---------------------------------------------------------------------------------------------------------------------


def check_cv(ctx, fl, exe, nscripts):
    for i in range(nscripts):
        lines, exp = gen_cv_script(ctx.sub_rng("cv", fl, i), 80)
        res = proc.run([exe], stdin="\n".join(lines) + "\n", timeout=120, env=SAN_ENV)
        ctx.evaluation()
        w = {"flavour": fl, "cv_lines": lines, "expected": exp}
        if res.timed_out:
            ctx.inconclusive("hb harness watchdog (clock vectors)")
            continue
        got = [l for l in res.out.splitlines() if not l.startswith("DONE")]
        if res.rc != 0 or len(got) != len(exp):
            ctx.violation("C42:clockvector:crash", "clock-vector script died rc=%s after %d of %d answers: %s" % (res.rc, len(got), len(exp), res.err[-300:]), w)
            continue
        for k, (g, e) in enumerate(zip(got, exp)):
            if g != e:
                ctx.violation("C42:clockvector:%s" % e.split()[0], "answer #%d of the ClockVector script is %r, the dict model says %r" % (k, g, e), w)
                break
        else:
            ctx.count("clockvector_answers", len(exp))
            if i < 2:
                ctx.nontrivial("cv-%s-%d" % (fl, i))


def run(ctx):
    n = ctx.size(2000, 100000)
    cases = DIRECTED + [gen_case(ctx.sub_rng(i), "c%d" % i) for i in range(n)]
    ctx.sample({"script": cases[1]["lines"]})
    ctx.sample({"script": cases[len(DIRECTED)]["lines"][:14]})
    exes = {fl: build.harness("hb.cpp", fl, internal=True, deps=["mctrans.hpp"]) for fl in ("hooks", "asan")}
    chunk = 100
    jobs = []
    for fl, share in (("hooks", 1.0), ("asan", 0.15 if ctx.tier == "quick" else 0.1)):
        cs = cases[: len(DIRECTED) + max(20, int(n * share))]
        for k in range(0, len(cs), chunk):
            jobs.append((exes[fl], fl, cs[k:k + chunk], 600))
    workers = int(os.environ.get("VERIF_JOBS", min(16, multiprocessing.cpu_count())))
    with multiprocessing.Pool(workers) as pool:
        for job, r in zip(jobs, pool.imap(run_chunk, jobs)):
            absorb(ctx, job[1], r, job[2])
    for fl in ("hooks", "asan"):
        check_cv(ctx, fl, exes[fl], ctx.size(8, 60) if fl == "hooks" else ctx.size(3, 10))


def replay(ctx, w):
    fl = w.get("flavour", "hooks")
    exe = build.harness("hb.cpp", fl, internal=True, deps=["mctrans.hpp"])
    if "cv_lines" in w:
        res = proc.run([exe], stdin="\n".join(w["cv_lines"]) + "\n", timeout=120, env=SAN_ENV)
        got = [l for l in res.out.splitlines() if not l.startswith("DONE")]
        ctx.evaluation()
        for k, (g, e) in enumerate(zip(got, w["expected"])):
            if g != e:
                ctx.violation("C42:clockvector:%s" % e.split()[0], "answer #%d is %r, model says %r" % (k, g, e), w)
                return
        if res.rc != 0 or len(got) != len(w["expected"]):
            ctx.violation("C42:clockvector:crash", "script died rc=%s" % res.rc, w)
        return
    case = {"id": "replay", "mode": "replay", "lines": w["lines"], "qs": [([tuple(t) for t in trs], tainted) for trs, tainted in w["qs"]]}
    r = run_chunk((exe, fl, [case], 120))
    absorb(ctx, fl, r, [case], single=True)
