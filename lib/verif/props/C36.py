"""C36 Each rank has its own copy of global variables (smpi/privatization mmap | dlopen)."""
import os
import shutil
import subprocess
import tempfile
import threading

from verif import build, core, proc
from verif.gen import mpi

META = {
    "id": "C36", "engine": "E5 smpi programs", "engine_path": "harness/mpi/globals.c",
    "engine_kind": "MPI C program (2 translation units + a static library) run under the real smpirun/SMPI, checking every global "
                   "against a per-rank heap shadow after every rank-switching call",
    "level": "exploration",
    "technique": "per-rank shadow model of 26 global/static variables of 12 kinds, every byte compared after every rank-switching call of "
                 "seeded schedules; rank/step-coded values so that a foreign write is attributed to its writer; blind-spot probe with "
                 "privatisation off",
    "level_text": "One program with initialised .data, .bss, file statics, function-local statics, multi-page arrays, a const pointer to a "
                  "global, an initialised pointer into a global array, globals and statics of a second translation unit, state of a "
                  "statically linked library (written by the library's own code too), thread-locals, and four global arrays used directly "
                  "as MPI send/receive buffers (below and above smpi/send-is-detached-thresh). Seeded schedules of 20-60 steps; a step = "
                  "rank-chosen writes of rank/step-coded words, then one of 18 rank-switching calls (Barrier, blocking ping-pong, Gather, Scatter, Scan, Win_fence+Put into / Get out of a global window, "
                  "Isend/Irecv/Waitall ring, Sendrecv ring, smpi_execute, usleep, Bcast, Allreduce, Alltoall, Allgather, Reduce with a "
                  "user-defined operation that reads a global, Irecv+Test polling, Ssend), then EVERY byte of every variable is compared "
                  "with the shadow. Also: the initial values seen at program start (before MPI_Init, while earlier ranks have already "
                  "dirtied theirs), survival across MPI_Init and up to MPI_Finalize. 2-16 ranks on 1-5 hosts (several ranks per "
                  "host), smpi/privatization mmap, dlopen and yes, contexts raw/thread. A run with privatisation off must be flagged "
                  "(otherwise the run is a harness failure).",
    "level_note": "What the documentation excludes is not judged: globals of dynamic libraries (none used), and thread-local variables "
                  "under mmap (only .data/.bss are switched; they are observed and counted as notes). Hooks flavour only (SMPI under ASan "
                  "reports inside the sanitizer's sigaltstack interceptor). One fixed set of variables; the schedules, rank counts, "
                  "mappings, modes and the optimisation level of the program (-O0/-O1/-O2) vary.",
    "rule": "case = (np, hosts, seed -> schedule of steps, privatization mode, context factory); non-trivial = at least 2 ranks, every rank "
            "reached its SUM line after all planned steps; distinct by (np, hosts, seed, steps, mode, factory, optimisation level of the program)",
    "ready": True,
}

_lock = threading.Lock()


def build_exe(opt="-O1"):
    """libverifglob.a (static library) + globals.c + globals2.c -> MPI binary."""
    b = build.ensure("hooks")
    hdir = os.path.join(build.ROOT, "harness", "mpi")
    outdir = os.path.join(b, "verif-harness")
    os.makedirs(outdir, exist_ok=True)
    lib = os.path.join(outdir, "libverifglob.a")
    src = os.path.join(hdir, "globlib.c")
    with _lock:
        if not os.path.exists(lib) or os.path.getmtime(lib) < max(os.path.getmtime(src), os.path.getmtime(os.path.join(hdir, "globals_shared.h"))):
            tmp = tempfile.mkdtemp(prefix="verif-C36-lib-")
            try:
                subprocess.run(["cc", "-O1", "-fPIC", "-I" + hdir, "-c", src, "-o", os.path.join(tmp, "globlib.o")], check=True)
                subprocess.run(["ar", "rcs", os.path.join(tmp, "libverifglob.a"), os.path.join(tmp, "globlib.o")], check=True)
                os.replace(os.path.join(tmp, "libverifglob.a"), lib)
            finally:
                shutil.rmtree(tmp, ignore_errors=True)
    extra = [opt, "-I" + hdir, os.path.join(hdir, "globals2.c"), "-Wl,--whole-archive", lib, "-Wl,--no-whole-archive"]
    return build.smpicc("mpi/globals.c", "hooks", extra=extra, deps=["mpi/globals2.c", "mpi/globlib.c", "mpi/globals_shared.h", lib])


def smpirun(exe, case, hostfile, timeout=600):
    cmd = [build.smpirun("hooks"), "-np", str(case["np"]), "-hostfile", hostfile, "-platform", mpi.PLATFORM, "--cfg=smpi/host-speed:1Gf",
           "--log=root.thres:error", "--cfg=smpi/privatization:%s" % case["mode"]]
    if case.get("factory"):
        cmd.append("--cfg=contexts/factory:%s" % case["factory"])
    hmode = "dlopen" if case["mode"] in ("dlopen", "yes") else case["mode"]
    cmd += [exe[case.get("opt") or "-O1"], str(case["seed"]), str(case["steps"]), hmode]
    if os.environ.get("VERIF_C36_SELFTEST") and case.get("selftest"):
        cmd.append("selftest-corrupt")     # oracle self-test: the harness plants a foreign value in rank 1 (see FRAMEWORK.md)
    return proc.run(cmd, timeout=timeout)


def parse(out):
    bads, notes, sums, crash, plan = [], [], {}, None, None
    for l in out.splitlines():
        if l.startswith("BAD "):
            bads.append(dict(kv.split("=", 1) for kv in l.split()[1:] if "=" in kv) | {"line": l})
        elif l.startswith("NOTE "):
            notes.append(l)
        elif l.startswith("SUM "):
            d = dict(kv.split("=", 1) for kv in l.split()[1:])
            sums[int(d["rank"])] = {k: int(v) for k, v in d.items()}
        elif l.startswith("CRASH"):
            crash = l
        elif l.startswith("PLAN "):
            plan = l
        elif l.startswith("OPS"):
            plan = (plan or "") + " " + l
        elif l.startswith("HARNESS"):
            raise core.HarnessFailure("globals harness: " + l)
    return bads, notes, sums, crash, plan


def judge(ctx, case, res):
    """-> True when the run was fully observed and clean."""
    bads, notes, sums, crash, plan = parse(res.out)
    mode = case["mode"]
    w = {"case": case}
    tag = "np=%d hosts=%d seed=%d steps=%d mode=%s factory=%s opt=%s" % (case["np"], case["hosts"], case["seed"], case["steps"], mode,
                                                                        case.get("factory") or "default", case.get("opt") or "-O1")
    seen = set()
    for b in bads:
        key = "C36:%s:%s:%s:%s" % (b.get("rule"), "dlopen" if mode == "yes" else mode, b.get("kind"), b.get("op"))
        if key in seen:
            continue
        seen.add(key)
        ctx.violation(key, "%s | %s" % (b["line"], tag), w)
    if crash:
        op = crash.split("op=")[1].split()[0]
        ctx.violation("C36:crash:%s:%s" % (mode, op), "%s | %s | %s" % (crash, tag, res.err.strip()[-300:]), w)
        return False
    ok = True
    if res.rc != 0 or len(sums) != case["np"] or any(s["steps"] != case["steps"] for s in sums.values()):
        ctx.violation("C36:abort:%s" % mode, "smpirun rc=%s, %d of %d ranks reached the end | %s | %s" %
                      (res.rc, len(sums), case["np"], tag, res.err.strip()[-300:]), w)
        return False
    nb = sum(s["bad"] for s in sums.values())
    if nb and not bads:
        raise core.HarnessFailure("C36: SUM lines count %d bad events but no BAD line was parsed" % nb)
    ctx.count("variable_checks", sum(s["checks"] for s in sums.values()))
    ctx.count("bytes_compared", sum(s["bytes"] for s in sums.values()))
    ctx.count("rank_specific_writes", sum(s["writes"] for s in sums.values()))
    ctx.count("rank_switching_calls", case["steps"] * case["np"])
    ctx.count("unjudged.thread_local_shared_under_%s" % mode, sum(s["notes"] for s in sums.values()))
    ctx.count("runs.%s" % mode)
    if plan and " OPS" in plan:
        for kv in plan.split(" OPS", 1)[1].split():
            ctx.count("calls.%s" % kv.split("=")[0], int(kv.split("=")[1]) * case["np"])
    return ok and not bads


def gen_case(rng, i):
    nps = [2, 3, 4, 5, 6, 8, 11, 16]
    np_ = nps[i % len(nps)] if i % 4 else rng.randint(2, 16)
    mode = ["mmap", "dlopen"][i % 2] if i % 7 else "yes"
    factory = rng.choice([None, None, None, "thread"])
    return {"np": np_, "hosts": rng.choice([1, 2, 3, 5, 5]), "seed": rng.randrange(1, 1000000), "steps": rng.randint(20, 60), "mode": mode,
            "factory": factory, "opt": rng.choice(OPTS)}


OPTS = ["-O1", "-O1", "-O2", "-O0"]


def build_all():
    return {o: build_exe(o) for o in sorted(set(OPTS))}


def hostfiles(tmpd):
    out = {}
    for n in (1, 2, 3, 5):
        p = os.path.join(tmpd, "hosts%d" % n)
        with open(p, "w") as f:
            f.write("\n".join(mpi.HOSTS[:n]) + "\n")
        out[n] = p
    return out


def run(ctx):
    exe = build_all()
    n = ctx.size(30, 3000)
    tmpd = tempfile.mkdtemp(prefix="verif-C36-")
    try:
        hf = hostfiles(tmpd)
        # blind-spot probe: without privatisation the monitor must see other ranks' writes
        probe = {"np": 4, "hosts": 2, "seed": 7, "steps": 12, "mode": "no", "factory": None}
        res = smpirun(exe, probe, hf[2])
        if res.timed_out:
            ctx.inconclusive("smpirun watchdog (probe)")
        else:
            bads = parse(res.out)[0]
            if not any(b.get("rule") == "foreign" for b in bads):
                raise core.HarnessFailure("C36: the monitor does not see shared globals with smpi/privatization:no: " + res.out[-400:] + res.err[-400:])
            ctx.count("probe.foreign_writes_seen_without_privatization", len(bads))
        # directed: the documented defaults, few and many ranks
        directed = [{"np": np_, "hosts": h, "seed": 1, "steps": 25, "mode": m, "factory": None}
                    for (np_, h, m) in ((2, 1, "mmap"), (2, 1, "dlopen"), (16, 5, "mmap"), (16, 5, "dlopen"))]
        directed[0]["selftest"] = True
        cases = directed + [gen_case(ctx.sub_rng(i), i) for i in range(n)]

        def one(case):
            res = smpirun(exe, case, hf[case["hosts"]])
            ctx.evaluation()
            if res.timed_out:
                ctx.inconclusive("smpirun watchdog", case)
                return
            if judge(ctx, case, res):
                ctx.nontrivial(case)
                ctx.sample(case)
        ctx.pmap(one, cases)
    finally:
        shutil.rmtree(tmpd, ignore_errors=True)


def replay(ctx, w):
    exe = build_all()
    tmpd = tempfile.mkdtemp(prefix="verif-C36-")
    try:
        hf = hostfiles(tmpd)
        case = w["case"]
        res = smpirun(exe, case, hf[case["hosts"]])
        ctx.evaluation()
        if res.timed_out:
            ctx.inconclusive("smpirun watchdog", case)
        else:
            judge(ctx, case, res)
    finally:
        shutil.rmtree(tmpd, ignore_errors=True)
