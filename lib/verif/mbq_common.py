"""Shared driver of C08 (mailboxes) and C09 (message queues): batches of generated scenarios through harness/mbq.cpp, one
replay of the boundary log per scenario through oracles/mbq.py, verdict routing.

A batch = one process = one platform + N scenarios run one after the other in simulated time (each scenario has its own
mailboxes/queues/actors; see the harness). A witness is {"flavour", "plat", "scenarios": [...], "index": k}: the scenario judged is
scenarios[k]; the ones before it are kept only when the violation does not reproduce with scenarios[k] alone.
"""
import fnmatch
import re

from verif import build, core, proc
from verif.gen import mbq as G
from verif.oracles import mbq as O

HARNESS = "mbq.cpp"


def exe(fl):
    return build.harness(HARNESS, fl, internal=True)


def run_batch(fl, plat, scs):
    t = (240 + 10 * len(scs)) * (3 if fl == "asan" else 1)
    cmd = [exe(fl), "--log=root.thres:critical"]
    if fl == "asan":
        # actors as threads: with the default raw contexts ASan reports a false positive inside its own sigaltstack interceptor when
        # SimGrid unwinds the actors that are still blocked at the end of a run (google/sanitizers issue 189); the schedule is the same
        cmd.append("--cfg=contexts/factory:thread")
    return proc.run(cmd, stdin=G.to_input(plat, scs), timeout=t)


_known = {}
_confirmed = set()


def is_known(prop, key):
    if prop not in _known:
        _known[prop] = [k for k in core.load_known() if k.get("property") == prop and k.get("status") == "open"]
    return any(k.get("key") == key or ("key_glob" in k and fnmatch.fnmatchcase(key, k["key_glob"])) for k in _known[prop])


def crash_kind(res):
    reps = proc.sanitizer_reports(res.err)
    if reps:
        kind, line = reps[0]
        m = re.search(r"AddressSanitizer: ([A-Za-z0-9-]+)", line)
        return "%s-%s" % (kind, m.group(1) if m else "report")
    sig = res.signal
    if sig == 6:
        return "abort"
    if sig == 11:
        return "segv"
    if res.rc == 0:
        return None
    return "rc=%s" % res.rc


class Judgement:
    """what one scenario of a batch gave"""

    def __init__(self):
        self.violations = []     # (key, what)
        self.result = None       # oracle Result
        self.status = "ok"       # ok | not-run | watchdog


def judge(prop, res, scs):
    """-> list of Judgement, one per scenario of the batch"""
    logs, ended, last = O.split_groups(res.out)
    last = min(last, len(scs) - 1)      # (a corrupted process may print a wild group number)
    crash = None if res.timed_out else crash_kind(res)
    # a crash after SimGrid announced the final deadlock happened while the engine was killing the actors that were still blocked:
    # every scenario of the batch was run to its end (only the end-of-run slot checks are missing)
    at_exit = bool(crash) and not ended and "Deadlock detected" in (res.err or "")
    out = []
    tainted = False     # C09: a timeout on a message-queue activity leaves dangling pointers in the kernel (open known findings):
    #                     what the same process shows afterwards, in any scenario, is keyed ':after-timeout'
    for k, sc in enumerate(scs):
        j = Judgement()
        out.append(j)
        if res.timed_out:
            j.status = "watchdog"
            continue
        if crash and not at_exit and (k > last or last < 0):
            j.status = "not-run"
            continue
        done = ended or at_exit or (k < last)
        r = O.replay(logs.get(k, ""), prop, ended=done and not (crash and not at_exit and k == last), tainted=tainted)
        tainted = tainted or r.after_timeout
        j.result = r
        j.violations = [(key, what) for key, what in r.violations]
    if crash and not res.timed_out and last >= 0:
        ctxs = [(j.result.qcrash_context if prop == "C09" else j.result.mcontext) if j.result else "plain" for j in out]
        if at_exit:
            # blame the first scenario in which a defect known to leave dangling kernel state was triggered, else the last one
            k = next((i for i, c in enumerate(ctxs) if c not in ("plain", "permanent")), last)
            where = "while the engine killed the actors still blocked at the end of the batch"
        else:
            k = last
            where = "while running this scenario"
        j = out[k]
        if not any(not key.endswith("payload-rewritten-after-delivery") for key, _ in j.violations):
            tail = (res.err or "").strip().splitlines()
            j.violations.append(("%s:crash:%s:%s" % (prop, crash, ctxs[k]),
                                 "the harness process died (%s, rc=%s) %s; last log lines %r; stderr tail %r"
                                 % (crash, res.rc, where, logs.get(k, "").splitlines()[-6:], tail[-6:])))
    return out


def check_batch(ctx, prop, fl, plat, scs, on_result=None, depth=0):
    """run a batch, report violations (witness minimised to the single scenario when it reproduces alone), re-run what a crash
    prevented from running. on_result(sc, oracle_result) is called for every scenario that was replayed."""
    res = run_batch(fl, plat, scs)
    if not res.timed_out and res.rc in (-15, -9, -2, -1):
        # SIGTERM/SIGKILL/SIGINT/SIGHUP do not come from SimGrid nor from the watchdog: somebody else killed the process
        ctx.inconclusive("harness process killed by an external signal (%s)" % res.rc)
        return
    js = judge(prop, res, scs)
    if not res.timed_out and all(j.status == "not-run" for j in js):
        raise core.HarnessFailure("the harness died before running anything: rc=%s %s" % (res.rc, (res.err or "")[-800:]))
    if res.timed_out:
        ctx.inconclusive("harness watchdog (batch of %d scenarios, %s)" % (len(scs), fl))
        return
    notrun = []
    for k, (sc, j) in enumerate(zip(scs, js)):
        if j.status == "not-run":
            notrun.append(sc)
            continue
        ctx.evaluation()
        if on_result is not None and j.result is not None:
            on_result(sc, j.result, fl)
        for key, what in j.violations:
            w = {"flavour": fl, "plat": plat, "scenarios": scs[:k + 1], "index": k}
            pkey = key.split(":")[0]
            if k > 0 and not is_known(pkey, key) and (key, fl) not in _confirmed:
                _confirmed.add((key, fl))     # one attempt per key and flavour: the other occurrences are not stored anyway
                alone = judge(prop, run_batch(fl, plat, [sc]), [sc])[0]
                if any(k2 == key for k2, _ in alone.violations):
                    w = {"flavour": fl, "plat": plat, "scenarios": [sc], "index": 0}
            ctx.violation(key, "[%s, family %s] %s" % (fl, sc.get("family"), what), w)
    if notrun:
        if depth > 40:
            raise RuntimeError("batch keeps crashing")
        check_batch(ctx, prop, fl, plat, notrun, on_result, depth + 1)


def replay_witness(ctx, prop, w):
    scs, k = w["scenarios"], w["index"]
    res = run_batch(w["flavour"], w["plat"], scs)
    logs, ended, last = O.split_groups(res.out)
    print(logs.get(k, ""))
    print("rc=%s %s" % (res.rc, (res.err or "")[-1500:]))
    ctx.evaluation()
    j = judge(prop, res, scs)[k]
    for key, what in j.violations:
        ctx.violation(key, "[%s] %s" % (w["flavour"], what), w)
    return j
